import Revm.Proofs.Gas
/-! C13 — the gas meter never goes negative and failed charges change nothing.

`Model.Gas` follows crates/interpreter/src/gas.rs operator by operator (release profile: `+=` and `-`
wrap). `Spec.Gas` is the meter over unbounded integers. Statements only; proofs are in
`Revm.Proofs.Gas`.

Reading used (DESIGN §8): the property holds under *frame accounting* — gas handed back by
`erase_cost` was spent before (`returned ≤ spent`, `FrameOk`), the refund counter stays inside `i64`,
and the counter is non-negative when `set_final_refund` caps it (`Spec.Gas.Admissible`). What the code
does outside these conditions is stated by the `…_counterexample` theorems (the `Gas` API itself does
not enforce them: `erase_cost`, `record_refund` use unchecked wrapping arithmetic and
`set_final_refund` casts a negative counter to a huge `u64`). -/
namespace Revm.Props.C13
open Revm Revm.Model.Gas
open Revm.Spec.Gas (abs Meter Admissible AdmissibleRun)

/-! ## record_cost -/

/-- `record_cost` is the checked charge: with `cost ≤ remaining` it succeeds and takes exactly `cost`
(limit and refund untouched), otherwise it fails and the meter is returned unchanged. -/
theorem record_cost_exact (g : Gas) (c : Nat) (hw : WF g) :
    recordCost g c =
      if c ≤ g.remaining then ({ g with remaining := g.remaining - c }, true) else (g, false) := by
  by_cases h : c ≤ g.remaining
  · rw [if_pos h]; exact Proofs.Gas.recordCost_ok g c hw.2.1 h
  · rw [if_neg h]; exact Proofs.Gas.recordCost_fail g c (by omega)

/-- a successful charge reduces `remaining` by exactly the cost and leaves limit / refund alone -/
theorem record_cost_ok (g : Gas) (c : Nat) (hw : WF g) (h : (recordCost g c).2 = true) :
    (recordCost g c).1.remaining + c = g.remaining ∧ (recordCost g c).1.limit = g.limit ∧
    (recordCost g c).1.refunded = g.refunded := by
  rw [Proofs.Gas.recordCost_flag] at h
  have h : c ≤ g.remaining := by simpa using h
  rw [Proofs.Gas.recordCost_ok g c hw.2.1 h]
  exact ⟨by show g.remaining - c + c = g.remaining; omega, rfl, rfl⟩

/-- it fails exactly when the cost exceeds what remains (no typing hypothesis needed) -/
theorem record_cost_fail_iff (g : Gas) (c : Nat) : (recordCost g c).2 = false ↔ g.remaining < c := by
  rw [Proofs.Gas.recordCost_flag]; simp

/-- a failed charge leaves the whole meter unchanged -/
theorem record_cost_fail_unchanged (g : Gas) (c : Nat) (h : (recordCost g c).2 = false) :
    (recordCost g c).1 = g := by
  rw [record_cost_fail_iff] at h
  rw [Proofs.Gas.recordCost_fail g c h]

example : WF (new 100) ∧ (recordCost (new 100) 30).2 = true ∧ (recordCost (new 100) 30).1.remaining = 70 := by decide
example : (recordCost (new 100) 101).2 = false ∧ (recordCost (new 100) 101).1 = new 100 := by decide

/-! ## spent = limit − remaining, remaining ≤ limit -/

/-- `spent()` is `limit − remaining` (no wrap) whenever `remaining ≤ limit` -/
theorem spent_eq (g : Gas) (hw : WF g) (hi : MeterInv g) :
    spent g = g.limit - g.remaining ∧ spent g + g.remaining = g.limit := by
  have h := Proofs.Gas.spent_eq g hw.1 hi
  unfold MeterInv at hi
  exact ⟨h, by rw [h]; omega⟩

example : WF (recordCost (new 100) 30).1 ∧ MeterInv (recordCost (new 100) 30).1 ∧ spent (recordCost (new 100) 30).1 = 30 := by decide

/-- outside the invariant `spent()` wraps: `limit = 10`, `remaining = 11` reports 2^64 − 1 spent -/
theorem spent_wraps_counterexample :
    WF { limit := 10, remaining := 11, refunded := 0 } ∧
    spent { limit := 10, remaining := 11, refunded := 0 } = 18446744073709551615 := by decide

/-- every operation keeps the limit -/
theorem step_limit (g : Gas) (op : Op) : (step g op).1.limit = g.limit := Proofs.Gas.step_limit g op

/-- every operation maps u64/u64/i64 values to u64/u64/i64 values (the model never leaves the machine
ranges, so wrap-around is the only way the numbers can go wrong) -/
theorem step_wf (g : Gas) (op : Op) (hw : WF g) (ht : op.typed) : WF (step g op).1 :=
  Proofs.Gas.step_WF g op hw ht

/-- `remaining ≤ limit` is preserved by `record_cost` (success or failure), `spend_all`, `set_spent`,
`record_refund`, `set_refund`, `set_final_refund` unconditionally, and by `erase_cost r` when
`r ≤ spent` (`FrameOk`) -/
theorem step_preserves_inv (g : Gas) (op : Op) (hw : WF g) (hi : MeterInv g) (hf : FrameOk g op) :
    MeterInv (step g op).1 := Proofs.Gas.step_Inv g op hw.1 hi hf

example : WF (newSpent 100) ∧ MeterInv (newSpent 100) ∧ FrameOk (newSpent 100) (.eraseCost 100) := by decide

/-- under frame accounting `erase_cost` adds exactly the returned gas -/
theorem erase_cost_exact (g : Gas) (r : Nat) (hw : WF g) (hi : MeterInv g) (h : r ≤ spent g) :
    eraseCost g r = { g with remaining := g.remaining + r } ∧ MeterInv (eraseCost g r) :=
  Proofs.Gas.eraseCost_exact g r hw.1 hi h

/-- OUTSIDE frame accounting (`returned > spent`) the invariant is lost: on a fresh meter with limit
10, `erase_cost(1)` gives `remaining = 11 > limit` and `spent()` wraps to 2^64 − 1.
Request lines: `begin gas new a` / `gas erase_cost 1`. -/
theorem erase_cost_counterexample :
    WF (new 10) ∧ MeterInv (new 10) ∧ ¬ FrameOk (new 10) (.eraseCost 1) ∧
    (eraseCost (new 10) 1).remaining = 11 ∧ ¬ MeterInv (eraseCost (new 10) 1) ∧
    spent (eraseCost (new 10) 1) = 18446744073709551615 := by decide

/-- OUTSIDE frame accounting the `+=` itself wraps: limit 2^64 − 1, 5 gas spent, `erase_cost(10)`
leaves 4 gas remaining (handing gas back destroyed the whole balance).
Request lines: `begin gas new ffffffffffffffff` / `gas record_cost 5` / `gas erase_cost a`. -/
theorem erase_cost_wrap_counterexample :
    let g := (recordCost (new 18446744073709551615) 5).1
    WF g ∧ MeterInv g ∧ ¬ FrameOk g (.eraseCost 10) ∧ (eraseCost g 10).remaining = 4 := by decide

/-- `set_spent s` makes `spent = min s limit` -/
theorem set_spent_exact (g : Gas) (s : Nat) (hw : WF g) :
    MeterInv (setSpent g s) ∧ spent (setSpent g s) = min s g.limit ∧ (setSpent g s).limit = g.limit := by
  have hi : MeterInv (setSpent g s) := by show g.limit - s ≤ g.limit; omega
  refine ⟨hi, ?_, rfl⟩
  rw [Proofs.Gas.spent_eq (setSpent g s) hw.1 hi]
  show g.limit - (g.limit - s) = min s g.limit; omega

/-- `spend_all` makes `spent = limit` -/
theorem spend_all_exact (g : Gas) (hw : WF g) :
    (spendAll g).remaining = 0 ∧ spent (spendAll g) = g.limit := by
  have hi : MeterInv (spendAll g) := by show 0 ≤ g.limit; omega
  refine ⟨rfl, ?_⟩
  rw [Proofs.Gas.spent_eq (spendAll g) hw.1 hi]; rfl

/-! ## refunds -/

/-- `record_refund` adds exactly when the sum is an `i64` -/
theorem record_refund_exact (g : Gas) (r : Int) (h0 : I64MIN ≤ g.refunded + r) (h1 : g.refunded + r ≤ I64MAX) :
    recordRefund g r = { g with refunded := g.refunded + r } := by
  unfold recordRefund; rw [Proofs.Gas.i64WrapAdd_exact _ _ h0 h1]

example : I64MIN ≤ (setRefund (new 5) 40).refunded + (-15) ∧ (recordRefund (setRefund (new 5) 40) (-15)).refunded = 25 := by decide

/-- outside that range the release build wraps (a debug build panics): i64::MAX + 1 = i64::MIN.
Request lines: `begin gas new 0` / `gas set_refund 9223372036854775807` / `gas record_refund 1`. -/
theorem record_refund_wrap_counterexample :
    (recordRefund (setRefund (new 0) 9223372036854775807) 1).refunded = -9223372036854775808 := by decide

/-- the refund cap, for a non-negative recorded refund: the final refund is the recorded refund capped
at `spent / 5` (London) or `spent / 2`; limit and remaining are untouched -/
theorem final_refund (g : Gas) (isLondon : Bool) (hw : WF g) (h0 : 0 ≤ g.refunded) :
    (setFinalRefund g isLondon).refunded =
      min g.refunded ((spent g / (if isLondon then 5 else 2) : Nat) : Int) ∧
    (setFinalRefund g isLondon).limit = g.limit ∧ (setFinalRefund g isLondon).remaining = g.remaining :=
  ⟨Proofs.Gas.setFinalRefund_nonneg g isLondon h0 hw.2.2.2, rfl, rfl⟩

example : WF (recordRefund (recordCost (new 100) 60).1 50) ∧ 0 ≤ (recordRefund (recordCost (new 100) 60).1 50).refunded ∧
    (setFinalRefund (recordRefund (recordCost (new 100) 60).1 50) true).refunded = 12 ∧
    (setFinalRefund (recordRefund (recordCost (new 100) 60).1 50) false).refunded = 30 ∧
    (setFinalRefund (recordRefund (recordCost (new 100) 60).1 7) true).refunded = 7 := by decide

/-- whatever the recorded refund was, the final refund is within `0 … spent / q` -/
theorem final_refund_bounds (g : Gas) (isLondon : Bool) :
    0 ≤ (setFinalRefund g isLondon).refunded ∧
    (setFinalRefund g isLondon).refunded ≤ ((spent g / (if isLondon then 5 else 2) : Nat) : Int) :=
  Proofs.Gas.setFinalRefund_bounds g isLondon

/-- negative recorded refund, characterised: `refunded as u64 ≥ 2^63` always loses the `min`, so the
final refund is the FULL cap `spent / q` (not the recorded value, not 0) -/
theorem final_refund_negative (g : Gas) (isLondon : Bool) (hw : WF g) (h0 : g.refunded < 0) :
    (setFinalRefund g isLondon).refunded = ((spent g / (if isLondon then 5 else 2) : Nat) : Int) :=
  Proofs.Gas.setFinalRefund_neg g isLondon h0 hw.2.2.1

/-- the literal property text ("the final refund is the recorded refund capped at spent/5") fails for a
negative counter: limit 100 all spent, recorded refund −1, London: the final refund is 20, not
`min (−1) 20 = −1`. Excluded by the reading (DESIGN §8); reported.
Request lines: `begin gas new 64` / `gas spend_all` / `gas record_refund -1` / `gas set_final_refund 1`. -/
theorem final_refund_negative_counterexample :
    let g := recordRefund (spendAll (new 100)) (-1)
    WF g ∧ MeterInv g ∧ g.refunded = -1 ∧ (setFinalRefund g true).refunded = 20 ∧
    (setFinalRefund g true).refunded ≠ min g.refunded ((spent g / 5 : Nat) : Int) := by decide

/-- `spent_sub_refunded` is `spent − refunded`, floored at 0, for a non-negative refund -/
theorem spent_sub_refunded_eq (g : Gas) (hw : WF g) (h0 : 0 ≤ g.refunded) :
    spentSubRefunded g = spent g - g.refunded.toNat :=
  Proofs.Gas.spentSubRefunded_nonneg g h0 hw.2.2.2

example : WF (recordRefund (spendAll (new 100)) 30) ∧ spentSubRefunded (recordRefund (spendAll (new 100)) 30) = 70 := by decide

/-- for a negative refund the cast makes it 0 instead of `spent + |refunded|`.
Request lines: `begin gas new 64` / `gas spend_all` / `gas record_refund -10`. -/
theorem spent_sub_refunded_negative_counterexample :
    spentSubRefunded (recordRefund (spendAll (new 100)) (-10)) = 0 := by decide

/-- `remaining_63_of_64_parts` never wraps -/
theorem remaining_63_of_64 (g : Gas) (hw : WF g) :
    remaining63of64 g = g.remaining - g.remaining / 64 ∧ remaining63of64 g ≤ g.remaining := by
  have h := Proofs.Gas.remaining63of64_eq g hw.2.1
  exact ⟨h, by rw [h]; omega⟩

/-! ## whole sequences -/

/-- For every sequence of operations with typed arguments that respects frame accounting
(`FrameOkRun`: each `erase_cost r` has `r ≤ spent` in the state it is applied to — nothing is assumed
about refunds), after EVERY prefix of the sequence: the values are still u64/u64/i64, remaining gas
does not exceed the limit, the limit is the initial one, and `spent()` is `limit − remaining`
without wrap. -/
theorem run_never_exceeds_limit (g : Gas) (ops : List Op) (hw : WF g) (hi : MeterInv g)
    (hf : FrameOkRun g ops) (xs ys : List Op) (hx : ops = xs ++ ys) :
    WF (run g xs).1 ∧ (run g xs).1.remaining ≤ (run g xs).1.limit ∧ (run g xs).1.limit = g.limit ∧
    spent (run g xs).1 + (run g xs).1.remaining = g.limit := by
  subst hx
  have h := Proofs.Gas.run_invariant g xs hw hi (Proofs.Gas.frameOkRun_prefix g xs ys hf)
  have hs := spent_eq _ h.1 h.2.1
  exact ⟨h.1, h.2.1, h.2.2, by rw [hs.2, h.2.2]⟩

/-- Under the same hypothesis the gas columns of the code ARE the unbounded meter: limit, remaining and
the success flag of every `record_cost` equal those of `Spec.Gas.run` (where a charge succeeds iff
`cost ≤ remaining` and then takes exactly `cost`, a failed charge changes nothing, returned gas is
added). Refunds may be arbitrary here (even wrapping): the gas columns do not depend on them. -/
theorem run_gas_refines_spec (g : Gas) (ops : List Op) (hw : WF g) (hi : MeterInv g)
    (hf : FrameOkRun g ops) :
    (run g ops).1.limit = (Spec.Gas.run (abs g) ops).1.limit ∧
    (run g ops).1.remaining = (Spec.Gas.run (abs g) ops).1.remaining ∧
    (run g ops).2 = (Spec.Gas.run (abs g) ops).2 := by
  have h := Proofs.Gas.run_gas_refines g (abs g) ops ⟨rfl, rfl⟩ hw hi hf
  exact ⟨h.1.1.symm, h.1.2.symm, h.2⟩

/-- Full refinement: under `AdmissibleRun` (frame accounting on gas AND on the refund counter: sums
stay `i64`, counter non-negative when capped) the code's meter equals the unbounded meter in every
field and every returned flag, for every sequence; and such a sequence is in particular `FrameOkRun`. -/
theorem run_refines_spec (g : Gas) (ops : List Op) (hw : WF g) (hi : MeterInv g)
    (ha : AdmissibleRun (abs g) ops) :
    abs (run g ops).1 = (Spec.Gas.run (abs g) ops).1 ∧ (run g ops).2 = (Spec.Gas.run (abs g) ops).2 ∧
    FrameOkRun g ops := Proofs.Gas.run_refines g ops hw hi ha

/-- the shape of a real frame: charge, charge too much (fails), sub-call returns gas, refunds (one
negative), final refund. The hypotheses of the sequence theorems hold and the run is non-trivial. -/
def sampleOps : List Op :=
  [.recordCost 21000, .recordCost 1000000, .recordCost 30000, .eraseCost 12000, .recordRefund 19200,
   .recordRefund (-4800), .recordRefund 4800, .setFinalRefund true]

example : WF (new 100000) ∧ MeterInv (new 100000) ∧ FrameOkRun (new 100000) sampleOps ∧
    AdmissibleRun (abs (new 100000)) sampleOps := by decide
example : run (new 100000) sampleOps =
    ({ limit := 100000, remaining := 61000, refunded := 7800 }, [true, false, true, true, true, true, true, true]) := by decide

end Revm.Props.C13
