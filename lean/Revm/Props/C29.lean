import Revm.Proofs.InspectorHooks
/-! C29 — inspector hooks are balanced and nested.

"During any transaction, each call, create and EOF-create notification is followed by exactly one matching
end notification carrying the same inputs, in last-in-first-out order, including calls short-circuited by
the inspector or rejected before a frame exists. Each executed instruction is bracketed by exactly one
step and one step-end notification, and each emitted log is reported once."

`Model.InspectorHooks.runTx b first turns` is the handler register of
`crates/revm/src/inspector/handler_register.rs` (three input stacks, the `call`/`create`/`eofcreate`
wrappers with the short-circuit path, the `insert_*_outcome` and `last_frame_return` wrappers, the
instruction wrappers) over the frame loop of `evm.rs`, driven by an ARBITRARY script: what the frames
execute, which frames they request with which inputs, whether the inspector answers itself, whether the
frame-creation handler answers `Frame`, an immediate `Result` (depth limit, precompile, failed transfer,
collision, …) or `Err`, what frames return, and where a database error aborts the loop. Every theorem
below is for ALL scripts of any length and ALL contents `b` of the three stacks at the start of the
transaction (they outlive a transaction: `Rc<RefCell<Vec>>` captured by the handler).

Reading of "during any transaction": a transaction that returns a result (`Status.finished`). A
transaction that is aborted by an `EVMError` (failing `Database`, fatal precompile error) makes no further
callbacks, so its open notifications stay open: its word is a prefix of a balanced word
(`aborted_word_is_prefix`) and the inputs of the open notifications stay on the stacks
(`abort_leaves_inputs`). They are never popped by a later transaction on the same `Evm`
(`leftovers_do_not_matter`, `later_transactions_balanced`): no wrong `*_end` pairing results, only memory
that is not released until the handler is rebuilt.

Assumptions (named in propscfg): the previous handlers answer with a frame / result of their own kind
(true of `mainnet::call/create/eofcreate`, which use `FrameOrResult::new_*_frame/new_*_result` of the same
kind, and of the optimism handlers); `i` stands for the whole inputs object. -/
namespace Revm.Props.C29
open Revm.Model.InspectorHooks Revm.Spec.InspectorHooks Revm.Proofs.InspectorHooks

/-- the one-stack scanner used by the driver and the harness decides well-bracketedness -/
theorem checker_decides_balanced (w : List Ev) : check w = true ↔ Balanced w := check_iff w

/-- `.pop().unwrap()` of the three input stacks and `call_stack.pop().expect(..)` never panic -/
theorem hooks_never_panic (b : Stacks) (first : Spawn) (turns : List Turn) :
    (runTx b first turns).1 ≠ .panicked := by
  have hr := runTx_rel b first turns
  have hg := aRunTx_good first turns
  rw [hr.status]; exact hg.noPanic

/-- HEADLINE: the callbacks of every transaction that returns form a well-bracketed word: every
`call`/`create`/`eofcreate` is closed by exactly one `*_end` of the same kind with the same inputs, last
opened first closed — short-circuited and immediately answered requests included -/
theorem hooks_balanced (b : Stacks) (first : Spawn) (turns : List Turn)
    (h : (runTx b first turns).1 = .finished) : Balanced (runTx b first turns).2.word := by
  have hr := runTx_rel b first turns
  have hg := aRunTx_good first turns
  rw [hr.word]
  apply balanced_of_scan
  rw [hg.scanned, hg.fin (by rw [← hr.status]; exact h)]

/-- stronger: the whole transaction is ONE bracket — the notification of the transaction's own call /
create / EOF-create comes first, its `*_end` (same kind, same inputs) comes last, and everything in
between is balanced -/
theorem transaction_is_one_bracket (b : Stacks) (first : Spawn) (turns : List Turn)
    (h : (runTx b first turns).1 = .finished) :
    ∃ u o, (runTx b first turns).2.word = Ev.opn first.k first.i :: (u ++ [Ev.cls first.k first.i o]) ∧
      Balanced u := by
  have hr := runTx_rel b first turns
  have ht := aRunTx_top first turns
  have hfin : (aRunTx first turns).1 = .finished := by rw [← hr.status]; exact h
  unfold TopRes at ht
  rw [hfin] at ht
  rw [hr.word]; exact ht

/-- "exactly one": per kind, a transaction that returns makes as many `*_end` callbacks as opening ones -/
theorem as_many_ends_as_opens (b : Stacks) (first : Spawn) (turns : List Turn) (k : Kind)
    (h : (runTx b first turns).1 = .finished) :
    (runTx b first turns).2.word.countP (isOpn k) = (runTx b first turns).2.word.countP (isCls k) :=
  balanced_counts (hooks_balanced b first turns h) k

/-- the same through the decidable checker -/
theorem hooks_check (b : Stacks) (first : Spawn) (turns : List Turn)
    (h : (runTx b first turns).1 = .finished) : check (runTx b first turns).2.word = true :=
  (check_iff _).2 (hooks_balanced b first turns h)

/-- in a balanced word the `*_end` that closes a notification (the first one after a balanced stretch)
has the kind and the inputs of that notification -/
theorem end_carries_same_inputs {k k' : Kind} {i i' o : Nat} {u v : List Ev} (hu : Balanced u)
    (h : Balanced (Ev.opn k i :: (u ++ Ev.cls k' i' o :: v))) : k = k' ∧ i = i' := end_matches hu h

/-- after a transaction that returned the three stacks are what they were before it -/
theorem stacks_restored (b : Stacks) (first : Spawn) (turns : List Turn)
    (h : (runTx b first turns).1 = .finished) : (runTx b first turns).2.stk = b := by
  have hr := runTx_rel b first turns
  have hg := aRunTx_good first turns
  rw [hr.stk, hg.fin (by rw [← hr.status]; exact h)]; rfl

/-- whatever happens (abort by an `EVMError`, script ends early): no `*_end` so far was mismatched — the
word extends to a balanced one by closing the open notifications `opened` innermost first — and the
stacks hold exactly the inputs of those open notifications on top of what was there before -/
theorem aborted_word_is_prefix (b : Stacks) (first : Spawn) (turns : List Turn) :
    ∃ opened : List (Kind × Nat),
      Balanced ((runTx b first turns).2.word ++ closers opened) ∧
      (runTx b first turns).2.stk = stacksOf opened b ∧
      ((runTx b first turns).1 = .finished → opened = []) := by
  have hr := runTx_rel b first turns
  have hg := aRunTx_good first turns
  refine ⟨(aRunTx first turns).2.opened, ?_, hr.stk, fun h => hg.fin (by rw [← hr.status]; exact h)⟩
  rw [hr.word]; exact prefix_of_scan hg.scanned

/-- leftovers on the stacks (from a transaction aborted earlier on the same `Evm`) change neither the
callbacks nor the status of a transaction: they are never popped -/
theorem leftovers_do_not_matter (b : Stacks) (first : Spawn) (turns : List Turn) :
    (runTx b first turns).1 = (runTx {} first turns).1 ∧
    (runTx b first turns).2.word = (runTx {} first turns).2.word := by
  have h1 := runTx_rel b first turns
  have h2 := runTx_rel {} first turns
  exact ⟨by rw [h1.status, h2.status], by rw [h1.word, h2.word]⟩

/-- any sequence of transactions on one `Evm`, aborted ones included anywhere: every transaction that
returns has a balanced word -/
theorem later_transactions_balanced : ∀ (txs : List (Spawn × List Turn)) (b : Stacks),
    ∀ r ∈ runTxs b txs, r.1 = .finished → Balanced r.2 := by
  intro txs
  induction txs with
  | nil => intro b r hr; simp [runTxs] at hr
  | cons tx txs ih =>
    intro b r hr hfin
    obtain ⟨f, ts⟩ := tx
    simp only [runTxs, List.mem_cons] at hr
    rcases hr with rfl | hr
    · exact hooks_balanced b f ts hfin
    · exact ih _ r hr hfin

/-- an aborted transaction does leave inputs behind (not released until the handler is rebuilt): a call
frame whose execution hits a database error -/
theorem abort_leaves_inputs :
    runTx {} ⟨.call, 7, none, .frame⟩ [⟨[.plain], none, .fatal⟩] =
      (.aborted, { frames := [.call], stk := { call := [7] },
                   word := [.opn .call 7, .initInterp, .step, .stepEnd] }) := by decide

/-- each executed instruction is bracketed by `step · step_end` with nothing in between, and no `step` or
`step_end` occurs otherwise — for inspectors whose `step` leaves the interpreter running (observing
inspectors): the two callbacks only occur as adjacent pairs -/
theorem step_bracketed (b : Stacks) (first : Spawn) (turns : List Turn) (hobs : ∀ t ∈ turns, t.halt = none) :
    stepsPaired (runTx b first turns).2.word = true := stepsPaired_runTx b first turns hobs

/-- in general (the inspector's `step` may stop the interpreter: that instruction is skipped and gets NO
`step_end`): the `step`/`step_end` callbacks of the transaction are, in order, one `step · step_end` per
executed instruction and one lone `step` per instruction skipped that way -/
theorem step_callbacks_exact (b : Stacks) (first : Spawn) (turns : List Turn) :
    stepsOf (runTx b first turns).2.word =
      (turns.take (usedTx b first turns)).flatMap fun t =>
        t.ins.flatMap (fun _ => [Ev.step, Ev.stepEnd]) ++ t.halt.toList.map (fun _ => Ev.step) := by
  have := filterMap_runTx stepProj stepProj_free b first turns
  simp only [stepsOf, this]
  congr 1; funext t; exact steps_turnEvents t

/-- each emitted log is reported once: the `log` callbacks of the transaction are, in order, exactly the
logs appended by the LOG instructions that were dispatched in the loop iterations that ran -/
theorem log_reported_once (b : Stacks) (first : Spawn) (turns : List Turn) :
    logsOf (runTx b first turns).2.word =
      (turns.take (usedTx b first turns)).flatMap fun t => (turnInsns t).filterMap insnLog := by
  have := filterMap_runTx logProj logProj_free b first turns
  simp only [logsOf, this]
  congr 1; funext t; exact logs_turnEvents t

/-- a LOG that appended exactly one log reports exactly that log, right after its `step_end` -/
theorem log_grew_by_one (before : List Nat) (l : Nat) :
    insnEvents (.logOp before.length (before ++ [l])) = [.step, .stepEnd, .log l] := by
  simp [insnEvents, postEvents]

/-- a LOG that failed (static call, out of gas, stack underflow: nothing appended) reports nothing -/
theorem log_failed (logs : List Nat) :
    insnEvents (.logOp logs.length logs) = [.step, .stepEnd] := by
  simp [insnEvents, postEvents]

/-! ### non-vacuity: concrete scripts -/

/-- a call frame that executes, makes a sub-call answered at once (precompile / depth limit), a CREATE the
inspector short-circuits, an EOF create that gets a frame and returns, logs once, and returns -/
def sampleTurns : List Turn :=
  [ ⟨[.plain, .plain], none, .spawn ⟨.call, 11, none, .result 5⟩ false⟩,
    ⟨[.logOp 0 [42]], none, .spawn ⟨.create, 12, some 6, .frame⟩ false⟩,
    ⟨[.plain], none, .spawn ⟨.eofcreate, 13, none, .frame⟩ false⟩,
    ⟨[.logOp 1 [42]], some .plain, .ret (some 7) false⟩,
    ⟨[.plain], none, .ret (some 8) false⟩ ]

example : (runTx {} ⟨.call, 10, none, .frame⟩ sampleTurns).1 = .finished := by decide
example : usedTx {} ⟨.call, 10, none, .frame⟩ sampleTurns = 5 := by decide
example : logsOf (runTx {} ⟨.call, 10, none, .frame⟩ sampleTurns).2.word = [42] := by decide
example : (runTx { call := [1, 2], create := [3] } ⟨.call, 10, none, .frame⟩ sampleTurns).1 = .finished := by decide
/-- hypotheses of `step_bracketed` hold for a script without halting steps -/
example : ∀ t ∈ sampleTurns.take 3, t.halt = none := by decide
/-- hypotheses of `end_carries_same_inputs` -/
example : Balanced [Ev.opn .call 1, .step, .stepEnd, .cls .call 1 0] :=
  .bracket .call 1 0 [.step, .stepEnd] [] (.neutral _ _ rfl (.neutral _ _ rfl .nil)) .nil
/-- a transaction aborted mid-frame followed by one that returns, on the same stacks -/
example : (runTxs {} [(⟨.call, 7, none, .frame⟩, [⟨[.plain], none, .fatal⟩]),
                       (⟨.call, 10, none, .frame⟩, sampleTurns)]).map (·.1) = [.aborted, .finished] := by decide

end Revm.Props.C29
