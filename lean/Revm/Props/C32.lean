import Revm.Proofs.Blob
/-! C32 — blob fee functions match the EIP-4844 integer definitions.

`Model.Blob` follows the **repaired** `utilities.rs` (commit "fix: blob fee helpers wrapped silently
on large excess blob gas": U256 intermediates with `checked_add` / `checked_mul`, saturation to
`u128::MAX` / `u64::MAX`). `Spec.Blob` is the EIP-4844 Python over unbounded integers.

The property now holds at full strength, for all `u64` arguments and with no intermediate-overflow
hypothesis: the price is the EIP value clamped to `u128` (so it is the EIP value whenever that fits
in 128 bits, and `u128::MAX` — never a wrapped residue — otherwise), and the excess is
`max(0, a+b−t)` clamped to `u64`. The witnesses of the former finding are kept as regression
theorems (and in `corpus/C32`). -/
namespace Revm.Props.C32
open Revm Revm.Model.Blob Revm.Proofs.Blob

/-- the property as written, for the price function -/
def FullStatementFakeExp : Prop :=
  ∀ f n d r, f < U64 → n < U64 → d < U64 → d ≠ 0 → Spec.Blob.FakeExp f n d r → r < 2^128 →
    ∃ fuel, fakeExponential fuel f n d = some (.ok r)
/-- the property as written, for the excess function (result clamped to the `u64` return type) -/
def FullStatementExcess : Prop :=
  ∀ a b t, a < U64 → b < U64 → t < U64 →
    (calcExcessBlobGas a b t : Int) = min (max 0 ((a : Int) + b - t)) (2^64 - 1)

/-! ## the specification is a total function -/

/-- the EIP-4844 loop over unbounded integers terminates for all arguments with a unique value -/
theorem fake_exp_spec_total (f n d : Nat) :
    ∃ r, Spec.Blob.FakeExp f n d r ∧ ∀ r', Spec.Blob.FakeExp f n d r' → r' = r := by
  obtain ⟨r, hr⟩ := fakeExp_total f n d
  exact ⟨r, hr, fun r' h' => fakeExp_unique f n d r' r h' hr⟩

/-! ## price -/

/-- for **all** `u64` factor, numerator and non-zero denominator: `fake_exponential` returns
`min r (2^128 − 1)` where `r` is the EIP value over unbounded integers (for every sufficiently large
fuel; the answer does not depend on the fuel, `fake_exp_fuel_independent`) -/
theorem fake_exp_eq (f n d r : Nat) (hf : f < U64) (hn : n < U64) (hd : d < U64) (hd0 : d ≠ 0)
    (hr : Spec.Blob.FakeExp f n d r) :
    ∃ fuel0, ∀ fuel, fuel0 ≤ fuel → fakeExponential fuel f n d = some (.ok (min r (2^128 - 1))) :=
  Proofs.Blob.fake_exp_eq f n d r hf hn hd hd0 hr

example : Spec.Blob.FakeExp 1 192204553 3338477 10079296854086811361005191 := ⟨400, cancun_spec_at⟩

/-- whenever the EIP value fits in 128 bits the function returns exactly it -/
theorem fake_exp_exact (f n d r : Nat) (hf : f < U64) (hn : n < U64) (hd : d < U64) (hd0 : d ≠ 0)
    (hr : Spec.Blob.FakeExp f n d r) (hfit : r < 2^128) :
    ∃ fuel0, ∀ fuel, fuel0 ≤ fuel → fakeExponential fuel f n d = some (.ok r) := by
  obtain ⟨fuel0, h⟩ := Proofs.Blob.fake_exp_eq f n d r hf hn hd hd0 hr
  refine ⟨fuel0, fun fuel hle => ?_⟩
  rw [h fuel hle]; unfold Spec.Blob.clamp128
  rw [Nat.min_eq_left (by omega)]

example : (10079296854086811361005191 : Nat) < 2^128 := by decide

/-- when it does not fit the function returns `u128::MAX` — never a wrapped value -/
theorem fake_exp_saturates (f n d r : Nat) (hf : f < U64) (hn : n < U64) (hd : d < U64) (hd0 : d ≠ 0)
    (hr : Spec.Blob.FakeExp f n d r) (hbig : 2^128 ≤ r) :
    ∃ fuel0, ∀ fuel, fuel0 ≤ fuel → fakeExponential fuel f n d = some (.ok (2^128 - 1)) := by
  obtain ⟨fuel0, h⟩ := Proofs.Blob.fake_exp_eq f n d r hf hn hd hd0 hr
  refine ⟨fuel0, fun fuel hle => ?_⟩
  rw [h fuel hle]; unfold Spec.Blob.clamp128
  rw [Nat.min_eq_right (by omega)]

example : Spec.Blob.FakeExp 1 89 1 448904602005332587071412458193989150132 ∧
    2^128 ≤ (448904602005332587071412458193989150132 : Nat) := ⟨⟨400, by decide +kernel⟩, by decide⟩

/-- the property as written holds -/
theorem full_statement_fake_exp : FullStatementFakeExp := by
  intro f n d r hf hn hd hd0 hr hfit
  obtain ⟨fuel0, h⟩ := fake_exp_exact f n d r hf hn hd hd0 hr hfit
  exact ⟨fuel0, h fuel0 (Nat.le_refl _)⟩

/-- with a non-zero denominator the function always returns a value: it never panics (no division
by zero through a wrapped `denominator * i`) and its loop terminates -/
theorem fake_exp_never_panics (f n d : Nat) (hf : f < U64) (hn : n < U64) (hd : d < U64) (hd0 : d ≠ 0) :
    ∃ fuel v, fakeExponential fuel f n d = some (.ok v) ∧ v < 2^128 := by
  obtain ⟨r, hr⟩ := fakeExp_total f n d
  obtain ⟨fuel0, h⟩ := Proofs.Blob.fake_exp_eq f n d r hf hn hd hd0 hr
  refine ⟨fuel0, _, h fuel0 (Nat.le_refl _), ?_⟩
  unfold Spec.Blob.clamp128; omega

/-- the answer does not depend on the fuel given to the model's loop -/
theorem fake_exp_fuel_independent (a b f n d : Nat) (r r' : Res Nat)
    (h : fakeExponential a f n d = some r) (h' : fakeExponential b f n d = some r') : r = r' :=
  model_top_unique a b f n d r r' h h'

example : fakeExponential 400 1 88 1 = some (.ok 165162653699637111792770913913821835905) := small_model_at

/-- a zero denominator panics (`assert_ne!`) -/
theorem fake_exp_zero_denominator (fuel f n : Nat) : fakeExponential fuel f n 0 = some .panic := by
  simp [fakeExponential]

/-- `calc_blob_gasprice(excess, is_prague)` for **every** `u64` excess and both update fractions is the
EIP value clamped to `u128` -/
theorem blob_gasprice_eq (excess : Nat) (p : Bool) (r : Nat) (he : excess < U64)
    (hr : Spec.Blob.FakeExp 1 excess (Spec.Blob.fraction p) r) :
    ∃ fuel0, ∀ fuel, fuel0 ≤ fuel → calcBlobGasprice fuel excess p = some (.ok (min r (2^128 - 1))) := by
  have hU := U64_val
  cases p with
  | false => exact Proofs.Blob.fake_exp_eq 1 excess 3338477 r (by omega) he (by omega) (by omega) hr
  | true => exact Proofs.Blob.fake_exp_eq 1 excess 5007716 r (by omega) he (by omega) (by omega) hr

example : Spec.Blob.FakeExp 1 284284039 (Spec.Blob.fraction true) 4513890120847598646169468 :=
  ⟨400, prague_spec_at⟩

/-- the Spec column printed by the driver (`Spec.fakeExpSat`, unbounded integers with an early exit)
is the clamped EIP value -/
theorem spec_column_eq (fuel f n d v r : Nat) (hd0 : d ≠ 0)
    (h : Spec.Blob.fakeExpSat fuel f n d = some v) (hr : Spec.Blob.FakeExp f n d r) :
    v = min r (2^128 - 1) :=
  sat_eq_clamp fuel f n d v r hd0 h hr

example : Spec.Blob.fakeExpSat 400 1 18446744073709551615 3338477 = some (2^128 - 1) := by decide +kernel

/-- regression: the witnesses of the former finding (DESIGN section 9 item 7) now give the EIP value -/
theorem fake_exp_regression :
    Spec.Blob.blobGaspriceFuel 400 192204553 false = some 10079296854086811361005191
    ∧ calcBlobGasprice 400 192204553 false = some (.ok 10079296854086811361005191)
    ∧ Spec.Blob.blobGaspriceFuel 400 284284039 true = some 4513890120847598646169468
    ∧ calcBlobGasprice 400 284284039 true = some (.ok 4513890120847598646169468)
    ∧ Spec.Blob.fakeExpFuel 400 1 88 1 = some 165162653699637111792770913913821835905
    ∧ fakeExponential 400 1 88 1 = some (.ok 165162653699637111792770913913821835905)
    ∧ calcBlobGasprice 400 18446744073709551615 false = some (.ok (2^128 - 1)) :=
  ⟨cancun_spec_at, cancun_model_at, prague_spec_at, prague_model_at, small_spec_at, small_model_at, max_model_at⟩

/-! ## excess blob gas -/

/-- for **all** `u64` arguments: `calc_excess_blob_gas = min(max(0, excess + used − target), 2^64 − 1)` -/
theorem excess_eq (a b t : Nat) (ha : a < U64) (hb : b < U64) (ht : t < U64) :
    (calcExcessBlobGas a b t : Int) = min (max 0 ((a : Int) + b - t)) (2^64 - 1) :=
  Proofs.Blob.excess_eq a b t ha hb ht

/-- in particular it is exactly `max(0, excess + used − target)` whenever that fits in a `u64` -/
theorem excess_exact (a b t : Nat) (ha : a < U64) (hb : b < U64) (ht : t < U64)
    (hfit : (a : Int) + b - t < 2^64) :
    (calcExcessBlobGas a b t : Int) = max 0 ((a : Int) + b - t) := by
  rw [Proofs.Blob.excess_eq a b t ha hb ht]
  unfold Spec.Blob.excessBlobGasClamped Spec.Blob.excessBlobGas
  have h64 : ((2:Int)^64) = 18446744073709551616 := by decide
  rw [h64] at hfit ⊢
  omega

example : ((18446744073709551615 : Nat) : Int) + (1 : Nat) - (1 : Nat) < 2^64 := by decide

theorem full_statement_excess : FullStatementExcess :=
  fun a b t ha hb ht => Proofs.Blob.excess_eq a b t ha hb ht

/-- the returned value is a `u64` -/
theorem excess_is_u64 (a b t : Nat) : calcExcessBlobGas a b t < U64 := excess_lt a b t

/-- regression: `calc_excess_blob_gas(2^64−1, 1, 1) = 2^64−1` (was 0), and a sum that does not fit
saturates -/
theorem excess_regression :
    calcExcessBlobGas 18446744073709551615 1 1 = 18446744073709551615
    ∧ calcExcessBlobGas 18446744073709551615 18446744073709551615 0 = 18446744073709551615 := by
  refine ⟨by decide +kernel, by decide +kernel⟩

/-! ## `BlobExcessGasAndPrice` -/

/-- `BlobExcessGasAndPrice::new` stores the excess it was given and the price of `calc_blob_gasprice` -/
theorem blob_new_eq (fuel e : Nat) (p : Bool) (r : Nat)
    (h : calcBlobGasprice fuel e p = some (.ok r)) :
    BlobExcessGasAndPrice.new fuel e p = some (.ok ⟨e, r⟩) := by
  simp [BlobExcessGasAndPrice.new, h]

example : calcBlobGasprice 400 0 true = some (.ok 1) := by decide +kernel

/-- `from_parent_and_target` composes the two functions -/
theorem blob_from_parent_eq (fuel a b t : Nat) (p : Bool) :
    BlobExcessGasAndPrice.fromParentAndTarget fuel a b t p
      = BlobExcessGasAndPrice.new fuel (calcExcessBlobGas a b t) p := rfl

end Revm.Props.C32
