import Revm.Proofs.Blob
/-! C32 — blob fee functions match the EIP-4844 integer definitions.

`Model.Blob` follows `utilities.rs` (`wrap = true`: release profile, `+ *` wrap; `wrap = false`:
debug profile, they panic). `Spec.Blob` is the EIP-4844 Python over unbounded integers.

The property as written is **false of the code**: `fake_exponential` computes `accum * numerator` in
`u128` and `calc_excess_blob_gas` computes `excess + used` in `u64` without a check, so outside the
domains below the release build silently returns a wrapped value (the debug build panics) although
the true value fits. The theorems state the exact domains, the counterexample theorems give the
smallest witnesses, and `full_statement_false` refutes the unrestricted statement. -/
namespace Revm.Props.C32
open Revm Revm.Model.Blob Revm.Proofs.Blob

/-- the property as written, for the price function (release profile) -/
def FullStatementFakeExp : Prop :=
  ∀ f n d r, f < U64 → n < U64 → d < U64 → d ≠ 0 → Spec.Blob.FakeExp f n d r → r < 2^128 →
    ∃ fuel, fakeExponential true fuel f n d = some (.ok r)
/-- the property as written, for the excess function (release profile) -/
def FullStatementExcess : Prop :=
  ∀ a b t, a < U64 → b < U64 → t < U64 →
    ∃ v, calcExcessBlobGas true a b t = .ok v ∧ (v : Int) = Spec.Blob.excessBlobGas a b t

/-! ## the specification is a total function -/

/-- the EIP-4844 loop over unbounded integers terminates for all arguments with a unique value -/
theorem fake_exp_spec_total (f n d : Nat) :
    ∃ r, Spec.Blob.FakeExp f n d r ∧ ∀ r', Spec.Blob.FakeExp f n d r' → r' = r := by
  obtain ⟨r, hr⟩ := fakeExp_total f n d
  exact ⟨r, hr, fun r' h' => fakeExp_unique f n d r' r h' hr⟩

/-! ## price: exact on the no-intermediate-overflow domain -/

/-- for every factor, numerator and non-zero denominator: if no intermediate value of the unbounded
computation reaches 2^128, then `fake_exponential` returns the EIP value (in the release and in the
debug profile, for every sufficiently large fuel) and that value is below 2^128 -/
theorem fake_exp_eq_partial (f n d r : Nat) (hd : d ≠ 0) (hr : Spec.Blob.FakeExp f n d r)
    (hfit : Spec.Blob.NoIntermediateOverflow f n d) :
    (∃ fuel0, ∀ fuel, fuel0 ≤ fuel →
      fakeExponential true fuel f n d = some (.ok r) ∧ fakeExponential false fuel f n d = some (.ok r)) := by
  obtain ⟨a, ha⟩ := fake_exp_eq true f n d r hd hr hfit
  obtain ⟨b, hb⟩ := fake_exp_eq false f n d r hd hr hfit
  exact ⟨a + b, fun fuel h => ⟨ha fuel (by omega), hb fuel (by omega)⟩⟩

example : Spec.Blob.FakeExp 1 192204552 3338477 10079293834132079738693097
    ∧ Spec.Blob.NoIntermediateOverflow 1 192204552 3338477 :=
  ⟨⟨400, by decide +kernel⟩, ⟨400, by decide +kernel, by decide +kernel⟩⟩

/-- the domain is exact: the debug profile returns a value *only* on that domain (it panics as soon
as an intermediate value does not fit), and the value is then the EIP value -/
theorem fake_exp_debug_ok_only_on_domain (fuel f n d r : Nat)
    (h : fakeExponential false fuel f n d = some (.ok r)) :
    d ≠ 0 ∧ Spec.Blob.FakeExp f n d r ∧ Spec.Blob.NoIntermediateOverflow f n d := by
  obtain ⟨hd, hs, hf⟩ := debug_ok_imp_top fuel f n d r h
  exact ⟨hd, ⟨fuel, hs⟩, ⟨fuel, by rw [hs]; rfl, hf⟩⟩

example : fakeExponential false 400 1 1000000 3338477 = some (.ok 1) := by decide +kernel

/-- a zero denominator panics (`assert_ne!`) in both profiles -/
theorem fake_exp_zero_denominator (wrap : Bool) (fuel f n : Nat) :
    fakeExponential wrap fuel f n 0 = some .panic := by
  simp [fakeExponential]

/-- the domain is downward closed in the numerator: below an overflow-free numerator the function is
exact -/
theorem fake_exp_eq_below (wrap : Bool) (fuel f n n' d : Nat) (hd : d ≠ 0) (hn : n ≤ n')
    (hsome : (Spec.Blob.fakeExpFuel fuel f n' d).isSome = true)
    (hfit : Spec.Blob.fitsFuel fuel f n' d = true) :
    ∃ r, Spec.Blob.fakeExpFuel fuel f n d = some r ∧ r < 2^128 ∧ fakeExponential wrap fuel f n d = some (.ok r) :=
  below_threshold wrap fuel f n n' d hd hn hsome hfit

example : (Spec.Blob.fakeExpFuel 400 1 87 1).isSome = true ∧ Spec.Blob.fitsFuel 400 1 87 1 = true :=
  ⟨small_some, small_fits⟩

/-- `calc_blob_gasprice(excess, false)` (Cancun fraction 3338477) is the EIP value for **every**
excess blob gas below 192 204 553, in both profiles; the value is below 2^128 -/
theorem blob_gasprice_cancun_eq (wrap : Bool) (excess : Nat) (h : excess < 192204553) :
    ∃ r, Spec.Blob.blobGaspriceFuel 400 excess false = some r ∧ r < 2^128 ∧
      calcBlobGasprice wrap 400 excess false = some (.ok r) :=
  below_threshold wrap 400 1 excess (CANCUN_LIMIT - 1) CANCUN (by decide)
    (by unfold CANCUN_LIMIT; omega) cancun_some cancun_fits

/-- `calc_blob_gasprice(excess, true)` (Prague fraction 5007716) is the EIP value for **every**
excess blob gas below 284 284 039 -/
theorem blob_gasprice_prague_eq (wrap : Bool) (excess : Nat) (h : excess < 284284039) :
    ∃ r, Spec.Blob.blobGaspriceFuel 400 excess true = some r ∧ r < 2^128 ∧
      calcBlobGasprice wrap 400 excess true = some (.ok r) :=
  below_threshold wrap 400 1 excess (PRAGUE_LIMIT - 1) PRAGUE (by decide)
    (by unfold PRAGUE_LIMIT; omega) prague_some prague_fits

/-! ## price: what happens just outside (finding, DESIGN section 9 item 7) -/

/-- smallest failing excess for the Cancun fraction: at 192 204 553 the EIP value is
10079296854086811361005191 (< 2^128) but the release build returns 5089730449835472321748656
(a wrapped product) and the debug build panics -/
theorem blob_gasprice_cancun_counterexample :
    Spec.Blob.blobGaspriceFuel 400 192204553 false = some 10079296854086811361005191
    ∧ 10079296854086811361005191 < 2^128
    ∧ calcBlobGasprice true 400 192204553 false = some (.ok 5089730449835472321748656)
    ∧ calcBlobGasprice false 400 192204553 false = some .panic :=
  ⟨cancun_spec_at, by decide, cancun_release_at, cancun_debug_at⟩

/-- smallest failing excess for the Prague fraction: 284 284 039 -/
theorem blob_gasprice_prague_counterexample :
    Spec.Blob.blobGaspriceFuel 400 284284039 true = some 4513890120847598646169468
    ∧ 4513890120847598646169468 < 2^128
    ∧ calcBlobGasprice true 400 284284039 true = some (.ok 2232503661301042500055690)
    ∧ calcBlobGasprice false 400 284284039 true = some .panic :=
  ⟨prague_spec_at, by decide, prague_release_at, prague_debug_at⟩

/-- smallest numerator with factor = denominator = 1: `fake_exponential(1, 88, 1)`; exact for every
numerator below 88 -/
theorem fake_exp_small_counterexample :
    Spec.Blob.fakeExpFuel 400 1 88 1 = some 165162653699637111792770913913821835905
    ∧ 165162653699637111792770913913821835905 < 2^128
    ∧ fakeExponential true 400 1 88 1 = some (.ok 34455485338856581042470029560057452133)
    ∧ fakeExponential false 400 1 88 1 = some .panic
    ∧ ∀ n, n < 88 → ∃ r, Spec.Blob.fakeExpFuel 400 1 n 1 = some r ∧ fakeExponential true 400 1 n 1 = some (.ok r) := by
  refine ⟨by decide +kernel, by decide, by decide +kernel, by decide +kernel, fun n hn => ?_⟩
  obtain ⟨r, h1, _, h2⟩ := below_threshold true 400 1 n 87 1 (by decide) (by omega) small_some small_fits
  exact ⟨r, h1, h2⟩

/-- the property as written does not hold for the price function -/
theorem full_statement_fake_exp_false : ¬ FullStatementFakeExp := by
  intro h
  obtain ⟨fuel, hf⟩ := h 1 192204553 3338477 10079296854086811361005191
    (by rw [U64_val]; decide) (by rw [U64_val]; decide) (by rw [U64_val]; decide) (by decide)
    ⟨400, cancun_spec_at⟩ (by decide)
  have := model_top_unique true fuel 400 1 192204553 3338477 _ _ hf cancun_release_at
  exact absurd this (by decide)

/-! ## excess blob gas -/

/-- `calc_excess_blob_gas = max(0, excess + used − target)` exactly when `excess + used < 2^64`
(release profile); in particular whenever the sum fits -/
theorem excess_eq_iff (a b t : Nat) (ha : a < U64) (hb : b < U64) (ht : t < U64) :
    (∃ v, calcExcessBlobGas true a b t = .ok v ∧ (v : Int) = Spec.Blob.excessBlobGas a b t) ↔ a + b < U64 :=
  Proofs.Blob.excess_eq_iff a b t ha hb ht

theorem excess_eq_partial (a b t : Nat) (ha : a < U64) (hb : b < U64) (ht : t < U64) (h : a + b < U64) :
    ∃ v, calcExcessBlobGas true a b t = .ok v ∧ v < U64 ∧ (v : Int) = Spec.Blob.excessBlobGas a b t := by
  obtain ⟨v, h1, h2⟩ := (Proofs.Blob.excess_eq_iff a b t ha hb ht).mpr h
  refine ⟨v, h1, ?_, h2⟩
  unfold calcExcessBlobGas add64 U64ops.saturatingSub at h1
  simp only [h, if_true, Res.ok.injEq] at h1
  omega

example : (18446744073709551615 : Nat) < U64 ∧ 18446744073709551615 + 0 < U64 := by
  rw [U64_val]; decide

/-- debug profile: the value when the sum fits, a panic otherwise -/
theorem excess_debug (a b t : Nat) :
    calcExcessBlobGas false a b t = if a + b < U64 then .ok (a + b - t) else .panic :=
  Proofs.Blob.excess_debug a b t

/-- `calc_excess_blob_gas(2^64−1, 1, 1)`: the true value 2^64−1 fits in a `u64`, the release build
returns 0, the debug build panics -/
theorem excess_counterexample :
    Spec.Blob.excessBlobGas 18446744073709551615 1 1 = 18446744073709551615
    ∧ calcExcessBlobGas true 18446744073709551615 1 1 = .ok 0
    ∧ calcExcessBlobGas false 18446744073709551615 1 1 = .panic := by
  refine ⟨by decide, by decide +kernel, by decide +kernel⟩

theorem full_statement_excess_false : ¬ FullStatementExcess := by
  intro h
  have := (Proofs.Blob.excess_eq_iff 18446744073709551615 1 1 (by rw [U64_val]; decide)
    (by rw [U64_val]; decide) (by rw [U64_val]; decide)).mp
    (h _ _ _ (by rw [U64_val]; decide) (by rw [U64_val]; decide) (by rw [U64_val]; decide))
  rw [U64_val] at this
  omega

/-! ## `BlobExcessGasAndPrice` -/

/-- `BlobExcessGasAndPrice::new` stores the excess it was given and the price of `calc_blob_gasprice` -/
theorem blob_new_eq (wrap : Bool) (fuel e : Nat) (p : Bool) (r : Nat)
    (h : calcBlobGasprice wrap fuel e p = some (.ok r)) :
    BlobExcessGasAndPrice.new wrap fuel e p = some (.ok ⟨e, r⟩) := by
  simp [BlobExcessGasAndPrice.new, h]

example : calcBlobGasprice true 400 0 true = some (.ok 1) := by decide +kernel

/-- `from_parent_and_target` composes the two functions -/
theorem blob_from_parent_eq (wrap : Bool) (fuel a b t e : Nat) (p : Bool)
    (h : calcExcessBlobGas wrap a b t = .ok e) :
    BlobExcessGasAndPrice.fromParentAndTarget wrap fuel a b t p = BlobExcessGasAndPrice.new wrap fuel e p := by
  simp [BlobExcessGasAndPrice.fromParentAndTarget, h]

example : calcExcessBlobGas true 393216 786432 393216 = .ok 786432 := by decide +kernel

end Revm.Props.C32
