import Revm.Proofs.EvmInstLifeTop
import Revm.Proofs.EvmInstSdWitness
import Revm.Proofs.EvmInstWrapTop
import Revm.Proofs.EvmInstLoaded2
/-! C01Inst — the whole-transaction model `Revm.Model.Evm.transact` (C01) IS AN INSTANCE of the abstract machines about
which C28–C31 are proved, so those properties hold of `Evm.transact` runs.

C28 (`Model.InspectorWrap`), C29/C30 (`Model.InspectorHooks`, `Model.SelfdestructNotify`) and C31
(`Model.EvmLifecycle`) are theorems about ABSTRACT machines whose behaviour is a parameter (arbitrary instruction table
and frame handlers / an arbitrary script / arbitrary handler stages). `Evm.transact` (Model/Evm{Host,Frame,Loop,Tx})
is a concrete machine. The theorems here instantiate the parameters with the concrete stages and prove that the
abstract machine then computes `Evm.transact`.

## 1. C31 — context life cycle (`Proofs/EvmInstStages.lean`, `Proofs/EvmInstLife*.lean`)

`evmHandler spec` is the `EvmLifecycle.Handler` whose stages are the stages of `Evm.transact` (`validateEnv`,
`initialTxGas`, `txAgainstState`, the access-list part of `loadAccounts`, `deductCaller`, `applyAuthList`, the first
frame, one `Interp.step` + `afterStep` per loop iteration, `lastFrameGas`, `refundGas`, `reimburse`, `reward`, `output`;
`end` = identity) over the database `WDb` = `World` minus journal. `evm_transact_is_lifecycle_transact`:
`EvmLifecycle.transact (evmHandler spec) fuel c` computes `Evm.transact fuel (world of c) c.env spec` with THE SAME fuel.

Where abstract and concrete model do not line up (reported, handled as stated):
* `Evm.transact` has NO `finalize` / `end` / `clear` stage: the world it returns still holds the whole journal. The
  abstract result is therefore compared as: same `ExecutionResult`, `finalize`'s state = the final world's
  `js.state`, the context's database = the final world's non-journal part; the cleared journal is the abstract side's.
* `Evm.transact` returns the ORIGINAL world for a rejected transaction also when the rejection comes after
  `load_code(caller)`, and no world at all for a model-level failure (`Except.error`); the abstract stages keep what
  was done so far (and `clear` then drops it). Nothing observable depends on it.
* `EvmLifecycle.Handler.mkResult` cannot read the database, but the C01 model keeps the log RECORDS outside the journal
  (`World.logs`; the journal holds ids). The abstract result is `ERes` = `TxResult` with the log ids, `resolve` looks
  them up in the final world's store.
* `Evm.loadAccounts` is `load_accounts` + `set_precompiles` in one function; equal to the abstract two steps up to
  commutation of `||` in the `preloaded` predicate (`loadAccounts_eq`, by function extensionality).
* the abstract loop iteration is `execute_frame` (run until an action) + the frame action + `take_error()?`; the instance
  uses ONE INSTRUCTION per iteration (so fuel coincides); the concrete databases are infallible, the error slot is
  never set, `take_error` never fires.
* `EvmLifecycle.canon = GasCalc.canon` (by `rfl`). -/
namespace Revm.Props.C01Inst
open Revm Revm.Model Revm.Model.Evm
open Revm.Model.Journal (JState)
open Revm.Proofs.EvmInstLife
open Revm.Proofs.EvmLifecycle (SpecBlind HSpecBlind Clean)

/-! ## 1. C31 -/

/-- the stages of `Evm.transact` compose to `Evm.transact`: `execute` is `loadAccounts`, `deductCaller`,
`applyAuthList`, first frame, `runFirst`, `finish`; `finish` is `last_frame_return`, `refund` (+ floor),
`reimburse_caller`, `reward_beneficiary`, `output` -/
theorem evm_execute_is_its_stages {κ : Type} (C : CpOps κ) (fuel : Nat) (e : Env) (spec initialGas floorGas : Nat)
    (w : World) :
    execute C fuel e spec initialGas floorGas w = (do
      let w ← deductCaller e spec (loadAccounts e spec w)
      let (w, refund) ← applyAuthList e spec w
      let (f, w) ← Proofs.EvmInst.firstFrame C (e.toCfg spec) e (Proofs.EvmInst.firstGasLimit e initialGas) w
      let (res, w) ← runFirst C (e.toCfg spec) fuel f w
      let gas := Proofs.EvmInst.refundGas spec floorGas refund (Proofs.EvmInst.lastFrameGas e res)
      let w ← Proofs.EvmInst.reimburse e gas w
      let w ← Proofs.EvmInst.reward e spec gas w
      let r ← Proofs.EvmInst.output e.tx.to.isNone res gas w.js.logs w.logs
      pure (r, w)) := by
  rw [Proofs.EvmInst.execute_eq]
  simp only [Proofs.EvmInst.finish_eq]

/-- C31 INSTANCE. The abstract `Evm::transact` of `Model.EvmLifecycle` over the handler built from the concrete stages
computes `Evm.transact`, for every context with an empty error slot, environment, configured SpecId and fuel:
executed ↦ `Ok` with the same result and state, rejected ↦ `Err(rejected)`, out of fuel ↦ the loop does not return,
model failure ↦ the same failure (`TransactRel`). -/
theorem evm_transact_is_lifecycle_transact (spec fuel : Nat) (c : LCtx) (hc : c.error = none) :
    TransactRel c (Evm.transact fuel (ctxWorld c) c.env spec) (EvmLifecycle.transact (evmHandler spec) fuel c) :=
  Proofs.EvmInstLife.evm_transact_is_lifecycle_transact spec fuel c hc

/-- read from the abstract side: each of the four possible answers of the abstract entry point determines the answer
of `Evm.transact` -/
theorem evm_lifecycle_result_is_transact (spec fuel : Nat) (c : LCtx) (hc : c.error = none) :
    (∀ er st c', EvmLifecycle.transact (evmHandler spec) fuel c = some (.ok (er, st), c') →
      ∃ x, Evm.transact fuel (ctxWorld c) c.env spec = .ok (.executed (resolve x.logs er), x) ∧ st = x.js.state ∧
        c'.db = WDb.of x) ∧
    (∀ c', EvmLifecycle.transact (evmHandler spec) fuel c = some (.error .rejected, c') →
      Evm.transact fuel (ctxWorld c) c.env spec = .ok (.rejected, ctxWorld c)) ∧
    (∀ er c', EvmLifecycle.transact (evmHandler spec) fuel c = some (.error (.err er), c') →
      Evm.transact fuel (ctxWorld c) c.env spec = .error er) ∧
    (EvmLifecycle.transact (evmHandler spec) fuel c = none →
      Evm.transact fuel (ctxWorld c) c.env spec = .error .outOfFuel) :=
  Proofs.EvmInstLife.evm_lifecycle_result_is_transact spec fuel c hc

/-- read from the concrete side, for an executed transaction: the abstract entry point returns `Ok` with this result
(log ids unresolved), `finalize` hands out the final journal state, and the context keeps the final database part -/
theorem evm_transact_executed (spec fuel : Nat) (c : LCtx) (hc : c.error = none) (r : TxResult) (x : World)
    (h : Evm.transact fuel (ctxWorld c) c.env spec = .ok (.executed r, x)) :
    ∃ er c', EvmLifecycle.transact (evmHandler spec) fuel c = some (.ok (er, x.js.state), c') ∧
      resolve x.logs er = r ∧ c'.db = WDb.of x :=
  Proofs.EvmInstLife.evm_transact_executed spec fuel c hc r x h

/-- the abstract loop over `evmHandler` IS `Evm.runLoop` / `Evm.runEnded`, with the same fuel -/
theorem evm_loop_is_lifecycle_loop (spec : Nat) (e : Env) (pre n : Nat) (w : LWork) (hw : w.error = none)
    (stack : List (Frame Journal.Checkpoint)) :
    LoopRel w (runLoop journalOps (e.toCfg (GasCalc.canon spec)) n stack (workWorld w))
      (EvmLifecycle.runLoop (evmHandler spec) pre e n (.run stack) w) :=
  (loop_sim spec e pre n w hw).1 stack

/-- C31's hypothesis `HSpecBlind` is DISCHARGED for the concrete stages: `tx_against_state` of the model
(`load_code(caller)`, then a pure check of the loaded account) never reads `journaled_state.spec`, `end` is the
identity -/
theorem evm_hspec_blind (spec : Nat) : HSpecBlind (evmHandler spec) :=
  Proofs.EvmInstLife.evm_hspec_blind spec

/-- C31 `cleared_after` on the whole-EVM handler: after ANY entry point, on ANY exit path, the journal is
`JournaledState::new(spec', ∅)`, the error slot `Ok(())`, the environment the given one -/
theorem evm_cleared_after (spec : Nat) (commit : WDb → EvmLifecycle.EvmState → WDb) (ep : EvmLifecycle.EntryPoint)
    (fuel : Nat) (c c' : LCtx) (r : EvmLifecycle.CallResult LErr ERes)
    (h : EvmLifecycle.call (evmHandler spec) commit ep fuel c = some (r, c')) :
    c'.env = c.env ∧ c'.js = JState.new c'.js.spec EvmLifecycle.noPreloaded ∧ c'.error = none ∧ c'.l1 = none ∧
    (c'.precompiles = c.precompiles ∨ c'.precompiles = GasCalc.canon spec) :=
  Proofs.EvmInstLife.evm_cleared_after spec commit ep fuel c c' r h

/-- in particular after an executed `Evm.transact`: the reused context holds a clean journal over the final world's
database part — nothing of the final world's journal (warm addresses, transient storage, logs, entries) survives -/
theorem evm_cleared_after_executed (spec fuel : Nat) (c : LCtx) (hc : c.error = none) (r : TxResult) (x : World)
    (h : Evm.transact fuel (ctxWorld c) c.env spec = .ok (.executed r, x)) :
    ∃ er c', EvmLifecycle.transact (evmHandler spec) fuel c = some (.ok (er, x.js.state), c') ∧
      resolve x.logs er = r ∧ c'.db = WDb.of x ∧ c'.env = c.env ∧
      c'.js = JState.new c'.js.spec EvmLifecycle.noPreloaded ∧ c'.error = none := by
  obtain ⟨er, c', hL, hres, hdb⟩ := evm_transact_executed spec fuel c hc r x h
  have hcall : EvmLifecycle.call (evmHandler spec) (fun d _ => d) .transact fuel c = some (.tx (.ok (er, x.js.state)), c') := by
    show (EvmLifecycle.transact (evmHandler spec) fuel c).map _ = _
    rw [hL]; rfl
  have hcl := evm_cleared_after spec (fun d _ => d) .transact fuel c c' _ hcall
  exact ⟨er, c', hL, hres, hdb, hcl.1, hcl.2.1, hcl.2.2.1⟩

/-- a freshly built `Evm` over `db` is the fresh world `Evm.transact` is specified on -/
theorem evm_fresh_transact (spec : Nat) (db : WDb) (env : Env) (pre0 fuel : Nat) :
    TransactRel (EvmLifecycle.Ctx.build db env spec pre0)
      (Evm.transact fuel (mkWorld db (JState.new spec EvmLifecycle.noPreloaded)) env spec)
      (EvmLifecycle.transact (evmHandler spec) fuel (EvmLifecycle.Ctx.build db env spec pre0)) :=
  Proofs.EvmInstLife.evm_fresh_transact spec db env pre0 fuel

/-- C31 HEADLINE on the whole-EVM handler, no hypothesis left: any history of entry-point calls (`transact`,
`transact_commit`, `transact_preverified`, `preverify_transaction`; any environments; spec changes through
`modify_spec_id` or the builder; rejected, reverted, halted, failing transactions; any fuel) on ONE instance gives the
same results and final database as running every call on a freshly built instance over the database left by the
previous one. -/
theorem evm_sequence_on_one_instance_eq_fresh_instances (commit : WDb → EvmLifecycle.EvmState → WDb) (pre0 : Nat)
    (ops : List (EvmLifecycle.Op WDb Env LErr Nat Empty (Nat × Nat) LS Act FRes ERes)) (hops : EvmOps ops)
    (c : LCtx) (hc : Clean c) :
    (EvmLifecycle.runOne commit ops c).map (fun p => (p.1, p.2.db)) = EvmLifecycle.runFresh commit pre0 ops c.db :=
  Proofs.EvmInstLife.evm_sequence_on_one_instance_eq_fresh_instances commit pre0 ops hops c hc

/-- the same stated with `Evm.transact` alone, for histories of executed transactions: if `Evm.transact`, run on a FRESH
world (`JournaledState::new(spec, ∅)`) over the database committed so far, executes every transaction of the list
(`evmFreshSeq`), then `transact_commit` of the same list on ONE reused instance returns exactly these results and the
same final database -/
theorem evm_history_on_one_instance (commit : WDb → EvmLifecycle.EvmState → WDb) (ts : List TxReq) (c : LCtx)
    (hc : Clean c) (rs : List (TxResult × World)) (db' : WDb) (h : evmFreshSeq commit ts c.db = some (rs, db')) :
    ∃ ers : List ERes,
      (EvmLifecycle.runOne commit (ts.map TxReq.op) c).map (fun p => (p.1, p.2.db)) =
        some (ers.map (fun er => EvmLifecycle.CallResult.commit (.ok er)), db') ∧
      Resolved ers rs :=
  Proofs.EvmInstLife.evm_history_on_one_instance commit ts c hc rs db' h

/-! ### non-vacuity -/

def sampleDb : WDb :=
  { addrs := [], slots := [], codes := [], logs := [],
    pre := [{ addr := 0xaa, balance := 10^18, nonce := 0, code := [], codeHash := KECCAK_EMPTY, storage := [] }],
    dbHasStorage := true, pcOracle := [] }

def sampleEnv : Env :=
  { block := { gasLimit := 30000000, basefee := 7, prevrandao := some 0, blobGasPrice := some 1 },
    tx := { caller := 0xaa, gasLimit := 21000, gasPrice := 10, to := some 0xbb, value := 5, nonce := none } }

def isExecuted : R (Outcome × World) → Bool
  | .ok (.executed _, _) => true
  | _ => false

/-- a clean context with an empty error slot -/
example : Clean (EvmLifecycle.Ctx.build sampleDb sampleEnv 17 0 : LCtx) ∧
    (EvmLifecycle.Ctx.build sampleDb sampleEnv 17 0 : LCtx).error = none := ⟨⟨rfl, rfl, rfl⟩, rfl⟩

/-- the hypothesis of `evm_transact_executed` is satisfiable: a value transfer under Cancun on the fresh world -/
example : isExecuted (Evm.transact 10 (ctxWorld (EvmLifecycle.Ctx.build sampleDb sampleEnv 17 0 : LCtx)) sampleEnv 17)
    = true := by decide +kernel

/-- the hypothesis of `evm_history_on_one_instance` is satisfiable: two transfers, the second after a spec change to
Prague, the database unchanged by `commit` -/
example : (evmFreshSeq (fun d _ => d)
    [{ env := sampleEnv, spec := 17, fuel := 10 }, { env := sampleEnv, spec := 18, fuel := 10, rebuilt := true }]
    sampleDb).isSome = true := by decide +kernel

example : EvmOps ([{ env := sampleEnv, spec := 17, fuel := 10 }, { env := sampleEnv, spec := 7, fuel := 3 }].map TxReq.op) := by
  intro op hop
  simp only [List.map_cons, List.map_nil, List.mem_cons, List.mem_nil_iff, or_false] at hop
  rcases hop with rfl | rfl
  · exact ⟨17, rfl⟩
  · exact ⟨7, rfl⟩

/-! ## 2. C28 — observing inspectors (`Proofs/EvmInstWrap*.lean`)

`evmMachine C cfg lim : InspectorWrap.Machine (evmTy κ) ECtx` is the frame machine of C28 filled with the concrete
functions: `fetch` / `table` = the opcode byte and `Interp.execInstr (Interp.decode op)` with its host question answered
by `EvmHost.answer` (the abstract interpreter keeps the whole concrete one; `ip`, `gas`, `mem` mirror `pc`, `gas`, `mem`),
`call` / `create` = `makeCallFrame` / `makeCreateFrame`, `*Return` = `callReturn` / `createReturn`, `insert*Outcome` =
`Interp.insertCallOutcome` / `Interp.insertCreateOutcome` on the parent, `lastFrameReturn` = the mainnet handler;
a Rust panic / fatal error inside an instruction is `FatalExternalError` + the context's error slot (`takeError`).
`transactInspected obs wst` is `Evm.transact` whose execution part (first frame, `run_the_loop`, `last_frame_return`) is
run by `wrap (evmOps lim) obs (evmMachine journalOps cfg lim)` — wrapped EXACTLY as `Model/InspectorWrap.lean` wraps.

Where abstract and concrete model do not line up (reported; none changes a completed run):
* a frame ended by a failed `push!` inside `insert_*_outcome` (`Next.ended`): the concrete model carries the halting
  `out`, the abstract `run` answers `Return { output: [] }`; equal because such an insertion halts with `out = []` and a
  result other than `Continue` (`insertBy_halt`);
* `free_context` is partial in the concrete model (`freeCtx` panics), total in the abstract one (`freeContextT`);
* `ChildResult` has no `gas.limit`; `CallOutcome` has no address; abstract `call` does not see the shared memory and the
  abstract `insertCreateOutcome` has no memory argument (the concrete ones do not use them: `makeCallFrame_mem`,
  `insertCreate_mem`);
* every halt sets `next_action = Return` in the instance (Rust leaves `None` for plain halts; `run` builds the same
  result); Rust panics surface as `Res.err (.panic _)`, not `Res.panic`;
* `last_frame_return` is inside `Machine.exec` but inside `finalGas` in the concrete model (`lastFrameGas`);
* `eofcreate*` fail (legacy-only concrete model);
* the abstract driver's fuel is nested (`loop n` runs `runInterp n`), the concrete one counts instructions: completed
  concrete runs are abstract runs on every LARGE ENOUGH fuel (`evm_exec_is_machine_exec`), not on equal fuel. -/

section Wrap
open Revm.Model.InspectorWrap (Machine FrameResult Observer WState ORel Observing Respects wrap)
open Revm.Proofs.EvmInstWrap (evmTy ECtx evmMachine evmOps transactInspected transactAbs execResult firstInputOf isErr)

/-- "error outcomes return no gas", ON THE CONCRETE CONSUMERS: `Interp.insertCallOutcome`, `Interp.insertCreateOutcome`
and `last_frame_return` (`lastFrameGas`, hence `Evm.finalGas`) never read the remaining / refunded gas of an
error-class outcome (neither `return_ok!` nor `return_revert!`) -/
theorem evm_consumers_blind (o : Interp.ChildResult) (g : Nat) (r : Int) (h : isErr o.result = true) :
    (∀ rs re, Interp.insertCallOutcome rs re { o with gasRemaining := g, gasRefunded := r } =
      Interp.insertCallOutcome rs re o) ∧
    Interp.insertCreateOutcome { o with gasRemaining := g, gasRefunded := r } = Interp.insertCreateOutcome o ∧
    (∀ e, Proofs.EvmInst.lastFrameGas e { o with gasRemaining := g, gasRefunded := r } =
      Proofs.EvmInst.lastFrameGas e o) ∧
    (∀ e spec floorGas refund, Evm.finalGas e spec floorGas refund { o with gasRemaining := g, gasRefunded := r } =
      Evm.finalGas e spec floorGas refund o) :=
  ⟨fun rs re => Revm.Proofs.EvmInstWrap.insert_call_outcome_blind_concrete rs re o g r h,
   Revm.Proofs.EvmInstWrap.insert_create_outcome_blind_concrete o g r h,
   fun e => Revm.Proofs.EvmInstWrap.last_frame_gas_blind_concrete e o g r h,
   fun e spec fl rf => Revm.Proofs.EvmInstWrap.final_gas_blind_concrete e spec fl rf o g r h⟩

/-- hence the frame machine of the whole-EVM model `Respects` the relation up to which `GasInspector` and the tracer
are observing (C28's condition on the handlers), for every subroutine discipline -/
theorem evm_machine_respects {κ : Type} (C : CpOps κ) (cfg : Cfg) (lim : Nat) :
    Respects (evmMachine C cfg lim) ORel.errGas :=
  Revm.Proofs.EvmInstWrap.evmMachine_respects C cfg lim

/-- C28 INSTANCE, the frame machine: first frame + `run_the_loop` + `last_frame_return` of the whole-EVM model, over ANY
subroutine discipline, IS `Machine.exec` of `evmMachine` — every completed concrete run is the abstract run, with the
same `FrameResult` and world, on every large enough fuel -/
theorem evm_exec_is_machine_exec {κ : Type} (C : CpOps κ) (cfg : Cfg) (e : Env) (gl : Nat) (w0 w1 : World)
    (first : FrameOrResult κ) (hfirst : Proofs.EvmInst.firstFrame C cfg e gl w0 = .ok (first, w1)) (fuel : Nat)
    (res : Interp.ChildResult) (w' : World) (hrun : runFirst C cfg fuel first w1 = .ok (res, w')) :
    ∃ N, ∀ N', N ≤ N' →
      (evmMachine C cfg e.tx.gasLimit).exec N' (firstInputOf e gl) { w := w0, err := none } =
        some (.ok (execResult e res, { w := w', err := none })) :=
  Revm.Proofs.EvmInstWrap.evm_exec_sim C cfg e gl w0 w1 first hfirst fuel res w' hrun

/-- every completed `Evm.transact` run is a run of the transaction over the abstract frame machine -/
theorem evm_transact_is_machine_transact (fuel : Nat) (w : World) (e : Env) (spec : Nat) (o : Outcome) (w' : World)
    (h : transact fuel w e spec = .ok (o, w')) :
    ∃ N, ∀ N', N ≤ N' → transactAbs N' w e spec = some (.ok (o, w')) :=
  Revm.Proofs.EvmInstWrap.transactAbs_of_transact fuel w e spec o w' h

/-- C28 on the machine of the whole-EVM model, EVERY fuel / world / environment / spec / leftover wrapper state (also
runs that fail or run out of fuel): the transaction inspected by `NoOpInspector`, `GasInspector`, `TracerEip3155` is the
transaction on the plain machine -/
theorem evm_three_inspectors_invisible (fuel : Nat) (w : World) (e : Env) (spec : Nat) :
    (∀ wst, transactInspected (fun _ => InspectorWrap.noop (evmTy Journal.Checkpoint)) wst fuel w e spec =
      transactAbs fuel w e spec) ∧
    (∀ wst, transactInspected (fun _ => InspectorWrap.gasInspector (evmTy Journal.Checkpoint)) wst fuel w e spec =
      transactAbs fuel w e spec) ∧
    (∀ wst, transactInspected (fun lim => InspectorWrap.tracer3155 (evmTy Journal.Checkpoint) (evmOps lim)) wst fuel w e
      spec = transactAbs fuel w e spec) :=
  Revm.Proofs.EvmInstWrap.three_inspectors_invisible_evm fuel w e spec

/-- C28 FOR `Evm.transact`: whenever the whole-EVM model completes a transaction with `(o, w')` (result, gas, logs,
state), the same transaction with the inspector register installed — `NoOpInspector`, `GasInspector` or
`TracerEip3155`, from ANY wrapper state (inspector state, leftover input stacks) — completes with the same `(o, w')`,
on every large enough fuel -/
theorem evm_inspected_eq_plain (fuel : Nat) (w : World) (e : Env) (spec : Nat) (o : Outcome) (w' : World)
    (h : transact fuel w e spec = .ok (o, w')) :
    ∃ N, ∀ N', N ≤ N' →
      (∀ wst, transactInspected (fun _ => InspectorWrap.noop (evmTy Journal.Checkpoint)) wst N' w e spec =
        some (.ok (o, w'))) ∧
      (∀ wst, transactInspected (fun _ => InspectorWrap.gasInspector (evmTy Journal.Checkpoint)) wst N' w e spec =
        some (.ok (o, w'))) ∧
      (∀ wst, transactInspected (fun lim => InspectorWrap.tracer3155 (evmTy Journal.Checkpoint) (evmOps lim)) wst N' w e
        spec = some (.ok (o, w'))) :=
  Revm.Proofs.EvmInstWrap.evm_inspected_eq_plain fuel w e spec o w' h

/-- non-vacuity: a transaction that runs a contract (`PUSH1 1 PUSH1 2 ADD STOP`) completes on the concrete model, and
the run inspected by the tracer from empty input stacks completes on the same fuel with the same gas -/
example : ∃ r, transact 10 Revm.Proofs.EvmInstWrap.exWorld Revm.Proofs.EvmInstWrap.exEnv 17 = .ok r :=
  Proofs.Evm.exists_of_isOk (by decide +kernel)
example : Revm.Proofs.EvmInstWrap.exCheck
    (transactInspected (fun lim => InspectorWrap.tracer3155 (evmTy Journal.Checkpoint) (evmOps lim))
      { obs := InspectorWrap.Tracer.new, callStack := [], createStack := [], eofStack := [] } 10
      Revm.Proofs.EvmInstWrap.exWorld Revm.Proofs.EvmInstWrap.exEnv 17) = true := by decide +kernel
example : isErr Interp.IResult.OutOfGas = true := by decide

end Wrap

/-! ## 3. C29 / C30 — inspector hooks and SELFDESTRUCT notifications (`Proofs/EvmInstHooks*.lean`, `EvmInstSd*.lean`)

`transactTr` is `Evm.transact` returning, beside the very same value (`evm_traced_value`), the SCRIPT of its frame loop:
for every executed instruction what the inspector's instruction wrappers see (LOG0..4 with the journal's log ids before /
after; SELFDESTRUCT with the wrapper's own note, computed from the journal entries as `SelfdestructNotify.wrapped` does),
for every `execute_frame` that returns the frame request (answered by a frame or at once by a result: depth limit,
precompile, failed transfer, collision, empty code) or the return. `runTx b first (scriptOf evs)` is the handler-register
machine of C29 run on that script: so the action sequence of `Evm.runLoop` IS an oracle behaviour of that machine, and it
ends `finished` (the machine's frame list is the kind list of the concrete call stack throughout).

Where abstract and concrete model do not line up (reported):
* `SelfdestructNotify.selfdestructInsn` prices the instruction with the JOURNAL's spec, the interpreter with its own
  `spec` field; it subtracts gas in `Nat`, the interpreter's meter is a `u64`; it has no refund counter; its failing
  database (`dbFails`) has no concrete counterpart. `sd_refines` is the refinement under `s.spec = w.js.spec` and
  `gas.remaining < 2^64`; the cost tables agree (`selfdestructCost_agree`) and `% 2^160` is `addrOfWord`.
* C30's assumption "the executing contract is in the journal" is NOT a consequence of `Journal.selfdestruct` succeeding
  (an unloaded contract naming itself is loaded from the database); it IS a run invariant of `Evm.transact`
  (`evm_contract_loaded`), so `evm_selfdestruct_balance_left` carries no hypothesis.
* concrete runs never produce `Next.fatal`, `insertErr`, `HandlerRes.err`, an inspector outcome or a halting `step`:
  only finished runs (and only observing inspectors) are instances. -/

section Hooks
open Revm.Model.InspectorHooks (Stacks Spawn Ev runTx)
open Revm.Spec.InspectorHooks (Balanced sdsOf logsOf stepsOf)
open Revm.Proofs.EvmInstHooks (LEv transactTr scriptOf insnsOf)
open Revm.Proofs.EvmInstSd (completedSelfdestructs appendedLogs)

/-- the traced transaction computes `Evm.transact` -/
theorem evm_traced_value (fuel : Nat) (w : World) (e : Env) (spec : Nat) :
    (transactTr fuel w e spec).1 = Evm.transact fuel w e spec :=
  Revm.Proofs.EvmInstHooks.transactWithTr_fst journalOps fuel w e spec

/-- C29 INSTANCE. The action sequence of every completed `Evm.transact` run is a FINISHED behaviour of the inspector
handler-register machine, for every content `b` of the three input stacks; hence its callback word is well bracketed,
indeed ONE bracket: the transaction's own `call` / `create` (inputs number 0) first, its `*_end` with the same inputs
last, everything in between balanced (every nested request closed by one `*_end` of its kind carrying its inputs, last
opened first closed — requests answered at once included). -/
theorem evm_hooks_balanced (b : Stacks) (fuel : Nat) (w : World) (e : Env) (spec : Nat) (o : Outcome) (w' : World)
    (first : Spawn) (evs : List LEv) (h : transactTr fuel w e spec = (.ok (o, w'), some (first, evs))) :
    (runTx b first (scriptOf evs)).1 = .finished ∧
    Balanced (runTx b first (scriptOf evs)).2.word ∧
    first.i = 0 ∧
    ∃ u oo, (runTx b first (scriptOf evs)).2.word = Ev.opn first.k 0 :: (u ++ [Ev.cls first.k 0 oo]) ∧ Balanced u :=
  Revm.Proofs.EvmInstHooks.evm_hooks_balanced b fuel w e spec o w' first evs h

/-- the three input stacks are, after a completed transaction, what they were before it -/
theorem evm_hooks_stacks_restored (b : Stacks) (fuel : Nat) (w : World) (e : Env) (spec : Nat) (o : Outcome)
    (w' : World) (first : Spawn) (evs : List LEv) (h : transactTr fuel w e spec = (.ok (o, w'), some (first, evs))) :
    (runTx b first (scriptOf evs)).2.stk = b :=
  Revm.Proofs.EvmInstHooks.evm_hooks_stacks_restored b fuel w e spec o w' first evs h

/-- every executed instruction is bracketed by `step · step_end`, and these are all such callbacks -/
theorem evm_hooks_steps (b : Stacks) (fuel : Nat) (w : World) (e : Env) (spec : Nat) (o : Outcome)
    (w' : World) (first : Spawn) (evs : List LEv) (h : transactTr fuel w e spec = (.ok (o, w'), some (first, evs))) :
    Revm.Spec.InspectorHooks.stepsPaired (runTx b first (scriptOf evs)).2.word = true ∧
    stepsOf (runTx b first (scriptOf evs)).2.word = (insnsOf evs).flatMap (fun _ => [Ev.step, Ev.stepEnd]) :=
  Revm.Proofs.EvmInstHooks.evm_hooks_steps b fuel w e spec o w' first evs h

/-- each emitted log is reported once: the `log` callbacks are, in order, exactly the ids of the records appended by
the LOG instructions that reached the host -/
theorem evm_hooks_logs (b : Stacks) (fuel : Nat) (w : World) (e : Env) (spec : Nat) (o : Outcome)
    (w' : World) (first : Spawn) (evs : List LEv) (h : transactTr fuel w e spec = (.ok (o, w'), some (first, evs))) :
    logsOf (runTx b first (scriptOf evs)).2.word = appendedLogs evs :=
  Revm.Proofs.EvmInstSd.evm_hooks_logs b fuel w e spec o w' first evs h

/-- C30 INSTANCE. In every completed `Evm.transact` run the inspector's `selfdestruct` callbacks are, in order, exactly
one per SELFDESTRUCT instruction that completed (`Interp.selfdestructI` + `EvmHost.answer (.selfdestruct …)` ending
`.halt .SelfDestruct`), naming the executing contract, the beneficiary popped from the stack and the balance that moved
(`completedSelfdestructs`, computed from the state BEFORE the instruction, see `evm_completed_selfdestruct_is`); no
other instruction or frame event makes one. -/
theorem evm_selfdestruct_notified_once (b : Stacks) (fuel : Nat) (w : World) (e : Env) (spec : Nat) (o : Outcome)
    (w' : World) (first : Spawn) (evs : List LEv) (h : transactTr fuel w e spec = (.ok (o, w'), some (first, evs))) :
    sdsOf (runTx b first (scriptOf evs)).2.word = completedSelfdestructs evs :=
  Revm.Proofs.EvmInstSd.evm_selfdestruct_notified_once b fuel w e spec o w' first evs h

/-- what an entry of `completedSelfdestructs` is -/
theorem evm_completed_selfdestruct_is {s : Interp.IState} {w : World} {d : Interp.Done} {x : Nat × Nat × Nat}
    (h : Revm.Proofs.EvmInstHooks.sdTruth s w d = some x) :
    ∃ out s' rest t0 acc, d = .halt .SelfDestruct out s' ∧ s.stack = rest ++ [t0] ∧
      Revm.Proofs.EvmInstHooks.contractAcct w s.target (Interp.addrOfWord t0) = some acc ∧
      x = (s.target, Interp.addrOfWord t0,
        Revm.Proofs.SelfdestructNotify.movedValue acc w.js.spec s.target (Interp.addrOfWord t0)) :=
  Revm.Proofs.EvmInstSd.sdTruth_some h

/-- the step lemma: a concrete SELFDESTRUCT that completes is `Journal.selfdestruct` on (contract, popped beneficiary),
and the inspector wrapper's note (newest `AccountDestroyed` / `BalanceTransfer` among the new journal entries, else
`(c, c, 0)`) is `(contract, beneficiary, balance moved)` -/
theorem evm_selfdestruct_step {he : HostEnv} {s : Interp.IState} {w w' : World} {d : Interp.Done} {out : List Nat}
    {s' : Interp.IState} (hcode : s.code[s.pc]? = some 0xff) (hr : Revm.Proofs.EvmInstSd.Resolved he s w d w')
    (hd : d = .halt .SelfDestruct out s') :
    s.isStatic = false ∧ ∃ rest t0 r acc1, s.stack = rest ++ [t0] ∧
      Journal.selfdestruct w.db w.js s.target (Interp.addrOfWord t0) = some (w'.js, r) ∧
      Revm.Proofs.EvmInstHooks.contractAcct w s.target (Interp.addrOfWord t0) = some acc1 ∧
      Revm.Proofs.EvmInstHooks.sdNote s w.js w'.js d =
        some (s.target, Interp.addrOfWord t0,
          Revm.Proofs.SelfdestructNotify.movedValue acc1 w.js.spec s.target (Interp.addrOfWord t0)) :=
  Revm.Proofs.EvmInstSd.sd_step_completed hcode hr hd

/-- no notification for a SELFDESTRUCT that does not complete (static, underflow, out of gas after the state change) -/
theorem evm_selfdestruct_no_spurious (s : Interp.IState) (js js' : Journal.JState) (d : Interp.Done)
    (h : ∀ out s', d ≠ .halt .SelfDestruct out s') : Revm.Proofs.EvmInstHooks.sdNote s js js' d = none :=
  Revm.Proofs.EvmInstSd.sd_no_spurious s js js' d h

/-- the concrete SELFDESTRUCT refines `SelfdestructNotify.selfdestructInsn` (C30's instruction model) when the
interpreter's spec is the journal's and the meter is a `u64` -/
theorem evm_selfdestruct_refines {he : HostEnv} {s : Interp.IState} {w w' : World} {d : Interp.Done}
    (hcode : s.code[s.pc]? = some 0xff) (hr : Revm.Proofs.EvmInstSd.Resolved he s w d w')
    (hspec : s.spec = w.js.spec) (hgas : s.gas.remaining < U64) :
    ∃ r out s', d = .halt r out s' ∧
      SelfdestructNotify.selfdestructInsn w.db false (Revm.Proofs.EvmInstSd.absI s) w.js =
        some (Revm.Proofs.EvmInstSd.absI s' (Revm.Proofs.EvmInstSd.iresOf r), w'.js) :=
  Revm.Proofs.EvmInstSd.sd_refines hcode hr hspec hgas

/-- per instruction: with the executing contract in the journal (which `evm_contract_loaded` provides along every run),
the notified value is exactly what left the contract's journal balance -/
theorem evm_selfdestruct_balance_left_step {he : HostEnv} {s : Interp.IState} {w w' : World} {d : Interp.Done}
    {acc : Journal.Acct} {x : Nat × Nat × Nat} (hcode : s.code[s.pc]? = some 0xff)
    (hr : Revm.Proofs.EvmInstSd.Resolved he s w d w') (hloaded : w.js.state s.target = some acc)
    (hx : Revm.Proofs.EvmInstHooks.sdTruth s w d = some x) :
    x.1 = s.target ∧
    x.2.2 = Revm.Proofs.SelfdestructNotify.movedValue acc w.js.spec s.target x.2.1 ∧
    SelfdestructNotify.balanceOf w.js s.target = SelfdestructNotify.balanceOf w'.js s.target + x.2.2 :=
  Revm.Proofs.EvmInstSd.evm_selfdestruct_balance_left_partial hcode hr hloaded hx

/-- THE RUN INVARIANT (C30's assumption, discharged): in every `Evm.transact` run, completed or not, every instruction
executes in a frame whose target account is in the journal's state map when the instruction starts. The first frame's
target is loaded by `make_call_frame` (value step) / `make_create_frame` (`load_account(created)`); a new frame's target
is loaded the same way or is the running frame's own address (DELEGATECALL); no instruction or outcome insertion
changes a frame's `target` (`Proofs/EvmInstTgt*.lean`, a sweep over all handlers); no journal operation, revert
included, removes an account from the state map (`KLe`). -/
theorem evm_contract_loaded (fuel : Nat) (w : World) (e : Env) (spec : Nat) (r : R (Outcome × World))
    (first : Spawn) (evs : List LEv) (h : transactTr fuel w e spec = (r, some (first, evs))) :
    ∀ ev ∈ evs, Revm.Proofs.EvmInstSd.EvLoaded { blockNumber := e.block.number } ev :=
  Revm.Proofs.EvmInstLoaded.contract_loaded fuel w e spec r first evs h

/-- the open frames' targets stay in the journal along `Evm.iterate` (the loop invariant itself) -/
theorem evm_iterate_keeps_targets_loaded {cfg : Cfg} {stack : List (Frame Journal.Checkpoint)} {w : World} {nx}
    (h : iterate journalOps cfg stack w = .ok nx) (hi : Revm.Proofs.EvmInstLoaded.Inv stack w) :
    Revm.Proofs.EvmInstLoaded.InvN nx :=
  Revm.Proofs.EvmInstLoaded.iterate_inv h hi

/-- C30 ON `Evm.transact`, "the balance that left the contract", no hypothesis: every entry `(c, t, v)` of the completed
SELFDESTRUCTs of a traced run (= the inspector's notifications, `evm_selfdestruct_notified_once`) belongs to an
instruction at opcode `0xFF` resolved in a frame at `c` whose account `acc` was in the journal; `v` is what `acc` loses
and the journal balance of `c` before the instruction is its balance after it plus `v` -/
theorem evm_selfdestruct_balance_left (fuel : Nat) (w : World) (e : Env) (spec : Nat) (r : R (Outcome × World))
    (first : Spawn) (evs : List LEv) (h : transactTr fuel w e spec = (r, some (first, evs)))
    (x : Revm.Model.InspectorHooks.Insn) (g : Revm.Proofs.EvmInstHooks.Truth) (hev : LEv.insn x g ∈ evs)
    (y : Nat × Nat × Nat) (hy : g.sd = some y) :
    ∃ s w0 d w1 acc, Revm.Proofs.EvmInstSd.Resolved { blockNumber := e.block.number } s w0 d w1 ∧
      s.code[s.pc]? = some 0xff ∧ w0.js.state s.target = some acc ∧ y.1 = s.target ∧
      y.2.2 = Revm.Proofs.SelfdestructNotify.movedValue acc w0.js.spec s.target y.2.1 ∧
      SelfdestructNotify.balanceOf w0.js s.target = SelfdestructNotify.balanceOf w1.js s.target + y.2.2 :=
  Revm.Proofs.EvmInstLoaded.evm_selfdestruct_balance_left fuel w e spec r first evs h x g hev y hy

/-- non-vacuity: a kernel-evaluated run (a call to `0xbb`, which CALLs `0xcc`, which runs LOG0 and SELFDESTRUCTs to the
fresh account `0xdd`, 7 wei move) satisfies the hypothesis of the theorems above; its word has one `log 0` and one
`selfdestruct 0xcc 0xdd 7` -/
example : ∃ o w' first evs,
    transactTr 100 Revm.Proofs.EvmInstSd.witnessWorld Revm.Proofs.EvmInstSd.witnessEnv 17 =
      (.ok (o, w'), some (first, evs)) ∧
    completedSelfdestructs evs = [(0xcc, 0xdd, 7)] ∧ appendedLogs evs = [0] :=
  Revm.Proofs.EvmInstSd.witness_hypothesis

end Hooks

end Revm.Props.C01Inst
