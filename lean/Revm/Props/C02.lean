import Revm.Proofs.TxValidate5
import Revm.Proofs.TxNoEffect
/-! C02 — a transaction is rejected with a validation error iff it breaks a validity rule of its
hardfork; a rejected transaction changes nothing.

`Model.TxValidate.validate spec cfg blk tx sender` is the code-shaped model of
`Evm::preverify_transaction_inner` (`validate_env` → `validate_initial_tx_gas` →
`validate_tx_against_state`, in the code's order, with the code's 256-bit / 64-bit arithmetic, through
`spec_to_generic!`); `Spec.TxValid.ValidTx f cfg blk tx sender` is the conjunction of the validity
rules of the EIPs over unbounded `Nat`, per named hardfork. Range hypotheses (`InRange`) say that
the `Nat` fields are values of their Rust types; `GasFits` says the intrinsic gas is below 2^64 (the
C14 finding `tx-gas-wraps` is the region beyond, not constructible in memory).

**What is proved.**
* `valid_accepted` (full strength): every valid transaction is accepted.
* `validate_iff_partial`: accepted ⇔ valid, outside three regions in which the CODE accepts a
  transaction the rules reject — each confirmed on the real `Evm` by the correspondence stream and
  refuted here by a `_counterexample` theorem on the witness:
  1. `TypeGap`, priority fee before London (`gas_priority_fee = Some` is neither rejected nor
     ignored: it lowers the effective gas price);
  2. `TypeGap`, sender code = EIP-7702 delegation designator before Prague (the EIP-3607 exception
     is not fork-gated);
  3. `BlobFeeSaturation`: `calc_max_data_fee` uses `saturating_mul`; with nothing else to pay and a
     balance of 2^256 − 1 the saturated value passes the balance check.
  The wrapping `basefee + priority_fee` of `effective_gas_price` (DESIGN §9 #12) is NOT such a
  region: there the code rejects with `GasPriceLessThanBasefee`, and the transaction is invalid
  anyway (its maximum cost exceeds 2^256) — `validate_iff_partial` covers it; only the *variant* is
  not the one of the first violated rule (`fee_wrap_variant_counterexample`).
* `validate_eq_first_violated`, `variant_iff_first_violated`: the variant returned is the variant
  of the first violated rule in the code's order of checking (for every one of the 27 rules), when
  neither `basefee + priority_fee` nor the blob fee overflows 256 bits.
* `validate_never_panics`.
* `rejected_no_effect` (all context states, all databases, every accepted-path function),
  `rejected_context_equal`, `later_results_function_of_db_env`, `history_skip_rejected`. -/
namespace Revm.Props.C02
open Revm
open Revm.Model.TxValidate
open Revm.Spec.GasCalc (Fork)
open Revm.Spec.TxValid
open Revm.Proofs.TxValidate (InRange GasFits TypeGap BlobFeeSaturation blobFee resOf)
open Revm.Proofs.TxNoEffect (Clean ReadOnly runHistory notRejected isRejected)

/-! ## accepted ⇔ valid -/

/-- the property's first sentence at full strength -/
def FullStatement_validate_iff : Prop :=
  ∀ (f : Fork) (cfg : Cfg) (blk : Block) (tx : Tx) (snd : Sender),
    InRange blk tx snd → GasFits f tx →
    (validate f.id cfg blk tx snd = .ok ↔ ValidTx f cfg blk tx snd)

/-- completeness, full strength: a valid transaction is never rejected (all forks, all fields) -/
theorem valid_accepted (f : Fork) (cfg : Cfg) (blk : Block) (tx : Tx) (snd : Sender)
    (hr : InRange blk tx snd) (hfit : GasFits f tx) (h : ValidTx f cfg blk tx snd) :
    validate f.id cfg blk tx snd = .ok :=
  Proofs.TxValidate.valid_accepted f cfg blk tx snd hr hfit h

/-- accepted ⇔ valid, for every fork, configuration, block, transaction and sender outside the three
departure regions (missing for the full statement: exactly `TypeGap` and `BlobFeeSaturation`, where
the code accepts an invalid transaction — see the counterexamples below) -/
theorem validate_iff_partial (f : Fork) (cfg : Cfg) (blk : Block) (tx : Tx) (snd : Sender)
    (hr : InRange blk tx snd) (hfit : GasFits f tx)
    (hgap : ¬ TypeGap f tx snd) (hsat : ¬ BlobFeeSaturation tx snd) :
    validate f.id cfg blk tx snd = .ok ↔ ValidTx f cfg blk tx snd :=
  Proofs.TxValidate.validate_iff f cfg blk tx snd hr hfit hgap hsat

/-- rejected ⇔ invalid, the same statement read on the error side: some variant is returned exactly
when a rule is broken (validation never panics) -/
theorem rejected_iff_invalid_partial (f : Fork) (cfg : Cfg) (blk : Block) (tx : Tx) (snd : Sender)
    (hr : InRange blk tx snd) (hfit : GasFits f tx)
    (hgap : ¬ TypeGap f tx snd) (hsat : ¬ BlobFeeSaturation tx snd) :
    (∃ e, validate f.id cfg blk tx snd = .err e) ↔ ¬ ValidTx f cfg blk tx snd := by
  rw [← validate_iff_partial f cfg blk tx snd hr hfit hgap hsat]
  have hp := Proofs.TxValidate.validate_ne_panic f cfg blk tx snd hr hfit
  cases h : validate f.id cfg blk tx snd with
  | ok => simp
  | err e => simp
  | panic => exact absurd h hp

/-! ### witnesses -/

/-- a plain valid legacy transfer: 21000 gas at price 10 with base fee 7, nonce 3, balance 10^18 -/
def txPlain : Tx := { gasLimit := 21000, gasPrice := 10, value := 5, nonce := some 3, chainId := some 1 }
def blkPlain : Block := { gasLimit := 30000000, basefee := 7 }
def sndPlain : Sender := { balance := 1000000000000000000, nonce := 3 }

theorem inRange_plain (tx : Tx) (snd : Sender)
    (h : tx.gasPrice < W ∧ tx.value < W ∧ snd.balance < W ∧ tx.data = [] ∧
      (∀ p, tx.priorityFee = some p → p < W) ∧ (∀ m, tx.maxFeePerBlobGas = some m → m < W) ∧
      (∀ n, tx.nonce = some n → n < U64) ∧ tx.blobHashes.length ≤ 9) : InRange blkPlain tx snd := by
  obtain ⟨h1, h2, h3, h4, h5, h6, h7, h8⟩ := h
  have hW := W_val
  have hU := U64_val
  refine ⟨by unfold blkPlain; simp only; omega, h1, h5, h2, h6, h3, by rw [h4]; simp; omega, h7, by omega⟩

example : InRange blkPlain txPlain sndPlain ∧ GasFits .london txPlain ∧ ¬ TypeGap .london txPlain sndPlain ∧
    ¬ BlobFeeSaturation txPlain sndPlain ∧ ValidTx .london {} blkPlain txPlain sndPlain := by
  refine ⟨inRange_plain _ _ (by rw [W_val, U64_val]; decide), by unfold GasFits; rw [U64_val]; decide, ?_, ?_, by decide⟩
  · intro h; rcases h with ⟨h, _⟩ | ⟨h, _⟩ <;> exact nomatch h
  · intro ⟨h, _⟩; revert h; rw [W_val]; decide

/-- region 1 on a witness: Berlin, `gas_priority_fee = Some(0)` — accepted, although EIP-1559
transactions do not exist before London (real `Evm`: `ok`; and the sender then pays
`min(gas_price, basefee + 0)` per gas instead of `gas_price`) -/
theorem priority_fee_before_london_counterexample :
    validate Fork.berlin.id {} blkPlain { txPlain with priorityFee := some 0 } sndPlain = .ok ∧
    ¬ ValidTx .berlin {} blkPlain { txPlain with priorityFee := some 0 } sndPlain := by
  constructor
  · decide
  · decide

/-- region 2 on a witness: Cancun, the sender's code is a delegation designator — accepted, although
before Prague (EIP-7702) such an account is an ordinary contract and EIP-3607 rejects it -/
theorem delegated_sender_before_prague_counterexample :
    validate Fork.cancun.id {} blkPlain txPlain { sndPlain with code := .eip7702 } = .ok ∧
    ¬ ValidTx .cancun {} blkPlain txPlain { sndPlain with code := .eip7702 } := by
  constructor
  · decide
  · decide

/-- a blob transaction that offers 2^256 − 1 per blob gas for one blob, pays nothing else, from a
sender owning 2^256 − 1 wei: the true maximum cost is 2^17 · (2^256 − 1) -/
def txBlobSat : Tx :=
  { gasLimit := 21000, gasPrice := 0, value := 0, nonce := some 3, blobHashes := [1],
    maxFeePerBlobGas := some (2^256 - 1) }
def blkFree : Block := { gasLimit := 30000000, basefee := 0 }
def sndRich : Sender := { balance := 2^256 - 1, nonce := 3 }

/-- region 3 on a witness: accepted although the sender cannot pay the maximum blob fee -/
theorem blob_fee_saturation_counterexample :
    validate Fork.cancun.id {} blkFree txBlobSat sndRich = .ok ∧
    ¬ ValidTx .cancun {} blkFree txBlobSat sndRich ∧ BlobFeeSaturation txBlobSat sndRich := by
  refine ⟨by decide, by decide, ?_⟩
  unfold BlobFeeSaturation
  rw [W_val]
  decide

/-- the full statement is false of the code (witness: region 1) -/
theorem validate_iff_full_counterexample : ¬ FullStatement_validate_iff := by
  intro h
  have hr : InRange blkPlain { txPlain with priorityFee := some 0 } sndPlain :=
    inRange_plain _ _ (by rw [W_val, U64_val]; decide)
  have hf : GasFits .berlin { txPlain with priorityFee := some 0 } := by
    unfold GasFits; rw [U64_val]; decide
  have := (h .berlin {} blkPlain _ sndPlain hr hf).1 priority_fee_before_london_counterexample.1
  exact priority_fee_before_london_counterexample.2 this

/-! ## which variant -/

/-- **the reply is the variant of the first violated rule**, in the code's order of checking
(`Spec.TxValid.rules`: 2 header rules, 17 transaction rules, 2 gas rules, 6 sender rules), for every
fork, configuration, block, transaction and sender — whenever `basefee + priority_fee` (from
London) and the blob fee stay below 2^256 -/
theorem validate_eq_first_violated (f : Fork) (cfg : Cfg) (blk : Block) (tx : Tx) (snd : Sender)
    (hr : InRange blk tx snd) (hfit : GasFits f tx)
    (hwrap : hasEIP1559 f = true → ∀ p, tx.priorityFee = some p → blk.basefee + p < W)
    (hnosat : blobFee tx < W) :
    validate f.id cfg blk tx snd = resOf (firstViolated (rules f cfg blk tx snd)) :=
  Proofs.TxValidate.validate_eq_firstViolated f cfg blk tx snd hr hfit hwrap hnosat

/-- per rule: variant `e` is returned iff the first violated rule is one that `e` reports -/
theorem variant_iff_first_violated (f : Fork) (cfg : Cfg) (blk : Block) (tx : Tx) (snd : Sender) (e : Err)
    (hr : InRange blk tx snd) (hfit : GasFits f tx)
    (hwrap : hasEIP1559 f = true → ∀ p, tx.priorityFee = some p → blk.basefee + p < W)
    (hnosat : blobFee tx < W) :
    validate f.id cfg blk tx snd = .err e ↔ firstViolated (rules f cfg blk tx snd) = some e := by
  rw [validate_eq_first_violated f cfg blk tx snd hr hfit hwrap hnosat]
  cases firstViolated (rules f cfg blk tx snd) <;> simp [resOf]

example : (Spec.TxValid.hasEIP1559 .london = true → ∀ p, txPlain.priorityFee = some p → blkPlain.basefee + p < W) ∧
    blobFee txPlain < W := by
  refine ⟨fun _ p h => by simp [txPlain] at h, ?_⟩
  rw [W_val]; decide

/-- gas price 2^256 − 1, base fee 2^255, priority fee 2^255: the caps satisfy the EIP-1559 rules,
`basefee + priority_fee` wraps to 0 -/
def txFeeWrap : Tx :=
  { gasLimit := 21000, gasPrice := 2^256 - 1, priorityFee := some (2^255), nonce := some 3 }
def blkFeeWrap : Block := { gasLimit := 30000000, basefee := 2^255 }

/-- DESIGN §9 #12 on a witness: the code answers `GasPriceLessThanBasefee`, the first violated rule
is the balance rule (`OverflowPaymentInTransaction`) — a different variant, the same verdict -/
theorem fee_wrap_variant_counterexample :
    validate Fork.london.id {} blkFeeWrap txFeeWrap sndRich = .err .GasPriceLessThanBasefee ∧
    firstViolated (rules .london {} blkFeeWrap txFeeWrap sndRich) = some .OverflowPaymentInTransaction ∧
    ¬ ValidTx .london {} blkFeeWrap txFeeWrap sndRich := by
  refine ⟨by decide, by decide, by decide⟩

/-- validation never reaches `expect("already checked")` nor the `initcode_cost` overflow panic -/
theorem validate_never_panics (f : Fork) (cfg : Cfg) (blk : Block) (tx : Tx) (snd : Sender)
    (hr : InRange blk tx snd) (hfit : GasFits f tx) : validate f.id cfg blk tx snd ≠ .panic :=
  Proofs.TxValidate.validate_ne_panic f cfg blk tx snd hr hfit

/-! ## a rejected transaction changes nothing

`Model.TxValidate.transact ops exec c env` models `Evm::transact` on the context
`c = (db, journal, error slot)`: `preverify` (the three stages; the sender is loaded through the
journal from the database, whose reads go through `&mut`), on a validation error `clear`
(`take_error`, `journaled_state.clear()`), otherwise the accepted path `exec` — an arbitrary function,
nothing is assumed about it — followed by `clear`. -/

/-- on a context with an empty journal the verdict of `transact` is the pure `validate` applied to
the sender as the database reports it (an absent account is the default account) -/
theorem preverify_is_validate {D : Type} (ops : DbOps D) (c : Ctx D) (env : Env)
    (h : c.journal.loaded = []) :
    (preverify ops c env).1 =
      validate c.journal.spec env.cfg env.blk env.tx ((ops.basic c.db env.caller).2.getD {}) :=
  Proofs.TxNoEffect.preverify_eq_validate ops c env h

/-- **rejected ⇒ nothing changed**, for ALL context states (dirty journal, pending error), all
databases and every accepted-path function: no output, the journal is the empty journal of the same
spec, the error slot is `Ok`, and the database is the old one — up to at most the single `basic` read
of the caller (a read goes through `&mut self`) -/
theorem rejected_no_effect {D O : Type} (ops : DbOps D) (exec : Ctx D → Env → O × Ctx D) (c : Ctx D)
    (env : Env) (e : Err) (o : Option O) (c' : Ctx D)
    (h : transact ops exec c env = ((.err e, o), c')) :
    o = none ∧ c'.journal = Journal.new c.journal.spec ∧ c'.error = none ∧
      (c'.db = c.db ∨ c'.db = (ops.basic c.db env.caller).1) :=
  Proofs.TxNoEffect.rejected_no_effect ops exec c env e o c' h

/-- with a database whose reads do not change it, the database afterwards is equal -/
theorem rejected_db_untouched {D O : Type} (ops : DbOps D) (hro : ReadOnly ops)
    (exec : Ctx D → Env → O × Ctx D) (c : Ctx D) (env : Env) (e : Err) (o : Option O) (c' : Ctx D)
    (h : transact ops exec c env = ((.err e, o), c')) : c'.db = c.db :=
  Proofs.TxNoEffect.rejected_db_equal ops hro exec c env e o c' h

/-- … and between transactions (clean context) the whole context is equal: as if never submitted -/
theorem rejected_context_equal {D O : Type} (ops : DbOps D) (hro : ReadOnly ops)
    (exec : Ctx D → Env → O × Ctx D) (c : Ctx D) (hc : Clean c) (env : Env) (e : Err) (o : Option O)
    (c' : Ctx D) (h : transact ops exec c env = ((.err e, o), c')) : c' = c :=
  Proofs.TxNoEffect.rejected_ctx_equal ops hro exec c hc env e o c' h

/-- a read-only database over a one-account map, for the non-vacuity examples -/
def mapOps : DbOps (Nat → Option Sender) := { basic := fun d a => (d, d a) }
example : ReadOnly mapOps := fun _ _ => rfl
example : Clean ({ db := fun _ => none, journal := Journal.new 17 } : Ctx (Nat → Option Sender)) := ⟨rfl, rfl⟩
/-- a rejected transaction exists in the model of `transact` (absent sender, no funds) -/
example : (transact mapOps (fun c (_ : Env) => ((), c))
    { db := fun _ => none, journal := Journal.new 17 }
    { cfg := {}, blk := blkPlain, tx := txPlain, caller := 7 }).1 = (.err .NonceTooHigh, none) := by decide

/-- every transaction that does not panic leaves the context clean -/
theorem transact_leaves_clean {D O : Type} (ops : DbOps D) (exec : Ctx D → Env → O × Ctx D) (c : Ctx D)
    (env : Env) (h : (transact ops exec c env).1.1 ≠ .panic) : Clean (transact ops exec c env).2 :=
  Proofs.TxNoEffect.transact_clean ops exec c env h

/-- later results are a function of (database, spec, environment) only: whatever two contexts held
in their journals and error slots, after `clear` they give the same result and the same next context -/
theorem later_results_function_of_db_env {D O : Type} (ops : DbOps D) (exec : Ctx D → Env → O × Ctx D)
    (c1 c2 : Ctx D) (hdb : c1.db = c2.db) (hsp : c1.journal.spec = c2.journal.spec) (env : Env) :
    transact ops exec (clear c1) env = transact ops exec (clear c2) env :=
  Proofs.TxNoEffect.result_function_of_db_env ops exec c1 c2 hdb hsp env

/-- **histories**: running a list of transactions with rejected ones interleaved gives, for the
accepted ones, exactly the results of the twin run that never saw the rejected ones, and the same
final context (database included) — for every accepted-path function and every history -/
theorem history_skip_rejected {D O : Type} (ops : DbOps D) (hro : ReadOnly ops)
    (exec : Ctx D → Env → O × Ctx D) (envs : List Env) (c : Ctx D) (hc : Clean c) :
    runHistory ops exec c (notRejected ops exec c envs)
      = (((runHistory ops exec c envs).1.filter (fun r => !isRejected r)), (runHistory ops exec c envs).2) :=
  Proofs.TxNoEffect.history_skip_rejected ops hro exec envs c hc

end Revm.Props.C02
