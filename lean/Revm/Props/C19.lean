import Revm.Proofs.Prestate
/-! C19 — executing on top of a preloaded bundle equals executing on the merged state.

Left: `State` built by `StateBuilder … .with_bundle_prestate(B)` over database `D`
(`load_cache_account` takes vacant accounts from the bundle through `From<BundleAccount> for
CacheAccount`, keeping the bundle status so that `is_storage_known` decides how absent slots read;
`code_by_hash` consults the bundle's contracts). Right: a `State` over `merged D B` = `D` with the
bundle's plain-state changeset applied. Both are compared with the plain reference state started from
`merged D B` (C15's reference).

`BundleWf` states what a bundle built over `D` satisfies (originals are `D`'s values, status /
info shape, code bytes consistent with the code table); that the bundle *construction* establishes
it is C16's invariant and is checked here on every generated bundle by the correspondence driver.

FINDING (same defect as C15 (A), DESIGN §9 #11): an `InMemoryChange` bundle account reads unlisted
slots as zero; the bundle produced by changing a code-less account that has storage in `D` is such an
account, and then left ≠ right (`prestate_equiv_counterexample`, confirmed on the real code). The
region is the explicit hypothesis `InMemoryStorageZero`; the theorems are therefore `_partial`.
"Resulting bundle changes" are not modelled (bundle construction is C16): the statement proved is
about every read, hence — the EVM being a function of its database reads — every execution result;
the resulting changesets are compared in-harness (`post` lines). -/
namespace Revm.Props.C19
open Revm Revm.Model.StateDb Revm.Spec.StateDb Revm.Spec.Prestate

def replies (r : Except String (State × List Reply)) : Option (List Reply) :=
  match r with
  | .ok p => some p.2
  | .error _ => none

/-- the property at full strength for reads: for every well-formed bundle over `D` and every
reachable history, the State with the preloaded bundle and the State over the merged database give
the same replies (and neither panics) -/
def PrestateEquivStatement : Prop :=
  ∀ (D : Db) (B : Addr → Option BundleAccount) (BC : Nat → Option Code) (known sc bu : Bool)
    (ops : List Op), BundleWf D B BC known → DbWf D → DbWf (merged D B BC known) →
    Reach (merged D B BC known).code sc (St.init (merged D B BC known)) ops →
    replies ((State.build D sc bu (some (B, BC))).run ops) =
      replies ((State.build (merged D B BC known) sc bu none).run ops) ∧
    replies ((State.build D sc bu (some (B, BC))).run ops) ≠ none

/-- reads of the State with the preloaded bundle = reads of the plain reference over the merged
database, for every history (outside the excluded regions) -/
theorem prestate_reads_ref_partial (D : Db) (B : Addr → Option BundleAccount) (BC : Nat → Option Code)
    (known sc bu : Bool) (ops : List Op) (hw : BundleWf D B BC known) (hz : InMemoryStorageZero D B)
    (hD : DbWf D) (hE : CodelessNoStorage D)
    (hD' : DbWf (merged D B BC known)) (hE' : CodelessNoStorage (merged D B BC known))
    (hx : Excl sc ops) (hr : Reach (merged D B BC known).code sc (St.init (merged D B BC known)) ops) :
    ∃ s', (State.build D sc bu (some (B, BC))).run ops =
      .ok (s', (run (merged D B BC known).code sc (St.init (merged D B BC known)) ops).2) :=
  Proofs.Prestate.prestate_reads sc bu known B BC ops hw hz hD hE hD' hE' hx hr

/-- C19: State(D, prestate B) and State(D ⊕ changeset B) answer every read identically and never
panic, for every subsequent history (outside the excluded regions) -/
theorem prestate_equiv_partial (D : Db) (B : Addr → Option BundleAccount) (BC : Nat → Option Code)
    (known sc bu : Bool) (ops : List Op) (hw : BundleWf D B BC known) (hz : InMemoryStorageZero D B)
    (hD : DbWf D) (hE : CodelessNoStorage D)
    (hD' : DbWf (merged D B BC known)) (hE' : CodelessNoStorage (merged D B BC known))
    (hx : Excl sc ops) (hr : Reach (merged D B BC known).code sc (St.init (merged D B BC known)) ops) :
    replies ((State.build D sc bu (some (B, BC))).run ops) =
      replies ((State.build (merged D B BC known) sc bu none).run ops) ∧
    replies ((State.build D sc bu (some (B, BC))).run ops) ≠ none := by
  obtain ⟨s1, h1⟩ := prestate_reads_ref_partial D B BC known sc bu ops hw hz hD hE hD' hE' hx hr
  obtain ⟨s2, h2⟩ := Proofs.StateDb.state_reads_ref sc bu ops hD' hE' hx hr
  rw [h1, h2]
  exact ⟨rfl, by simp [replies]⟩

/-- `From<BundleAccount> for CacheAccount` keeps the status, the info and the present values -/
theorem toCache_shape (b : BundleAccount) :
    b.toCache.status = b.status ∧ b.toCache.accountInfo = b.info := by
  unfold BundleAccount.toCache CacheAccount.accountInfo
  cases b.info <;> simp

/-! ## witness of the excluded region -/
def KE : Nat := KECCAK_EMPTY
def a1 : Addr := 0xa1
/-- the database of C15's witness (A): an empty account with slot 1 = 9 -/
def dbA : Db :=
  { basic := fun a => if a = a1 then some ⟨0, 0, KE, none⟩ else none,
    storage := fun a k => if a = a1 ∧ k = 1 then 9 else 0,
    code := fun _ => [] }
/-- the bundle the real code produces when 5 wei arrive at that account -/
def bundleA : Addr → Option BundleAccount := fun a =>
  if a = a1 then some { info := some ⟨5, 0, KE, none⟩, originalInfo := some ⟨0, 0, KE, some []⟩,
                        storage := fun _ => none, status := .InMemoryChange } else none
def noCodes : Nat → Option Code := fun _ => none
def opsA : List Op := [.basic a1, .storage a1 1]

theorem witness_left : replies ((State.build dbA true false (some (bundleA, noCodes))).run opsA) =
    some [.info (some ⟨5, 0, KE, []⟩), .word 0] := by decide
theorem witness_right : replies ((State.build (merged dbA bundleA noCodes true) true false none).run opsA) =
    some [.info (some ⟨5, 0, KE, []⟩), .word 9] := by decide

theorem wf_KE (b n : Nat) (c : Option Code) (hc : c = none ∨ c = some []) : WfInfo ⟨b, n, KE, c⟩ :=
  ⟨by show KE ≠ 0; decide, fun _ => hc⟩

theorem bundleA_wf : BundleWf dbA bundleA noCodes true := by
  refine ⟨?_, fun h c hc => by cases hc⟩
  intro a b hb
  simp only [bundleA] at hb
  split at hb
  · rename_i ha
    cases hb
    subst ha
    refine ⟨fun _ h => by simp [infoOptEq, infoEq] at h, wf_KE 5 0 none (Or.inl rfl), Or.inl rfl,
      (fun h => by cases h), ?_, fun _ k => trivial⟩
    intro j hj
    have : j = ⟨5, 0, KE, none⟩ := by
      simp [merged, bundleA, infoOptEq, infoEq, withoutCode] at hj
      exact hj.symm
    rw [this]
  · cases hb

theorem dbA_wf : DbWf dbA := by
  intro a i h
  simp only [dbA] at h
  split at h
  · cases h; exact wf_KE 0 0 none (Or.inl rfl)
  · cases h

theorem mergedA_wf : DbWf (merged dbA bundleA noCodes true) := by
  intro a i h
  by_cases ha : a = a1
  · subst ha
    have : i = ⟨5, 0, KE, none⟩ := by
      simp [merged, bundleA, infoOptEq, infoEq, withoutCode] at h
      exact h.symm
    rw [this]; exact wf_KE 5 0 none (Or.inl rfl)
  · simp [merged, bundleA, dbA, ha] at h

/-- the full statement is false of the code as it is (bundle of C15's witness (A)) -/
theorem prestate_equiv_counterexample : ¬ PrestateEquivStatement := by
  intro h
  have := (h dbA bundleA noCodes true true false opsA bundleA_wf dbA_wf mergedA_wf
    ⟨trivial, rfl, trivial⟩).1
  rw [witness_left, witness_right] at this
  exact absurd this (by decide)

/-! ## non-vacuity: a bundle and a history satisfying every hypothesis -/
/-- database: a contract-like account with slot 1 = 9; bundle: its balance changed and slot 2 written -/
def dbC : Db :=
  { basic := fun a => if a = a1 then some ⟨7, 1, KE, none⟩ else none,
    storage := fun a k => if a = a1 ∧ k = 1 then 9 else 0,
    code := fun _ => [] }
def bundleC : Addr → Option BundleAccount := fun a =>
  if a = a1 then some { info := some ⟨5, 2, KE, none⟩, originalInfo := some ⟨7, 1, KE, none⟩,
                        storage := fun k => if k = 2 then some (0, 4) else none, status := .Changed } else none
def opsC : List Op := [.basic a1, .storage a1 1, .storage a1 2]

example : replies ((State.build dbC true false (some (bundleC, noCodes))).run opsC) =
    some [.info (some ⟨5, 2, KE, []⟩), .word 9, .word 4] ∧
  replies ((State.build (merged dbC bundleC noCodes true) true false none).run opsC) =
    some [.info (some ⟨5, 2, KE, []⟩), .word 9, .word 4] := by
  constructor <;> decide

example : InMemoryStorageZero dbC bundleC := by
  intro a b hb hs
  simp only [bundleC] at hb
  split at hb
  · cases hb; cases hs
  · cases hb

end Revm.Props.C19
