import Revm.Proofs.InterpTop
import Revm.Proofs.InterpTable
/-! # C25 — memory-safe, terminating interpretation

"For any legacy bytecode, calldata, gas limit and hardfork, and for any EOF container that passes validation,
execution never panics, never reads or writes outside the code, stack or memory buffers, and ends with a defined
outcome within the gas limit."

The statements are about `Model.Interp` (the code-shaped model of `Interpreter::{step, run, insert_*_outcome}` and
of every handler the legacy instruction table reaches, Frontier … Prague/Osaka), tied to the compiled interpreter by the
per-instruction lockstep stream of `./check C25`. In the model
* a Rust `panic!` / `unwrap()` on `None` / `Vec` capacity overflow / `copy_within` bounds check is `Fault.panic`,
* an instruction-pointer read outside `Interpreter::bytecode` is `Fault.oobCode`,
* an unchecked stack access (`pop_unsafe`, `top_unsafe`, raw-pointer dup/swap) outside `0..len` is `Fault.oobStack`,
* a `SharedMemory` access outside the running context (`get_unchecked`, `debug_unreachable!`) is `Fault.oobMemory`,
so "never panics, never outside the buffers" is "no `Fault` is reachable".

Quantification: ALL byte strings as code, all calldata, all gas limits `< 2^64`, all `SpecId`s, all block / tx
environments that passed `validate_block_env` (`prevrandao` present from the Merge on — the one `unwrap()` of
`host_env.rs`), all hosts and all child-frame results (`OracleOk`: answers are Rust values, a child returns at most the
gas it was given, and never `FatalExternalError`, which the EVM loop intercepts before `insert_*_outcome`), all fuel.

EOF: only the legacy behaviour of the EOF-only opcodes is covered (they stop the frame); execution of validated EOF
containers is not modelled here — see `FullStatementEof` at the end. -/
namespace Revm.Props.C25
open Revm Revm.Model Revm.Model.Interp Revm.Proofs.Interp

/-- the inputs of a frame: a byte string as code, calldata, a `u64` gas limit, a hardfork, a validated
environment, a fresh memory context (`SharedMemory::new()` / after `new_context()`). Lengths are Rust slice lengths. -/
structure Admissible (code input : List Nat) (gasLimit spec : Nat) (env : Env) (mem : Memory.SharedMemory) : Prop where
  bytes : Spec.Jump.Bytes code
  codeLen : code.length ≤ Memory.ISIZE_MAX
  inputLen : input.length ≤ Memory.ISIZE_MAX
  gasLt : gasLimit < U64
  envOk : EnvOk spec env
  memFresh : FreshMem mem

section
variable (code input : List Nat) (gasLimit : Nat) (isStatic : Bool) (spec target caller callValue : Nat)
variable (env : Env) (mem : Memory.SharedMemory)

/-- the frame `Interpreter::new(Contract::new(input, code, ..), gas_limit, is_static)` -/
abbrev frame : IState := IState.init code input gasLimit isStatic spec target caller callValue env mem

theorem frame_inv (ha : Admissible code input gasLimit spec env mem) :
    Inv (frame code input gasLimit isStatic spec target caller callValue env mem)
    ∧ Proofs.Interp.measure (frame code input gasLimit isStatic spec target caller callValue env mem) = gasLimit :=
  init_inv code input gasLimit isStatic spec target caller callValue env mem
    ha.bytes ha.codeLen ha.inputLen ha.gasLt ha.envOk ha.memFresh
end

section
variable {η : Type} (o : Oracle η) (ho : OracleOk o) (h0 : η)
variable (code input : List Nat) (gasLimit : Nat) (isStatic : Bool) (spec target caller callValue : Nat)
variable (env : Env) (mem : Memory.SharedMemory)
include ho

/-- **never panics, never outside a buffer**: for every fuel, the loop never returns a fault -/
theorem no_panic_legacy (ha : Admissible code input gasLimit spec env mem) (fuel : Nat) (f : Fault) :
    (run o fuel (frame code input gasLimit isStatic spec target caller callValue env mem) h0).1 ≠ .fault f := by
  have hs := run_safe o ho fuel _ h0 (frame_inv code input gasLimit isStatic spec target caller callValue env mem ha).1
  intro e; rw [e] at hs; exact hs

/-- **terminates**: `gas_limit + 1` instructions of fuel always suffice (every continuing instruction and every
re-entry of a child result lowers `gas remaining + memory cost paid` by at least 1) -/
theorem run_terminates (ha : Admissible code input gasLimit spec env mem) (fuel : Nat) (hf : gasLimit < fuel) :
    (run o fuel (frame code input gasLimit isStatic spec target caller callValue env mem) h0).1 ≠ .outOfFuel := by
  obtain ⟨hi, hm⟩ := frame_inv code input gasLimit isStatic spec target caller callValue env mem ha
  have hs := run_safe o ho fuel _ h0 hi
  intro e; rw [e] at hs
  have : fuel ≤ Proofs.Interp.measure _ := hs
  omega

/-- **ends with a defined outcome within the gas limit**: an `InstructionResult`, an output, and a final meter whose
remaining gas is at most the limit -/
theorem ends_within_gas (ha : Admissible code input gasLimit spec env mem) (fuel : Nat) (hf : gasLimit < fuel) :
    ∃ r out s', (run o fuel (frame code input gasLimit isStatic spec target caller callValue env mem) h0).1
        = .done r out s' ∧ s'.gas.remaining ≤ gasLimit := by
  obtain ⟨hi, hm⟩ := frame_inv code input gasLimit isStatic spec target caller callValue env mem ha
  have hs := run_safe o ho fuel _ h0 hi
  cases hr : (run o fuel (frame code input gasLimit isStatic spec target caller callValue env mem) h0).1 with
  | done r out s' =>
    rw [hr] at hs
    refine ⟨r, out, s', rfl, ?_⟩
    have h1 : Proofs.Interp.measure s' ≤ Proofs.Interp.measure _ := hs
    have h2 : Proofs.Interp.measure s' = s'.gas.remaining + mcost s' := rfl
    omega
  | fault f => rw [hr] at hs; exact hs.elim
  | outOfFuel =>
    rw [hr] at hs
    have : fuel ≤ Proofs.Interp.measure _ := hs
    omega

/-- a state the loop passes through between two instructions -/
abbrev Reachable (s : IState) (h : η) : Prop :=
  Reach o (frame code input gasLimit isStatic spec target caller callValue env mem) h0 s h

/-- **`pc_in_bounds`**: in every reachable state the instruction pointer is inside the (padded) code buffer -/
theorem pc_in_bounds (ha : Admissible code input gasLimit spec env mem) {s : IState} {h : η}
    (hr : Reachable o h0 code input gasLimit isStatic spec target caller callValue env mem s h) :
    s.pc < s.code.length ∧ s.code = Jump.pad code :=
  ⟨(reach_inv o ho (frame_inv code input gasLimit isStatic spec target caller callValue env mem ha).1 hr).1.pc,
   (reach_inv o ho (frame_inv code input gasLimit isStatic spec target caller callValue env mem ha).1 hr).2.2.1⟩

/-- falling off the end of the code executes the STOP of the 33-byte zero padding -/
theorem falls_off_end_stops (ha : Admissible code input gasLimit spec env mem) {s : IState} {h : η}
    (hr : Reachable o h0 code input gasLimit isStatic spec target caller callValue env mem s h)
    (hend : code.length ≤ s.pc) :
    step s = .halt .Stop [] { s with pc := s.pc + 1 } := by
  have hri := reach_inv o ho (frame_inv code input gasLimit isStatic spec target caller callValue env mem ha).1 hr
  exact step_in_padding hri.1 (by rw [hri.2.2.2]; exact hend)

/-- the instruction in a reachable state, whatever the host answers, is not the fault `f` -/
def StepFaults (s : IState) (f : Fault) : Prop :=
  step s = .fault f ∨ ∃ op k r, step s = .host op k ∧ RespOk r ∧ k r = .fault f

theorem step_never_faults (ha : Admissible code input gasLimit spec env mem) {s : IState} {h : η}
    (hr : Reachable o h0 code input gasLimit isStatic spec target caller callValue env mem s h) (f : Fault) :
    ¬ StepFaults s f := by
  have hi := (reach_inv o ho (frame_inv code input gasLimit isStatic spec target caller callValue env mem ha).1 hr).1
  have hg := step_good hi
  rintro (e | ⟨op, k, r, e, hr, ek⟩)
  · rw [e] at hg
    cases hg with
    | pure hd => cases hd
  · rw [e] at hg
    cases hg with
    | host hk => have := hk r hr; rw [ek] at this; cases this

/-- **`code_index_ok`**: opcode fetch and PUSH immediates (also a PUSH32 in the last byte) read inside the buffer -/
theorem code_index_ok (ha : Admissible code input gasLimit spec env mem) {s : IState} {h : η}
    (hr : Reachable o h0 code input gasLimit isStatic spec target caller callValue env mem s h) :
    ¬ StepFaults s .oobCode :=
  step_never_faults o ho h0 code input gasLimit isStatic spec target caller callValue env mem ha hr _

/-- **`stack_index_ok`**: every unchecked stack access is below the length -/
theorem stack_index_ok (ha : Admissible code input gasLimit spec env mem) {s : IState} {h : η}
    (hr : Reachable o h0 code input gasLimit isStatic spec target caller callValue env mem s h) :
    ¬ StepFaults s .oobStack ∧ s.stack.length ≤ 1024 :=
  ⟨step_never_faults o ho h0 code input gasLimit isStatic spec target caller callValue env mem ha hr _,
   (reach_inv o ho (frame_inv code input gasLimit isStatic spec target caller callValue env mem ha).1 hr).1.stack⟩

/-- **`memory_index_ok`**: every memory read / write happens inside the context, after a `resize_memory!` that
covers it; and `resize_memory!` never reaches the `Vec` capacity panic -/
theorem memory_index_ok (ha : Admissible code input gasLimit spec env mem) {s : IState} {h : η}
    (hr : Reachable o h0 code input gasLimit isStatic spec target caller callValue env mem s h) :
    ¬ StepFaults s .oobMemory ∧ ¬ StepFaults s .panic :=
  ⟨step_never_faults o ho h0 code input gasLimit isStatic spec target caller callValue env mem ha hr _,
   step_never_faults o ho h0 code input gasLimit isStatic spec target caller callValue env mem ha hr _⟩

/-- **`gas_decreases`**: an instruction after which the frame continues leaves strictly less gas on the meter
(JUMPDEST = 1 is the cheapest; STOP, RETURN, REVERT, INVALID, SELFDESTRUCT are the only free ones and they stop) -/
theorem gas_decreases (ha : Admissible code input gasLimit spec env mem) {s : IState} {h : η}
    (hr : Reachable o h0 code input gasLimit isStatic spec target caller callValue env mem s h)
    {s' : IState} {h' : η} (hstep : resolve o (step s) h = (.next s', h')) :
    s'.gas.remaining + 1 ≤ s.gas.remaining :=
  step_next_gas o ho
    (reach_inv o ho (frame_inv code input gasLimit isStatic spec target caller callValue env mem ha).1 hr).1 h h' hstep

/-- the meter never shows more than the limit -/
theorem gas_within_limit (ha : Admissible code input gasLimit spec env mem) {s : IState} {h : η}
    (hr : Reachable o h0 code input gasLimit isStatic spec target caller callValue env mem s h) :
    s.gas.remaining ≤ gasLimit := by
  obtain ⟨hi, hm⟩ := frame_inv code input gasLimit isStatic spec target caller callValue env mem ha
  have h1 := (reach_inv o ho hi hr).2.1
  have h2 : Proofs.Interp.measure s = s.gas.remaining + mcost s := rfl
  omega

end

/-! ## the hypotheses are satisfiable -/

/-- a host that knows nothing and children that return nothing -/
def nullOracle : Oracle Unit where
  host _ _ := ({ ok := false }, ())
  child _ _ := ({ result := .Stop, output := [], gasRemaining := 0, gasRefunded := 0 }, ())

theorem nullOracle_ok : OracleOk nullOracle :=
  ⟨fun _ _ => by show ([] : List Nat).length ≤ _; simp,
   fun _ a => ⟨Nat.zero_le _, by show IResult.Stop ≠ IResult.FatalExternalError; decide,
     by show ([] : List Nat).length ≤ _; simp⟩⟩

/-- `PUSH1 1; PUSH1 2; ADD; PUSH32` cut off after one byte, Cancun, 100000 gas, default environment -/
example : Admissible [0x60, 0x01, 0x60, 0x02, 0x01, 0x7f, 0xaa] [0xde, 0xad] 100000 17 {} Memory.new :=
  ⟨by decide, by unfold Memory.ISIZE_MAX; decide, by unfold Memory.ISIZE_MAX; decide, by rw [U64_val]; decide,
   fun _ => by decide, freshMem_new⟩

/-- the largest gas limit is admissible -/
example : Admissible [0x5b] [] (U64 - 1) 0 { prevrandao := none } Memory.new :=
  ⟨by decide, by unfold Memory.ISIZE_MAX; decide, by unfold Memory.ISIZE_MAX; decide, by rw [U64_val]; decide,
   fun h => by revert h; decide, freshMem_new⟩

/-! ## why the hypotheses are there -/

/-- DIFFICULTY from the Merge on with `prevrandao = None` is the `unwrap()` panic of `host_env.rs::difficulty`;
`Env::validate_block_env` rejects such an environment, which is what `EnvOk` states -/
theorem prevrandao_none_panics_counterexample :
    step (IState.init [0x44] [] 100 false 17 0 0 0 { prevrandao := none }) = .fault .panic := by
  rfl

/-- a child frame ending in `FatalExternalError` is the `panic!` of `insert_call_outcome`; the EVM loop never
hands one in (`take_error()?` comes first), which is what `ChildOk.notFatal` states -/
theorem fatal_child_panics_counterexample (s : IState) (i : CallInputs) :
    insertOutcome (.call i)
      { result := .FatalExternalError, output := [], gasRemaining := 0, gasRefunded := 0 } s = .fault .panic := by
  rfl

/-! ## the opcode table -/

/-- kind-A tie of the dispatch: for every SpecId and every opcode byte, the first-instruction gate of the model
(`decode`, the `check!` of the handler, `require_eof!` / `require_init_eof!`, undefined bytes, INVALID) is what the
compiled interpreter did when `Gen/Tables.lean` was regenerated for this run (`spec_to_generic!` canonicalisation
included) -/
theorem opcode_gate_matches_table (spec : Nat) (codes : List Nat) (h : (spec, codes) ∈ Gen.opStatus)
    (op : Nat) (hop : op < 256) : codes[op]? = some (gateOf (GasCalc.canon spec) op) := by
  have h1 := List.all_eq_true.mp gate_table _ h
  have h2 := List.all_eq_true.mp h1 op (List.mem_range.mpr hop)
  simpa using h2

/-! ## EOF -/

/-- in legacy code every EOF-only opcode stops the frame (`EOFOpcodeDisabledInLegacy`; RETURNCONTRACT:
`ReturnContractInNotInitEOF`) — part of the legacy statement above; shown separately because it is all this file
says about the EOF instruction set -/
theorem eof_opcodes_stop_in_legacy_partial (s : IState) (h1 : s.isEof = false) (h2 : s.isEofInit = false) :
    execInstr .eofOnly s = .halt .EOFOpcodeDisabledInLegacy [] s
    ∧ execInstr .returnContract s = .halt .ReturnContractInNotInitEOF [] s := by
  constructor
  · show Outcome.pure (Exec.toDone ((do requireEof; faultWith Fault.notModelled : M Unit) s)) = _
    show Outcome.pure (Exec.toDone (M.bind requireEof (fun _ => faultWith Fault.notModelled) s)) = _
    unfold M.bind requireEof
    rw [h1]; rfl
  · show Outcome.pure (Exec.toDone (if !s.isEofInit then _ else _)) = _
    rw [h2]; rfl

/-- The part of C25 about EOF that is NOT proved. The model runs EOF containers (`IState.initEof`: code sections,
types, data, function stack; RJUMP, RJUMPI, RJUMPV, CALLF, RETF, JUMPF, DUPN, SWAPN, EXCHANGE, DATALOAD, DATALOADN,
DATASIZE, DATACOPY, RETURNDATALOAD in EOF mode — tied to the code by the lockstep stream), but relative jumps and section
indices are bounded by validation only, so the theorem needs "validated ⇒ every immediate in range, every section
ends in a terminating instruction, max_stack_size respected" (C26, whose headline is itself `_partial`) and a model
of EOFCREATE / RETURNCONTRACT / EXT*CALL (`Fault.notModelled` today). `Validated` is the validation predicate. -/
def FullStatementEof (Validated : EofCtx → Prop) : Prop :=
  ∀ {η : Type} (o : Oracle η), OracleOk o → ∀ (h0 : η) (ctx : EofCtx), Validated ctx →
  ∀ (input : List Nat) (gasLimit : Nat) (isStatic : Bool) (spec target caller callValue : Nat) (env : Env),
    input.length ≤ Memory.ISIZE_MAX → gasLimit < U64 → EnvOk spec env →
  ∀ fuel, gasLimit < fuel →
    ∃ r out s', (run o fuel (IState.initEof ctx input gasLimit isStatic spec target caller callValue env) h0).1
        = .done r out s' ∧ s'.gas.remaining ≤ gasLimit

/-- without validation the statement is false: a relative jump may leave the section (here RJUMP +16 in a
4-byte section; the next fetch is outside the buffer) -/
theorem eof_unvalidated_counterexample :
    (run nullOracle 10
      (IState.initEof { sections := [[0xe0, 0x00, 0x10, 0x00]], types := [(0, 0x80, 0)], data := [], dataSize := 0 }
        [] 1000 false 19 0 0 0 {}) ()).1 = .fault .oobCode := by
  rfl

end Revm.Props.C25
