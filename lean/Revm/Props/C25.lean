import Revm.Proofs.InterpTop
import Revm.Proofs.InterpTable
import Revm.Proofs.InterpEofTop
import Revm.Proofs.InterpEofC26
import Revm.Proofs.InterpEofValid
/-! # C25 — memory-safe, terminating interpretation

"For any legacy bytecode, calldata, gas limit and hardfork, and for any EOF container that passes validation,
execution never panics, never reads or writes outside the code, stack or memory buffers, and ends with a defined
outcome within the gas limit."

The statements are about `Model.Interp` (the code-shaped model of `Interpreter::{step, run, insert_*_outcome}` and
of every handler the legacy instruction table reaches, Frontier … Prague/Osaka), tied to the compiled interpreter by the
per-instruction lockstep stream of `./check C25`. In the model
* a Rust `panic!` / `unwrap()` on `None` / `Vec` capacity overflow / `copy_within` bounds check is `Fault.panic`,
* an instruction-pointer read outside `Interpreter::bytecode` is `Fault.oobCode`,
* an unchecked stack access (`pop_unsafe`, `top_unsafe`, raw-pointer dup/swap) outside `0..len` is `Fault.oobStack`,
* a `SharedMemory` access outside the running context (`get_unchecked`, `debug_unreachable!`) is `Fault.oobMemory`,
so "never panics, never outside the buffers" is "no `Fault` is reachable".

Quantification: ALL byte strings as code, all calldata, all gas limits `< 2^64`, all `SpecId`s, all block / tx
environments that passed `validate_block_env` (`prevrandao` present from the Merge on — the one `unwrap()` of
`host_env.rs`), all hosts and all child-frame results (`OracleOk`: answers are Rust values, a child returns at most the
gas it was given, and never `FatalExternalError`, which the EVM loop intercepts before `insert_*_outcome`), all fuel.

EOF: every EOF instruction is modelled (`IState.initEof`); the statements are proved for every container that
satisfies the explicit well-formedness predicate `WfCtx` (decidable version `wfCtxB`, section "EOF" below), and
validation implies it (`validation_gives_wf`), so `FullStatementEof` at the end is proved (`fullStatementEof`). -/
namespace Revm.Props.C25
open Revm Revm.Model Revm.Model.Interp Revm.Proofs.Interp

/-- the inputs of a frame: a byte string as code, calldata, a `u64` gas limit, a hardfork, a validated
environment, a fresh memory context (`SharedMemory::new()` / after `new_context()`). Lengths are Rust slice lengths. -/
structure Admissible (code input : List Nat) (gasLimit spec : Nat) (env : Env) (mem : Memory.SharedMemory) : Prop where
  bytes : Spec.Jump.Bytes code
  codeLen : code.length ≤ Memory.ISIZE_MAX
  inputLen : input.length ≤ Memory.ISIZE_MAX
  gasLt : gasLimit < U64
  envOk : EnvOk spec env
  memFresh : FreshMem mem

section
variable (code input : List Nat) (gasLimit : Nat) (isStatic : Bool) (spec target caller callValue : Nat)
variable (env : Env) (mem : Memory.SharedMemory)

/-- the frame `Interpreter::new(Contract::new(input, code, ..), gas_limit, is_static)` -/
abbrev frame : IState := IState.init code input gasLimit isStatic spec target caller callValue env mem

theorem frame_inv (ha : Admissible code input gasLimit spec env mem) :
    InvC (Jump.pad code) code.length (frame code input gasLimit isStatic spec target caller callValue env mem)
    ∧ Proofs.Interp.measure (frame code input gasLimit isStatic spec target caller callValue env mem) = gasLimit :=
  init_inv code input gasLimit isStatic spec target caller callValue env mem
    ha.bytes ha.codeLen ha.inputLen ha.gasLt ha.envOk ha.memFresh
end

section
variable {η : Type} (o : Oracle η) (ho : OracleOk o) (h0 : η)
variable (code input : List Nat) (gasLimit : Nat) (isStatic : Bool) (spec target caller callValue : Nat)
variable (env : Env) (mem : Memory.SharedMemory)
include ho

/-- **never panics, never outside a buffer**: for every fuel, the loop never returns a fault -/
theorem no_panic_legacy (ha : Admissible code input gasLimit spec env mem) (fuel : Nat) (f : Fault) :
    (run o fuel (frame code input gasLimit isStatic spec target caller callValue env mem) h0).1 ≠ .fault f := by
  have hs := run_safe _ _ o ho fuel _ h0 (frame_inv code input gasLimit isStatic spec target caller callValue env mem ha).1
  intro e; rw [e] at hs; exact hs

/-- **terminates**: `gas_limit + 1` instructions of fuel always suffice (every continuing instruction and every
re-entry of a child result lowers `gas remaining + memory cost paid` by at least 1) -/
theorem run_terminates (ha : Admissible code input gasLimit spec env mem) (fuel : Nat) (hf : gasLimit < fuel) :
    (run o fuel (frame code input gasLimit isStatic spec target caller callValue env mem) h0).1 ≠ .outOfFuel := by
  obtain ⟨hi, hm⟩ := frame_inv code input gasLimit isStatic spec target caller callValue env mem ha
  have hs := run_safe _ _ o ho fuel _ h0 hi
  intro e; rw [e] at hs
  have : fuel ≤ Proofs.Interp.measure _ := hs
  omega

/-- **ends with a defined outcome within the gas limit**: an `InstructionResult`, an output, and a final meter whose
remaining gas is at most the limit -/
theorem ends_within_gas (ha : Admissible code input gasLimit spec env mem) (fuel : Nat) (hf : gasLimit < fuel) :
    ∃ r out s', (run o fuel (frame code input gasLimit isStatic spec target caller callValue env mem) h0).1
        = .done r out s' ∧ s'.gas.remaining ≤ gasLimit := by
  obtain ⟨hi, hm⟩ := frame_inv code input gasLimit isStatic spec target caller callValue env mem ha
  have hs := run_safe _ _ o ho fuel _ h0 hi
  cases hr : (run o fuel (frame code input gasLimit isStatic spec target caller callValue env mem) h0).1 with
  | done r out s' =>
    rw [hr] at hs
    refine ⟨r, out, s', rfl, ?_⟩
    have h1 : Proofs.Interp.measure s' ≤ Proofs.Interp.measure _ := hs
    have h2 : Proofs.Interp.measure s' = s'.gas.remaining + mcost s' := rfl
    omega
  | fault f => rw [hr] at hs; exact hs.elim
  | outOfFuel =>
    rw [hr] at hs
    have : fuel ≤ Proofs.Interp.measure _ := hs
    omega

/-- a state the loop passes through between two instructions -/
abbrev Reachable (s : IState) (h : η) : Prop :=
  Reach o (frame code input gasLimit isStatic spec target caller callValue env mem) h0 s h

/-- **`pc_in_bounds`**: in every reachable state the instruction pointer is inside the (padded) code buffer -/
theorem pc_in_bounds (ha : Admissible code input gasLimit spec env mem) {s : IState} {h : η}
    (hr : Reachable o h0 code input gasLimit isStatic spec target caller callValue env mem s h) :
    s.pc < s.code.length ∧ s.code = Jump.pad code :=
  ⟨(reach_inv _ _ o ho (frame_inv code input gasLimit isStatic spec target caller callValue env mem ha).1 hr).1.1.pc,
   (reach_inv _ _ o ho (frame_inv code input gasLimit isStatic spec target caller callValue env mem ha).1 hr).1.2.1⟩

/-- falling off the end of the code executes the STOP of the 33-byte zero padding -/
theorem falls_off_end_stops (ha : Admissible code input gasLimit spec env mem) {s : IState} {h : η}
    (hr : Reachable o h0 code input gasLimit isStatic spec target caller callValue env mem s h)
    (hend : code.length ≤ s.pc) :
    step s = .halt .Stop [] { s with pc := s.pc + 1 } := by
  have hri := reach_inv _ _ o ho (frame_inv code input gasLimit isStatic spec target caller callValue env mem ha).1 hr
  exact step_in_padding hri.1.1 (by rw [hri.1.2.2]; exact hend)

/-- the instruction in a reachable state, whatever the host answers, is not the fault `f` -/
def StepFaults (s : IState) (f : Fault) : Prop :=
  step s = .fault f ∨ ∃ op k r, step s = .host op k ∧ RespOk r ∧ k r = .fault f

theorem step_never_faults (ha : Admissible code input gasLimit spec env mem) {s : IState} {h : η}
    (hr : Reachable o h0 code input gasLimit isStatic spec target caller callValue env mem s h) (f : Fault) :
    ¬ StepFaults s f := by
  have hi := (reach_inv _ _ o ho (frame_inv code input gasLimit isStatic spec target caller callValue env mem ha).1 hr).1
  have hg := step_good _ _ s hi
  rintro (e | ⟨op, k, r, e, hr, ek⟩)
  · rw [e] at hg
    cases hg with
    | pure hd => cases hd
  · rw [e] at hg
    cases hg with
    | host hk => have := hk r hr; rw [ek] at this; cases this

/-- **`code_index_ok`**: opcode fetch and PUSH immediates (also a PUSH32 in the last byte) read inside the buffer -/
theorem code_index_ok (ha : Admissible code input gasLimit spec env mem) {s : IState} {h : η}
    (hr : Reachable o h0 code input gasLimit isStatic spec target caller callValue env mem s h) :
    ¬ StepFaults s .oobCode :=
  step_never_faults o ho h0 code input gasLimit isStatic spec target caller callValue env mem ha hr _

/-- **`stack_index_ok`**: every unchecked stack access is below the length -/
theorem stack_index_ok (ha : Admissible code input gasLimit spec env mem) {s : IState} {h : η}
    (hr : Reachable o h0 code input gasLimit isStatic spec target caller callValue env mem s h) :
    ¬ StepFaults s .oobStack ∧ s.stack.length ≤ 1024 :=
  ⟨step_never_faults o ho h0 code input gasLimit isStatic spec target caller callValue env mem ha hr _,
   (reach_inv _ _ o ho (frame_inv code input gasLimit isStatic spec target caller callValue env mem ha).1 hr).1.1.stack⟩

/-- **`memory_index_ok`**: every memory read / write happens inside the context, after a `resize_memory!` that
covers it; and `resize_memory!` never reaches the `Vec` capacity panic -/
theorem memory_index_ok (ha : Admissible code input gasLimit spec env mem) {s : IState} {h : η}
    (hr : Reachable o h0 code input gasLimit isStatic spec target caller callValue env mem s h) :
    ¬ StepFaults s .oobMemory ∧ ¬ StepFaults s .panic :=
  ⟨step_never_faults o ho h0 code input gasLimit isStatic spec target caller callValue env mem ha hr _,
   step_never_faults o ho h0 code input gasLimit isStatic spec target caller callValue env mem ha hr _⟩

/-- **`gas_decreases`**: an instruction after which the frame continues leaves strictly less gas on the meter
(JUMPDEST = 1 is the cheapest; STOP, RETURN, REVERT, INVALID, SELFDESTRUCT are the only free ones and they stop) -/
theorem gas_decreases (ha : Admissible code input gasLimit spec env mem) {s : IState} {h : η}
    (hr : Reachable o h0 code input gasLimit isStatic spec target caller callValue env mem s h)
    {s' : IState} {h' : η} (hstep : resolve o (step s) h = (.next s', h')) :
    s'.gas.remaining + 1 ≤ s.gas.remaining :=
  step_next_gas o ho
    (reach_inv _ _ o ho (frame_inv code input gasLimit isStatic spec target caller callValue env mem ha).1 hr).1.1 h h' hstep

/-- the meter never shows more than the limit -/
theorem gas_within_limit (ha : Admissible code input gasLimit spec env mem) {s : IState} {h : η}
    (hr : Reachable o h0 code input gasLimit isStatic spec target caller callValue env mem s h) :
    s.gas.remaining ≤ gasLimit := by
  obtain ⟨hi, hm⟩ := frame_inv code input gasLimit isStatic spec target caller callValue env mem ha
  have h1 := (reach_inv _ _ o ho hi hr).2
  have h2 : Proofs.Interp.measure s = s.gas.remaining + mcost s := rfl
  omega

end

/-! ## the hypotheses are satisfiable -/

/-- a host that knows nothing and children that return nothing -/
def nullOracle : Oracle Unit where
  host _ _ := ({ ok := false }, ())
  child _ _ := ({ result := .Stop, output := [], gasRemaining := 0, gasRefunded := 0 }, ())

theorem nullOracle_ok : OracleOk nullOracle :=
  ⟨fun _ _ => by show ([] : List Nat).length ≤ _; simp,
   fun _ a => ⟨Nat.zero_le _, by show IResult.Stop ≠ IResult.FatalExternalError; decide,
     by show ([] : List Nat).length ≤ _; simp, fun _ _ h => by cases h⟩⟩

/-- `PUSH1 1; PUSH1 2; ADD; PUSH32` cut off after one byte, Cancun, 100000 gas, default environment -/
example : Admissible [0x60, 0x01, 0x60, 0x02, 0x01, 0x7f, 0xaa] [0xde, 0xad] 100000 17 {} Memory.new :=
  ⟨by decide, by unfold Memory.ISIZE_MAX; decide, by unfold Memory.ISIZE_MAX; decide, by rw [U64_val]; decide,
   fun _ => by decide, freshMem_new⟩

/-- the largest gas limit is admissible -/
example : Admissible [0x5b] [] (U64 - 1) 0 { prevrandao := none } Memory.new :=
  ⟨by decide, by unfold Memory.ISIZE_MAX; decide, by unfold Memory.ISIZE_MAX; decide, by rw [U64_val]; decide,
   fun h => by revert h; decide, freshMem_new⟩

/-! ## why the hypotheses are there -/

/-- DIFFICULTY from the Merge on with `prevrandao = None` is the `unwrap()` panic of `host_env.rs::difficulty`;
`Env::validate_block_env` rejects such an environment, which is what `EnvOk` states -/
theorem prevrandao_none_panics_counterexample :
    step (IState.init [0x44] [] 100 false 17 0 0 0 { prevrandao := none }) = .fault .panic := by
  rfl

/-- a child frame ending in `FatalExternalError` is the `panic!` of `insert_call_outcome`; the EVM loop never
hands one in (`take_error()?` comes first), which is what `ChildOk.notFatal` states -/
theorem fatal_child_panics_counterexample (s : IState) (i : CallInputs) :
    insertOutcome (.call i)
      { result := .FatalExternalError, output := [], gasRemaining := 0, gasRefunded := 0 } s = .fault .panic := by
  rfl

/-! ## the opcode table -/

/-- kind-A tie of the dispatch: for every SpecId and every opcode byte, the first-instruction gate of the model
(`decode`, the `check!` of the handler, `require_eof!` / `require_init_eof!`, undefined bytes, INVALID) is what the
compiled interpreter did when `Gen/Tables.lean` was regenerated for this run (`spec_to_generic!` canonicalisation
included) -/
theorem opcode_gate_matches_table (spec : Nat) (codes : List Nat) (h : (spec, codes) ∈ Gen.opStatus)
    (op : Nat) (hop : op < 256) : codes[op]? = some (gateOf (GasCalc.canon spec) op) := by
  have h1 := List.all_eq_true.mp gate_table _ h
  have h2 := List.all_eq_true.mp h1 op (List.mem_range.mpr hop)
  simpa using h2

/-! ## EOF -/

/-- in legacy code every EOF-only opcode stops the frame at its `require_eof!` (`EOFOpcodeDisabledInLegacy`;
RETURNCONTRACT at `require_init_eof!`: `ReturnContractInNotInitEOF`) — part of the legacy statement above, shown
separately for the instructions without a host question -/
theorem eof_opcodes_stop_in_legacy (s : IState) (h1 : s.isEof = false) (h2 : s.isEofInit = false) :
    (∀ i ∈ [Instr.rjump, .rjumpi, .rjumpv, .callf, .retf, .jumpf, .dupn, .swapn, .exchange, .dataload, .dataloadn,
        .datasize, .datacopy, .returndataload], execInstr i s = .halt .EOFOpcodeDisabledInLegacy [] s)
    ∧ execInstr .returnContract s = .halt .ReturnContractInNotInitEOF [] s := by
  have hg : ∀ (k : Unit → M Unit), Outcome.pure (Exec.toDone (M.bind requireEof k s))
      = .halt .EOFOpcodeDisabledInLegacy [] s := by
    intro k; unfold M.bind requireEof; rw [h1]; rfl
  constructor
  · intro i hi
    simp only [List.mem_cons, List.mem_nil_iff, or_false] at hi
    rcases hi with rfl | rfl | rfl | rfl | rfl | rfl | rfl | rfl | rfl | rfl | rfl | rfl | rfl | rfl <;> exact hg _
  · show Outcome.pure (Exec.toDone (M.bind requireInitEof _ s)) = _
    unfold M.bind requireInitEof
    rw [h2]; rfl

/-! ### execution of a well-formed EOF container

`Model/InterpWf.lean` defines the decidable predicate `wfCtxB` (as a proposition: `WfCtx`, `wfCtx_of_check`) on a container (code sections, types, data,
sub-containers): every byte is a byte; in every code section, at every instruction boundary of the linear scan
(`boundaries`): the immediates lie inside the section; unless the instruction is terminating (STOP, INVALID, RETURN,
REVERT, RJUMP, RETF, JUMPF, RETURNCONTRACT, an undefined byte) the next position is again an instruction boundary of the section
(so no section runs off its end); every RJUMP / RJUMPI / RJUMPV target is an instruction boundary of the section; the
CALLF / JUMPF section index exists; RETF only in a returning function; JUMPF to a returning function only from a returning one;
the first section is non-returning; the EOFCREATE sub-container exists, decodes and has its data filled; the RETURNCONTRACT
sub-container exists and has a decodable header; there is no CODESIZE / CODECOPY (`unreachable!` in EOF code); as many
type entries as sections, at least one. This is what `validate_eof` establishes and the interpreter relies on without
checking. `max_stack_height` is NOT needed: the EOF stack instructions of this interpreter check the stack themselves. -/

/-- the inputs of a frame that runs an EOF container -/
structure AdmissibleEof (ctx : EofCtx) (input : List Nat) (gasLimit spec : Nat) (env : Env)
    (mem : Memory.SharedMemory) : Prop where
  wf : WfCtx ctx
  inputLen : input.length ≤ Memory.ISIZE_MAX
  gasLt : gasLimit < U64
  envOk : EnvOk spec env
  memFresh : FreshMem mem

section
variable (ctx : EofCtx) (input : List Nat) (gasLimit : Nat) (isStatic : Bool) (spec target caller callValue : Nat)
variable (env : Env) (mem : Memory.SharedMemory) (isInit : Bool)

/-- `Interpreter::new` on a contract whose bytecode is `Bytecode::Eof` (`isInit`: the init code of EOFCREATE / a
creation transaction) -/
abbrev frameEof : IState := IState.initEof ctx input gasLimit isStatic spec target caller callValue env mem isInit

theorem frameEof_inv (ha : AdmissibleEof ctx input gasLimit spec env mem) :
    InvE ctx (frameEof ctx input gasLimit isStatic spec target caller callValue env mem isInit)
    ∧ Proofs.Interp.measure (frameEof ctx input gasLimit isStatic spec target caller callValue env mem isInit)
        = gasLimit :=
  initE_inv ctx input gasLimit isStatic spec target caller callValue env mem isInit
    ha.wf ha.inputLen ha.gasLt ha.envOk ha.memFresh
end

section
variable {η : Type} (o : Oracle η) (ho : OracleOk o) (h0 : η)
variable (ctx : EofCtx) (input : List Nat) (gasLimit : Nat) (isStatic : Bool) (spec target caller callValue : Nat)
variable (env : Env) (mem : Memory.SharedMemory) (isInit : Bool)
include ho

/-- **EOF: never panics, never outside a buffer** (no `Fault`, in particular none of the `panic!("Invalid EOF in
execution")` / `.expect("EOF is checked")` / `unreachable!` sites and no instruction-pointer read outside the section) -/
theorem no_panic_eof (ha : AdmissibleEof ctx input gasLimit spec env mem) (fuel : Nat) (f : Fault) :
    (run o fuel (frameEof ctx input gasLimit isStatic spec target caller callValue env mem isInit) h0).1
      ≠ .fault f := by
  have hs := runE_safe ctx o ho fuel _ h0
    (frameEof_inv ctx input gasLimit isStatic spec target caller callValue env mem isInit ha).1
  intro e; rw [e] at hs; exact hs

/-- **EOF: terminates** within `gas_limit + 1` instructions -/
theorem run_terminates_eof (ha : AdmissibleEof ctx input gasLimit spec env mem) (fuel : Nat) (hf : gasLimit < fuel) :
    (run o fuel (frameEof ctx input gasLimit isStatic spec target caller callValue env mem isInit) h0).1
      ≠ .outOfFuel := by
  obtain ⟨hi, hm⟩ := frameEof_inv ctx input gasLimit isStatic spec target caller callValue env mem isInit ha
  have hs := runE_safe ctx o ho fuel _ h0 hi
  intro e; rw [e] at hs
  have : fuel ≤ Proofs.Interp.measure _ := hs
  omega

/-- **EOF: ends with a defined outcome within the gas limit** -/
theorem ends_within_gas_eof (ha : AdmissibleEof ctx input gasLimit spec env mem) (fuel : Nat)
    (hf : gasLimit < fuel) :
    ∃ r out s', (run o fuel (frameEof ctx input gasLimit isStatic spec target caller callValue env mem isInit) h0).1
        = .done r out s' ∧ s'.gas.remaining ≤ gasLimit := by
  obtain ⟨hi, hm⟩ := frameEof_inv ctx input gasLimit isStatic spec target caller callValue env mem isInit ha
  have hs := runE_safe ctx o ho fuel _ h0 hi
  cases hr : (run o fuel (frameEof ctx input gasLimit isStatic spec target caller callValue env mem isInit) h0).1 with
  | done r out s' =>
    rw [hr] at hs
    refine ⟨r, out, s', rfl, ?_⟩
    have h1 : Proofs.Interp.measure s' ≤ Proofs.Interp.measure _ := hs
    have h2 : Proofs.Interp.measure s' = s'.gas.remaining + mcost s' := rfl
    omega
  | fault f => rw [hr] at hs; exact hs.elim
  | outOfFuel =>
    rw [hr] at hs
    have : fuel ≤ Proofs.Interp.measure _ := hs
    omega

/-- a state the loop passes through between two instructions of the EOF frame -/
abbrev ReachableEof (s : IState) (h : η) : Prop :=
  Reach o (frameEof ctx input gasLimit isStatic spec target caller callValue env mem isInit) h0 s h

/-- **EOF: the instruction pointer stays inside the current code section**: in every reachable state the running
code is code section `current_code_idx` of the container the frame started with, and `pc` is inside it -/
theorem pc_in_section_eof (ha : AdmissibleEof ctx input gasLimit spec env mem) {s : IState} {h : η}
    (hr : ReachableEof o h0 ctx input gasLimit isStatic spec target caller callValue env mem isInit s h) :
    ∃ c, s.eof = some c ∧ ctx.sections[c.curIdx]? = some s.code ∧ s.pc < s.code.length := by
  have hi := (reachE_inv ctx o ho
    (frameEof_inv ctx input gasLimit isStatic spec target caller callValue env mem isInit ha).1 hr).1
  obtain ⟨c, he, hc⟩ := hi.code_eq
  exact ⟨c, he, hc, hi.pc_lt⟩

/-- **EOF: the return stack stays ≤ 1024** (and the operand stack as well) -/
theorem return_stack_bounded_eof (ha : AdmissibleEof ctx input gasLimit spec env mem) {s : IState} {h : η}
    (hr : ReachableEof o h0 ctx input gasLimit isStatic spec target caller callValue env mem isInit s h) :
    (∃ c, s.eof = some c ∧ c.curIdx < c.sections.length ∧ c.retStack.length ≤ 1024) ∧ s.stack.length ≤ 1024 := by
  have hi := (reachE_inv ctx o ho
    (frameEof_inv ctx input gasLimit isStatic spec target caller callValue env mem isInit ha).1 hr).1
  exact ⟨hi.retStack_le, hi.stack⟩

/-- **EOF: no instruction in a reachable state faults**, whatever the host answers -/
theorem step_never_faults_eof (ha : AdmissibleEof ctx input gasLimit spec env mem) {s : IState} {h : η}
    (hr : ReachableEof o h0 ctx input gasLimit isStatic spec target caller callValue env mem isInit s h)
    (f : Fault) : ¬ StepFaults s f := by
  have hi := (reachE_inv ctx o ho
    (frameEof_inv ctx input gasLimit isStatic spec target caller callValue env mem isInit ha).1 hr).1
  have hg := stepE_good ctx s hi
  rintro (e | ⟨op, k, r, e, hr, ek⟩)
  · rw [e] at hg
    cases hg with
    | pure hd => cases hd
  · rw [e] at hg
    cases hg with
    | host hk => have := hk r hr; rw [ek] at this; cases this

/-- EOF: the meter never shows more than the limit -/
theorem gas_within_limit_eof (ha : AdmissibleEof ctx input gasLimit spec env mem) {s : IState} {h : η}
    (hr : ReachableEof o h0 ctx input gasLimit isStatic spec target caller callValue env mem isInit s h) :
    s.gas.remaining ≤ gasLimit := by
  obtain ⟨hi, hm⟩ := frameEof_inv ctx input gasLimit isStatic spec target caller callValue env mem isInit ha
  have h1 := (reachE_inv ctx o ho hi hr).2
  have h2 : Proofs.Interp.measure s = s.gas.remaining + mcost s := rfl
  omega

end

/-- non-vacuity: `CALLF 1; STOP` / `PUSH0; RJUMPI +1; RETF; RETF`-shaped two-section container is well-formed -/
example : AdmissibleEof
    { sections := [[0xe3, 0x00, 0x01, 0x00], [0x5f, 0xe1, 0x00, 0x01, 0xe4, 0xe4]],
      types := [(0, 0x80, 0), (0, 0, 1)], data := [1, 2], dataSize := 2 } [0xaa] 100000 19 {} Memory.new :=
  ⟨wfCtx_of_check _ (by decide), by unfold Memory.ISIZE_MAX; decide, by rw [U64_val]; decide, fun _ => by decide, freshMem_new⟩

/-! ### the tie to validation (C26) -/

/-- **What C26 gives, formally (partial).** `ctxOf e` is the interpreter's view of the decoded container. For every
container `validate_raw_eof_inner` accepts (C26: `validateRaw_deep`, `validated_in_range_partial`): at least one code
section, as many type entries as sections, data within `isize::MAX`, every byte a byte, every sub-container decodes,
and at EVERY instruction boundary of C25's own scan of every code section (`boundaries`, shown to visit only
instruction starts of C26's linear decoding) `InRange` holds: the immediates lie inside the section, CALLF / JUMPF
name an existing section, EOFCREATE / RETURNCONTRACT name an existing sub-container, every RJUMP / RJUMPI / RJUMPV
target is a byte of the section, the instruction is not CODESIZE / CODECOPY. The two opcode tables (C25's `decode`,
C26's `opInfo`) are compared entry by entry (`opcode_tables_agree`). Partial: this is the in-range half of `WfCtx`;
the whole is `validation_gives_wf` below. -/
theorem validated_wf_partial (bs : List Nat) (t : Option EofValidate.CodeType) (e : Eof.Eof) (hbs : Eof.IsBytes bs)
    (h : EofValidate.validateRawEofInner bs t = .ok e) :
    0 < (ctxOf e).sections.length ∧ (ctxOf e).types.length = (ctxOf e).sections.length ∧
    (ctxOf e).data.length ≤ Memory.ISIZE_MAX ∧
    (∀ (k : Nat) (sec : List Nat), (ctxOf e).sections[k]? = some sec →
      (∀ b ∈ sec, b < 256) ∧
      ∀ i ∈ boundaries sec, i < sec.length ∧ InRange (ctxOf e).types.length (ctxOf e).containers.length sec i) ∧
    (∀ sub ∈ (ctxOf e).containers, ∃ e', Eof.Eof.decode sub = .ok e') :=
  validated_inRange hbs h

/-- **Validation gives well-formedness** (formerly the named gap of the EOF half; now proved). Whatever
`validate_raw_eof_inner` accepts satisfies `WfCtx`, the hypothesis of the EOF theorems above. Ingredients:
* C26: `validateRaw_deep` (in-range facts, `validated_wf_partial`), `section_jumps_on_starts` /
  `validate_ok_no_jump_into_immediate` (relative jumps land on instruction starts);
* `Proofs/EofFlow.lean` (loop invariants of `validate_eof_code`): no section runs off its end — every instruction is
  followed by an instruction of the section unless its opcode is terminating (`is_after_termination` at the end of the
  loop, `LastInstructionNotTerminating`); a section typed non-returning contains neither RETF nor a JUMPF to a
  returning section (`NonReturningSectionIsReturning`);
* `Proofs/EofSubs.lean`, `Proofs/EofTop.lean` (the access tracker): the first section is non-returning; the
  sub-container of every EOFCREATE is recorded as `ReturnContract`, is then validated as such by
  `validate_eof_inner`, hence has its data section filled; the sub-container of a RETURNCONTRACT decodes, so its
  header does and `data_size_raw_i() + 2` is inside it;
* `Proofs/InterpEofC26.lean`: C25's instruction scan and C26's linear decoding visit the same offsets, the two opcode
  tables agree (immediate sizes, terminating flags, the container-related opcodes). -/
theorem validation_gives_wf (bs : List Nat) (t : Option EofValidate.CodeType) (e : Eof.Eof) (hbs : Eof.IsBytes bs)
    (h : EofValidate.validateRawEofInner bs t = .ok e) : WfCtx (ctxOf e) :=
  validated_wf hbs h

/-- what is left between the theorems and the compiled code is no longer a Lean statement: that
`Model.EofValidate` is `analysis.rs` (C26's correspondence stream) and `Model.Interp` is the interpreter (the lockstep
stream of this property, which also evaluates `wfCtxB` on every container the real validator accepts). Kept as a
definition so that the dependency is explicit: the statement `validation_gives_wf` proves. -/
def ValidationGivesWf' : Prop :=
  ∀ (bs : List Nat) (t : Option EofValidate.CodeType) (e : Eof.Eof), Eof.IsBytes bs →
    EofValidate.validateRawEofInner bs t = .ok e → WfCtx (ctxOf e)

theorem validationGivesWf' : ValidationGivesWf' := validation_gives_wf

/-- C25 for EOF as claimed: for any EOF container that passes validation, execution ends with a defined outcome
within the gas limit (and never faults). Proved: `fullStatementEof`. -/
def FullStatementEof : Prop :=
  ∀ {η : Type} (o : Oracle η), OracleOk o → ∀ (h0 : η) (bs : List Nat) (t : Option EofValidate.CodeType)
    (e : Eof.Eof), Eof.IsBytes bs → EofValidate.validateRawEofInner bs t = .ok e →
  ∀ (input : List Nat) (gasLimit : Nat) (isStatic : Bool) (spec target caller callValue : Nat) (env : Env)
    (isInit : Bool),
    input.length ≤ Memory.ISIZE_MAX → gasLimit < U64 → EnvOk spec env →
  ∀ fuel, gasLimit < fuel →
    ∃ r out s', (run o fuel (IState.initEof (ctxOf e) input gasLimit isStatic spec target caller callValue env
        Memory.new isInit) h0).1 = .done r out s' ∧ s'.gas.remaining ≤ gasLimit

/-- the EOF half of C25 from "validation gives well-formedness" -/
theorem fullStatementEof_of_gap (hgap : ValidationGivesWf') : FullStatementEof := by
  intro η o ho h0 bs t e hb hv input gasLimit isStatic spec target caller callValue env isInit hil hg henv fuel hf
  exact ends_within_gas_eof o ho h0 (ctxOf e) input gasLimit isStatic spec target caller callValue env Memory.new
    isInit ⟨hgap bs t e hb hv, hil, hg, henv, freshMem_new⟩ fuel hf

/-- **the EOF half of C25**: every container that passes validation runs to a defined outcome within the gas limit,
for every calldata, gas limit, host and child-frame behaviour -/
theorem fullStatementEof : FullStatementEof := fullStatementEof_of_gap validationGivesWf'

/-- and it never faults, with the instruction pointer inside the current section and the return stack ≤ 1024 -/
theorem validated_eof_safe {η : Type} (o : Oracle η) (ho : OracleOk o) (h0 : η) (bs : List Nat)
    (t : Option EofValidate.CodeType) (e : Eof.Eof) (hbs : Eof.IsBytes bs)
    (hv : EofValidate.validateRawEofInner bs t = .ok e)
    (input : List Nat) (gasLimit : Nat) (isStatic : Bool) (spec target caller callValue : Nat) (env : Env)
    (isInit : Bool) (hil : input.length ≤ Memory.ISIZE_MAX) (hg : gasLimit < U64) (henv : EnvOk spec env) :
    (∀ fuel f, (run o fuel (IState.initEof (ctxOf e) input gasLimit isStatic spec target caller callValue env
        Memory.new isInit) h0).1 ≠ .fault f) ∧
    ∀ s h, Reach o (IState.initEof (ctxOf e) input gasLimit isStatic spec target caller callValue env
        Memory.new isInit) h0 s h →
      (∃ c, s.eof = some c ∧ (ctxOf e).sections[c.curIdx]? = some s.code ∧ s.pc < s.code.length ∧
        c.retStack.length ≤ 1024) ∧ ∀ f, ¬ StepFaults s f := by
  have ha : AdmissibleEof (ctxOf e) input gasLimit spec env Memory.new :=
    ⟨validation_gives_wf bs t e hbs hv, hil, hg, henv, freshMem_new⟩
  refine ⟨fun fuel f => no_panic_eof o ho h0 _ input gasLimit isStatic spec target caller callValue env Memory.new
    isInit ha fuel f, fun s h hr => ?_⟩
  obtain ⟨c, hc, hsec, hpc⟩ := pc_in_section_eof o ho h0 _ input gasLimit isStatic spec target caller callValue env
    Memory.new isInit ha hr
  obtain ⟨⟨c', hc', _, hrs⟩, _⟩ := return_stack_bounded_eof o ho h0 _ input gasLimit isStatic spec target caller
    callValue env Memory.new isInit ha hr
  rw [hc] at hc'
  have e1 := Option.some.inj hc'
  subst e1
  exact ⟨⟨c, hc, hsec, hpc, hrs⟩, fun f => step_never_faults_eof o ho h0 _ input gasLimit isStatic spec target
    caller callValue env Memory.new isInit ha hr f⟩

/-- without validation the statement is false: a relative jump may leave the section (here RJUMP +16 in a
4-byte section; the next fetch is outside the buffer) -/
theorem eof_unvalidated_counterexample :
    (run nullOracle 10
      (IState.initEof { sections := [[0xe0, 0x00, 0x10, 0x00]], types := [(0, 0x80, 0)], data := [], dataSize := 0 }
        [] 1000 false 19 0 0 0 {}) ()).1 = .fault .oobCode := by
  rfl

end Revm.Props.C25
