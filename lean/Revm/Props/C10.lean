import Revm.Gen.Tables
import Revm.Gen.StaticTable
import Revm.Proofs.StaticTable
import Revm.Proofs.StaticFrame
/-! C10 — static calls cannot change state.

"While a frame executes in static mode (directly or inherited through nested calls), every attempt to write
storage or transient storage, emit a log, create a contract, self-destruct, or call with non-zero value fails
that frame, and the world state at the end of the static call equals the state at its start apart from
warm/cold access status."

Three layers, each tied to the code in its own way:

1. **The guard, exhaustively** (`static_guard_table`, `static_guard`, …): `Revm.Gen.staticTable` is regenerated
   on every run by executing every opcode byte × every SpecId × {legacy, EOF} × {zero, one} stack fill on the
   real `Interpreter` with `is_static = true` and a recording host; the kernel re-checks
   (`decide +kernel`, whole table) that no entry reaches a mutating host call or emits a create / value-call /
   non-static call action, and that the guarded opcodes give exactly what `Model.Static.guardResult` /
   `stepStatic` say.
2. **Inheritance** (`static_inherited`, `static_inherited_table`): the child flag written by the seven call
   handlers, ∀ schemes and parent flags, and as observed on the real handlers.
3. **Frames** (`static_ops_preserve_world`, `static_frame_state_equal`): on the journal model, every history
   of the operations that remain possible under 1 + 2 — of any length, with any nesting of checkpoints,
   commits and reverts of checkpoints taken inside the frame — leaves the world state (balances, nonces, code
   hashes, created / selfdestructed flags, original and present storage, transient storage, logs) equal to
   the one at the start. Warm/cold status and touch marks are excluded (DESIGN section 8).

Reading fixed in DESIGN section 8: "call with non-zero value" = CALL and EXTCALL; CALLCODE with value is allowed
in a static frame (its transfer has caller = target) and is part of the allowed histories of layer 3. -/
namespace Revm.Props.C10
open Revm Revm.Model.Journal Revm.Spec.JournalAbs Revm.Model.Static Revm.Proofs.Static

/-! ## 1. the guard -/

/-- the dump is complete: every SpecId × {legacy, EOF} × {fill 0, fill 1}, in order -/
theorem static_table_complete :
    Gen.staticTable.map (fun r => (r.1, r.2.1, r.2.2.1)) =
      Gen.specIds.flatMap (fun s => [(s, 0, 0), (s, 0, 1), (s, 1, 0), (s, 1, 1)]) ∧
    Gen.staticChild.map (fun r => (r.1, r.2.1, r.2.2.1, r.2.2.2.1)) =
      Gen.specIds.flatMap (fun s => [0, 1].flatMap fun e => [0, 1].flatMap fun p => callOps.map fun op => (s, e, p, op)) := by
  decide +kernel

/-- every row of the regenerated table passes the check `rowOk` (see `row_spec` for what that means) -/
theorem static_guard_table : Gen.staticTable.all rowOk = true := by
  decide +kernel

/-- **No opcode mutates in static mode.** For every SpecId, code kind, stack fill and opcode byte: the entry
is "not executed" (999: the opcode is rejected by EOF validation, EOF rows only) or the recording host saw no
`sstore` / `tstore` / `log` / `selfdestruct` (`mut = 0`) and the instruction emitted no action (0), or a call
with value 0 and `is_static = true` (1), or a CALLCODE with value and `is_static = true` (6) — never a
Create (3), EOFCreate (4), value CALL / EXTCALL (2) or a call that lost the static flag (5). -/
theorem static_no_mutation (spec eof fill : Nat) (codes : List Nat) (h : (spec, eof, fill, codes) ∈ Gen.staticTable)
    (op : Nat) (hop : op < 256) :
    codes.getD op 999 = 999 ∨ (codeMut (codes.getD op 999) = 0 ∧
      (codeAct (codes.getD op 999) = 0 ∨ codeAct (codes.getD op 999) = 1 ∨ codeAct (codes.getD op 999) = 6)) :=
  (row_spec (List.all_eq_true.mp static_guard_table _ h) op hop).1

/-- **The guarded opcodes behave as the model says** (SSTORE, TSTORE, LOG0–4, CREATE, CREATE2, SELFDESTRUCT,
EOFCREATE): what precedes `require_non_staticcall!` in the handler (`check!(CANCUN)` for TSTORE,
`require_eof!` for EOFCREATE, nothing for the others — in particular not CREATE2's fork check), then
`StateChangeDuringStaticCall` (1). -/
theorem static_guard (spec eof fill : Nat) (codes : List Nat) (h : (spec, eof, fill, codes) ∈ Gen.staticTable)
    (op : Nat) (hop : op < 256) (hg : guarded op = true) :
    codes.getD op 999 = 999 ∨ codeRes (codes.getD op 999) = resCode (guardResult spec (Nat.beq eof 1) op) :=
  (row_spec (List.all_eq_true.mp static_guard_table _ h) op hop).2.1 hg

/-- legacy code: a guarded opcode that exists under `spec` (hand-written EIP activation table of C05) is executed
and yields `StateChangeDuringStaticCall` -/
theorem static_guard_legacy (spec fill : Nat) (codes : List Nat) (h : (spec, 0, fill, codes) ∈ Gen.staticTable)
    (op : Nat) (hop : op < 256) (hg : guarded op = true) (hex : Spec.Activation.undefinedIn spec op = false) :
    codeRes (codes.getD op 999) = 1 := by
  have hr := row_spec (List.all_eq_true.mp static_guard_table _ h) op hop
  rcases hr.2.1 hg with h9 | hres
  · exact absurd h9 (hr.2.2.2.1 rfl)
  · have h0 : Nat.beq 0 1 = false := rfl
    rw [h0, guardResult_legacy_exists hg hex] at hres
    exact hres

/-- EOF code from OSAKA on: SSTORE, TSTORE, LOG0–4 and EOFCREATE (the guarded opcodes EOF validation admits) are
executed and yield `StateChangeDuringStaticCall` -/
theorem static_guard_eof (spec fill : Nat) (codes : List Nat) (h : (spec, 1, fill, codes) ∈ Gen.staticTable)
    (hs : OSAKA ≤ spec) (op : Nat) (hop : op < 256) (hg : guarded op = true) (hm : op ∈ eofExecuted) :
    codeRes (codes.getD op 999) = 1 := by
  have hr := row_spec (List.all_eq_true.mp static_guard_table _ h) op hop
  rcases hr.2.1 hg with h9 | hres
  · exact absurd h9 (hr.2.2.2.2 rfl hm)
  · have h1 : Nat.beq 1 1 = true := rfl
    rw [h1, guardResult_eof_osaka hs] at hres
    exact hres

/-- **The call family behaves as `stepStatic` says** on the probe (17 equal stack words `fill`, ample gas):
with `fill = 1` CALL (legacy) and EXTCALL (EOF) carry value 1 and end in `CallNotAllowedInsideStatic`, CALLCODE
emits its action with `is_static = true`; with `fill = 0` all seven emit a call with value 0 and
`is_static = true`; fork / code-kind gates as in the handlers. -/
theorem static_call_family (spec eof fill : Nat) (codes : List Nat) (h : (spec, eof, fill, codes) ∈ Gen.staticTable)
    (op : Nat) (hop : op < 256) (hc : op ∈ callOps) :
    codes.getD op 999 = 999 ∨ codes.getD op 999 = expectedCall spec (Nat.beq eof 1) fill op :=
  (row_spec (List.all_eq_true.mp static_guard_table _ h) op hop).2.2.1 hc

/-- the model's verdict on the two value calls, for every fork: the guard (2 = CallNotAllowedInsideStatic) -/
theorem value_call_rejected (spec : Nat) :
    expectedCall spec false 1 0xf1 = 200 ∧ expectedCall spec true 1 0xf8 = 200 := by
  constructor <;> rfl

/-- model level, all inputs: in static mode CALL with a non-zero value and at least three stack words fails
with `CallNotAllowedInsideStatic` whatever the gas, the fork and the rest of the stack; EXTCALL with a
non-zero value never emits an action (it fails with the guard or with an earlier check) -/
theorem value_call_never_passes (spec gas g to v : Nat) (rest : List Nat) (eof : Bool) (hv : v ≠ 0) :
    stepStatic spec eof 0xf1 gas (g :: to :: v :: rest) = some { res := .callNotAllowed } ∧
    ∀ t off len, ∃ r, stepStatic spec eof 0xf8 gas (t :: off :: len :: v :: rest) = some { res := r } ∧
      r ≠ .callOrCreate := by
  refine ⟨by simp [stepStatic, guarded, isMutatingHostOp, isCreateOp, hv], fun t off len => ?_⟩
  simp only [stepStatic, guarded, isMutatingHostOp, isCreateOp]
  cases eof <;> simp
  · by_cases h1 : 2 ^ 160 ≤ t
    · simp [h1]
    · by_cases h2 : len ≠ 0 ∧ gas < memCost (off + len)
      · simp [h1, h2]
      · simp only [h1, if_false, h2, hv]
        simp

/-- model level, all inputs: a guarded opcode in static mode never depends on stack or gas and never emits an
action -/
theorem static_step_no_mutation (spec gas op : Nat) (eof : Bool) (stack : List Nat) (hg : guarded op = true) :
    stepStatic spec eof op gas stack = some { res := guardResult spec eof op } := by
  simp [stepStatic, hg]

/-- model level, all inputs: whatever `stepStatic` returns is not a mutating action -/
theorem static_step_actions (spec gas op : Nat) (eof : Bool) (stack : List Nat) (o : StepOut)
    (h : stepStatic spec eof op gas stack = some o) : o.mutatingAction = false := by
  by_cases hg : guarded op = true
  · rw [static_step_no_mutation spec gas op eof stack hg] at h
    simp only [Option.some.injEq] at h; subst h; rfl
  · have hg' : guarded op = false := by simpa using hg
    simp only [stepStatic, hg', Bool.false_eq_true, if_false] at h
    repeat' split at h
    all_goals first
      | (simp only [Option.some.injEq] at h; subst h; simp [StepOut.mutatingAction, emit, childIsStatic])
      | cases h

/-! ## 2. inheritance -/

/-- **The static flag is inherited.** For every call scheme and parent flag the child's `is_static` is the
parent's, or the scheme is STATICCALL / EXTSTATICCALL (which set it); in particular no scheme clears it. -/
theorem static_inherited (s : Scheme) (parent : Bool) :
    (childIsStatic s parent = parent ∨ s = .staticCall ∨ s = .extStaticCall) ∧ childIsStatic s true = true := by
  cases s <;> simp [childIsStatic]

/-- the same, observed on the real handlers: for every SpecId, code kind, parent flag and call opcode the
`CallInputs.is_static` of the emitted action is `childIsStatic`; and whenever the opcode exists in that
fork / code kind an action was emitted (so the flag was observed) -/
theorem static_inherited_table : Gen.staticChild.all childOk = true := by
  decide +kernel

/-! ## from instructions to journal operations -/

/-- the `Host` calls of the unguarded state-reading opcodes (BALANCE, SELFBALANCE, EXTCODESIZE / EXTCODECOPY /
EXTCODEHASH, SLOAD, TLOAD) are operations the frame theorem allows, for every frame address and argument -/
theorem static_instr_ops_allowed (base op : Nat) (self : Addr) (arg : Nat) :
    allowedAll base (readOps op self arg) = true := by
  unfold readOps
  repeat' split
  all_goals simp [allowedAll, allowed]

/-- **Every call action a static instruction can emit leads `make_call_frame` only to allowed operations**: for
all stacks, gas values and forks, if `stepStatic` emits a call with scheme `s` from the frame running as `self`
towards `to` with a 256-bit `value` (zero exactly when the model says so), then `load_account_delegated`,
`checkpoint`, the touch (value 0) or the transfer (CALLCODE: `self → self`), and `load_code` are all allowed —
a CALL / EXTCALL with value never gets here. -/
theorem static_action_ops_allowed (base spec gas op : Nat) (eof : Bool) (stack : List Nat) (o : StepOut) (a : Act)
    (h : stepStatic spec eof op gas stack = some o) (ha : o.act = some a)
    (self to : Addr) (value : Nat) (hv : value < W) (hz : a.valueZero = decide (value = 0)) :
    allowedAll base (callFrameOps a.scheme self to value) = true := by
  have hsafe := static_step_actions spec gas op eof stack o h
  simp only [StepOut.mutatingAction, ha] at hsafe
  by_cases hv0 : value = 0
  · subst hv0
    cases hsch : a.scheme <;> simp [callFrameOps, allowedAll, allowed]
  · have hz' : a.valueZero = false := by simp [hz, hv0]
    cases hsch : a.scheme <;> simp_all [callFrameOps, allowedAll, allowed]

/-! ## 3. frames -/

/-- **Every operation left to a static frame preserves the world state.** `allowed` lists them (loads, SLOAD,
TLOAD, touch, zero-value / self transfers, checkpoint, commit, revert of a checkpoint of the frame). -/
theorem static_ops_preserve_world (db : Db) (r r' : Run) (op : Op) (hbal : BalOk db r.js)
    (ha : allowed r.cps.length op = true) (h : step db r op = some r') : WorldEq db r'.js r.js :=
  (inv_step hbal (inv_init db r) ha h).world

/-- **The world state at the end of a static frame equals the world state at its start.** For every database,
every starting state, and every history `ops` — of any length and any nesting — made of the operations a
static frame can cause (`allowedAll` with `base` = number of checkpoints that existed when the frame started:
nested frames open checkpoints and close them by commit or revert; no balance condition is needed, so
unbalanced histories are covered as well): if the history runs without a Rust panic (`run = some`), the
world state is unchanged. -/
theorem static_frame_state_equal (db : Db) (r r' : Run) (ops : List Op) (hbal : BalOk db r.js)
    (hops : allowedAll r.cps.length ops = true) (hrun : run db r ops = some r') : WorldEq db r'.js r.js :=
  (inv_run hbal ops r r' (inv_init db r) hops hrun).world

/-- the shape `make_call_frame` … `call_return` gives a static call: `checkpoint`, the frame's history, then
`checkpoint_commit` (ok result) or `checkpoint_revert` of that checkpoint (revert / error result, e.g. after
`StateChangeDuringStaticCall`) -/
theorem static_call_state_equal (db : Db) (r r' : Run) (ops : List Op) (close : Op) (hbal : BalOk db r.js)
    (hops : allowedAll (r.cps.length + 1) ops = true) (hclose : close = .commit ∨ close = .revert r.cps.length)
    (hrun : run db r (.checkpoint :: ops ++ [close]) = some r') : WorldEq db r'.js r.js := by
  refine static_frame_state_equal db r r' _ hbal ?_ hrun
  simp only [allowedAll, List.all_cons, List.all_append, List.all_nil, Bool.and_true, Bool.and_eq_true]
  refine ⟨⟨rfl, ?_⟩, ?_⟩
  · exact List.all_eq_true.mpr fun op hm => allowed_mono (List.all_eq_true.mp hops op hm)
  · rcases hclose with h | h <;> subst h <;> simp [allowed]

/-! ## non-vacuity -/

/-- a database with one funded contract (address 5) and a state at CANCUN with nothing loaded -/
def exDb : Db :=
  { basic := fun a => if a = 5 then some { balance := 1000, nonce := 1, codeHash := 77, code := none } else none,
    storage := fun a k => if a = 5 ∧ k = 1 then 9 else 0, delegate := fun _ => none }
def exRun : Run := { js := JState.new 17 (fun a => a = 4), cps := [] }

/-- a static frame that reads (cold and warm), touches, makes a CALLCODE-style self transfer of 3 wei, and runs
two nested frames of which one is reverted -/
def exOps : List Op :=
  [.checkpoint, .loadDelegated 5, .load 5, .sload 5 1, .sload 5 2, .tload 5 0, .touch 5, .transfer 5 5 3,
   .checkpoint, .load 9, .touch 9, .transfer 5 9 0, .revert 1,
   .checkpoint, .loadCode 4, .commit, .revert 0]

example : BalOk exDb exRun.js := by
  intro a
  by_cases h : a = 5
  · subst h; decide
  · have : 0 < W := by rw [W_val]; decide
    simpa [worldAcct, absAcct, exRun, JState.new, exDb, h, Info.default] using this

example : allowedAll exRun.cps.length exOps = true := by decide
example : (run exDb exRun exOps).isSome = true := by decide +kernel
/-- the example history really changes the concrete state (address 5 is now in the state map) -/
example : ((run exDb exRun exOps).map fun r => (r.js.state 5).isSome) = some true := by decide +kernel
example : guarded 0x55 = true ∧ Spec.Activation.undefinedIn 17 0x5d = false ∧ 0xec ∈ eofExecuted := by decide
example : stepStatic 17 false 0xf1 0 [0, 0xb0, 1] = some { res := .callNotAllowed } := by decide
/-- CALLCODE with value 3 in a static frame: an action is emitted and its frame operations are allowed -/
example : (stepStatic 17 false 0xf2 0 [0, 0xb0, 3, 0, 0, 0, 0]).map (·.act.isSome) = some true ∧
    callFrameOps .callCode 5 0xb0 3 = [.loadDelegated 0xb0, .checkpoint, .transfer 5 5 3, .loadCode 0xb0] := by decide
example : (Gen.staticTable.filter (fun r => r.1 = 17)).length = 4 := by decide +kernel

end Revm.Props.C10
