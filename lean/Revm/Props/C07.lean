import Revm.Proofs.FrameLoop
/-! C07 — every call / create / eofcreate frame returns with the journal depth it started from, whatever
its outcome; consequently nesting reaches exactly 1024 levels below the transaction frame, whatever
happened earlier in the transaction.

Model: `Revm/Model/Frame.lean` (checkpoint discipline of `make_call_frame`, `make_create_frame`,
`make_eofcreate_frame`, `call_return`, `create_return`, `eofcreate_return`, `run_the_loop`) over the journal
model. All theorems quantify over every journal state, every input and every oracle answer (precompile
result, code class, created address, has_storage, interpreter result, deposit gas, output size / first byte),
i.e. over every program. `= some …` excludes Rust panics (`none`) only; `.fatal` is `Err(EVMError)`, which
aborts the transaction (no frame result exists). -/
namespace Revm.Props.C07
open Revm Revm.Model.Journal Revm.Model.Frame Revm.Proofs.Frame

/-! ### frames are depth-neutral -/

/-- `make_call_frame`: an immediate result (CallTooDeep, OutOfFunds / OverflowPayment, precompile ok / OOG /
error, InvalidExtDelegateCallTarget, Stop on empty code) leaves the depth unchanged; an opened frame, once
`call_return` runs on a state of the same depth as right after frame creation (what the loop invariant gives),
returns to the depth before the call - for every result of the frame. -/
theorem frame_depth_neutral_call (db : Db) (s s1 : JState) (inp : CallInputs) (o : CallOracle) (r : FrameOrResult)
    (h : makeCallFrame db s inp o = some (s1, r)) :
    (∀ res, r = .result res → s1.depth = s.depth) ∧
    (∀ cp, r = .frame cp → ∀ (s2 s3 : JState) (ok : Bool),
        s2.depth = s1.depth → callReturn s2 cp ok = some s3 → s3.depth = s.depth) := by
  have hd := makeCallFrame_depth h
  constructor
  · intro res hr; subst hr; exact hd
  · intro cp hr s2 s3 ok h2 h3; subst hr
    simp only [DepthAfter] at hd
    rw [callReturn_depth h3, h2, hd, dec_inc]

/-- `make_create_frame` + `create_return`, every path (depth, EF00 init code, OutOfFunds, nonce overflow,
precompile address, collision, balance overflow; result not ok, EF first byte, size limit, deposit failure
before / after Homestead, success) -/
theorem frame_depth_neutral_create (db : Db) (s s1 : JState) (spec : Nat) (inp : CreateInputs) (o : CreateOracle)
    (r : FrameOrResult) (a : Addr) (h : makeCreateFrame db s spec inp o = some (s1, r, a)) :
    (∀ res, r = .result res → s1.depth = s.depth) ∧
    (∀ cp, r = .frame cp → ∀ (s2 s3 : JState) (ret : CreateRet) (res : IRes),
        s2.depth = s1.depth → createReturn s2 spec cp a ret = some (s3, res) → s3.depth = s.depth) := by
  have hd := makeCreateFrame_depth h
  constructor
  · intro res hr; subst hr; exact hd
  · intro cp hr s2 s3 ret res h2 h3; subst hr
    simp only [DepthAfter] at hd
    rw [createReturn_depth h3, h2, hd, dec_inc]

/-- `make_eofcreate_frame` + `eofcreate_return`, every path (EOFCREATE opcode and EOF create transaction) -/
theorem frame_depth_neutral_eofcreate (db : Db) (s s1 : JState) (spec : Nat) (inp : CreateInputs) (kind : EofCreateKind)
    (o : CreateOracle) (r : FrameOrResult) (a : Addr) (h : makeEofCreateFrame db s spec inp kind o = some (s1, r, a)) :
    (∀ res, r = .result res → s1.depth = s.depth) ∧
    (∀ cp, r = .frame cp → ∀ (s2 s3 : JState) (ret : EofCreateRet) (res : IRes),
        s2.depth = s1.depth → eofcreateReturn s2 cp a ret = some (s3, res) → s3.depth = s.depth) := by
  have hd := makeEofCreateFrame_depth h
  constructor
  · intro res hr; subst hr; exact hd
  · intro cp hr s2 s3 ret res h2 h3; subst hr
    simp only [DepthAfter] at hd
    rw [eofcreateReturn_depth h3, h2, hd, dec_inc]

/-- nothing an interpreter does through `Host` between two frame actions moves the depth -/
theorem host_op_depth_neutral (db : Db) (s s' : JState) (op : HostOp) (h : hostStep db s op = some s') :
    s'.depth = s.depth := hostStep_depth h

/-! ### the loop invariant -/

/-- one iteration of `run_the_loop` keeps `depth = call_stack.len()`, `1 ≤ len ≤ 1025`; when the first frame
returns the depth is 0 -/
theorem loop_step_invariant (db : Db) (spec : Nat) (l : Loop) (a : Action) (out : StepOut)
    (hi : Inv l) (h : step db spec l a = some out) : OutInv out := step_inv hi h

/-- `run_the_loop` over ANY list of actions (any program, any number of steps), from any state satisfying the
invariant -/
theorem loop_depth_invariant_from (db : Db) (spec : Nat) (l : Loop) (prog : List Action) (out : StepOut)
    (hi : Inv l) (h : run db spec l prog = some out) : OutInv out := run_inv prog hi h

/-- a whole transaction body: from the transaction-level journal (depth 0), first frame, then the loop over
any program: while it runs `depth = call_stack.len()` (the first frame runs at depth 1), and when it ends the
depth is 0 again -/
theorem loop_depth_invariant (db : Db) (spec : Nat) (s : JState) (f : FirstFrame) (prog : List Action) (out : StepOut)
    (h0 : s.depth = 0) (h : transactFrames db spec s f prog = some out) :
    (∀ l, out = .running l → l.js.depth = l.stack.length ∧ 1 ≤ l.stack.length ∧ l.stack.length ≤ CALL_STACK_LIMIT + 1) ∧
    (∀ js r, out = .done js r → js.depth = 0) := by
  have := transactFrames_inv h0 h
  constructor
  · intro l hl; subst hl; exact this
  · intro js r hl; subst hl; exact this

/-! ### exactly 1024 levels, independent of history -/

/-- a loop state that some transaction (any first frame, any program prefix: any number of completed,
reverted, halted, refused calls and creates) reaches from a depth-0 journal -/
def Reachable (db : Db) (spec : Nat) (l : Loop) : Prop :=
  ∃ (s : JState) (f : FirstFrame) (prog : List Action), s.depth = 0 ∧ transactFrames db spec s f prog = some (.running l)

theorem reachable_inv {db : Db} {spec : Nat} {l : Loop} (h : Reachable db spec l) : Inv l := by
  obtain ⟨s, f, prog, h0, ht⟩ := h
  exact transactFrames_inv h0 ht

/-- the number of frames below the transaction frame -/
def level (l : Loop) : Nat := l.stack.length - 1

/-- in every reachable state a CALL-family action is refused with CallTooDeep iff the calling frame is
exactly 1024 levels below the transaction frame - a statement about the number of OPEN frames only, not about
the history of completed siblings; and reachable frames never sit deeper than that -/
theorem max_depth (db : Db) (spec : Nat) (l : Loop) (inp : CallInputs) (o : CallOracle) (s' : JState) (r : FrameOrResult)
    (hr : Reachable db spec l) (h : makeCallFrame db l.js inp o = some (s', r)) :
    (r = .result .callTooDeep ↔ level l = CALL_STACK_LIMIT) ∧ level l ≤ CALL_STACK_LIMIT := by
  obtain ⟨h1, h2, h3⟩ := reachable_inv hr
  simp only [level]
  refine ⟨⟨fun hc => ?_, fun hl => ?_⟩, by omega⟩
  · subst hc
    have := makeCallFrame_tooDeep h
    omega
  · exact (makeCallFrame_deep h (by omega)).1

/-- the same for CREATE / CREATE2 -/
theorem max_depth_create (db : Db) (spec : Nat) (l : Loop) (inp : CreateInputs) (o : CreateOracle) (s' : JState)
    (r : FrameOrResult) (a : Addr)
    (hr : Reachable db spec l) (h : makeCreateFrame db l.js spec inp o = some (s', r, a)) :
    (r = .result .callTooDeep ↔ level l = CALL_STACK_LIMIT) := by
  obtain ⟨h1, h2, h3⟩ := reachable_inv hr
  simp only [level]
  refine ⟨fun hc => ?_, fun hl => ?_⟩
  · subst hc
    have := makeCreateFrame_tooDeep h
    omega
  · exact (makeCreateFrame_deep h (by omega)).1

/-- the same for the EOFCREATE opcode -/
theorem max_depth_eofcreate (db : Db) (spec : Nat) (l : Loop) (inp : CreateInputs) (created : Addr) (o : CreateOracle)
    (s' : JState) (r : FrameOrResult) (a : Addr)
    (hr : Reachable db spec l) (h : makeEofCreateFrame db l.js spec inp (.opcode created) o = some (s', r, a)) :
    (r = .result .callTooDeep ↔ level l = CALL_STACK_LIMIT) := by
  obtain ⟨h1, h2, h3⟩ := reachable_inv hr
  simp only [level]
  refine ⟨fun hc => ?_, fun hl => ?_⟩
  · subst hc
    have := makeEofCreateFrame_tooDeep h
    omega
  · exact (makeEofCreateFrame_deep h (by omega) (by intro d v f hk; cases hk)).1

/-- a frame is opened only when the caller is fewer than 1024 levels below the transaction frame, and the new
frame is one level deeper -/
theorem frame_opens_one_level_deeper (db : Db) (spec : Nat) (l : Loop) (a : Action) (l' : Loop)
    (hr : Reachable db spec l) (h : step db spec l a = some (.running l')) :
    l'.stack.length ≤ l.stack.length + 1 ∧ (l'.stack.length = l.stack.length + 1 → level l < CALL_STACK_LIMIT) := by
  have hi := reachable_inv hr
  have hi' : Inv l' := step_inv hi h
  obtain ⟨_, _, h3⟩ := hi'
  obtain ⟨_, hl1, _⟩ := hi
  have hlim : CALL_STACK_LIMIT = 1024 := rfl
  cases a with
  | host op =>
    simp only [step, Option.map_eq_some_iff] at h
    obtain ⟨s1, _, h2⟩ := h
    cases h2; simp
  | call inp o =>
    simp only [step, Option.map_eq_some_iff] at h
    obtain ⟨⟨s1, r⟩, _, h2⟩ := h
    cases r <;> simp only [afterFrameOrResult] at h2 <;> cases h2 <;> simp only [List.length_cons, level] at * <;> omega
  | create inp o =>
    simp only [step, Option.map_eq_some_iff] at h
    obtain ⟨⟨s1, r, a⟩, _, h2⟩ := h
    cases r <;> simp only [afterFrameOrResult] at h2 <;> cases h2 <;> simp only [List.length_cons, level] at * <;> omega
  | eofcreate inp kind o =>
    simp only [step, Option.map_eq_some_iff] at h
    obtain ⟨⟨s1, r, a⟩, _, h2⟩ := h
    cases r <;> simp only [afterFrameOrResult] at h2 <;> cases h2 <;> simp only [List.length_cons, level] at * <;> omega
  | ret r =>
    simp only [step] at h
    split at h
    · cases h
    · rename_i f rest hst
      simp only [Option.map_eq_some_iff] at h
      obtain ⟨⟨s1, res⟩, _, h2⟩ := h
      cases rest with
      | nil => cases h2
      | cons g rest' => cases h2; simp only [hst, List.length_cons]; omega


/-- `Reachable` is closed under running more of the program -/
theorem reachable_run {db : Db} {spec : Nat} {l l' : Loop} {more : List Action}
    (hr : Reachable db spec l) (h : run db spec l more = some (.running l')) : Reachable db spec l' := by
  obtain ⟨s, f, prog, h0, ht⟩ := hr
  refine ⟨s, f, prog ++ more, h0, ?_⟩
  simp only [transactFrames] at ht ⊢
  split at ht
  · cases ht
  · rename_i l1 hf
    rw [run_append prog more l1 l ht]; exact h
  · rename_i o hne hf
    cases ht
    exact absurd rfl (hne l)

/-- CONSTRUCTIVE half ("nested calls can reach exactly 1024 levels ... no matter how many calls and creates
completed or failed earlier"): from EVERY reachable loop state - whatever prefix of succeeding / reverting /
halting / refused calls and creates led to it - in which the probe contract's account is loaded and warm
(`Warm`: true from the first call to it on), the program "call yourself" opens one frame per call until the top
frame is exactly 1024 levels below the transaction frame; the call after that is refused with CallTooDeep, and
so is every other call from there. -/
theorem nesting_reaches_1024 (db : Db) (spec : Nat) (l : Loop) (caller a : Addr)
    (hr : Reachable db spec l) (hw : Warm db l.js a) :
    ∃ l', run db spec l (List.replicate (CALL_STACK_LIMIT + 1 - l.stack.length) (.call (plainCall caller a) plainOracle))
            = some (.running l') ∧
      level l' = CALL_STACK_LIMIT ∧ Reachable db spec l' ∧
      (∀ inp o s' r, makeCallFrame db l'.js inp o = some (s', r) → r = .result .callTooDeep) := by
  have hi := reachable_inv hr
  obtain ⟨_, h2, h3⟩ := hi
  obtain ⟨l', h1, hlen, _, _⟩ := run_nest (db := db) (spec := spec) (caller := caller)
    (CALL_STACK_LIMIT + 1 - l.stack.length) l (reachable_inv hr) hw (by omega)
  have hr' := reachable_run hr h1
  have hlev : level l' = CALL_STACK_LIMIT := by simp only [level]; omega
  refine ⟨l', h1, hlev, hr', ?_⟩
  intro inp o s' r h
  exact ((max_depth db spec l' inp o s' r hr' h).1).2 hlev

/-! ### the hypotheses are satisfiable; the repaired leak -/

def exDb : Db :=
  { basic := fun a => if a = 1 then some { balance := 100, nonce := 1, codeHash := KECCAK_EMPTY, code := none } else none,
    storage := fun _ _ => 0, delegate := fun _ => none }
/-- transaction-level journal (OSAKA), nothing loaded yet -/
def exS : JState := JState.new 19 (fun _ => false)
def exCall (ext : Bool) (v : CallValue) : CallInputs :=
  { caller := 1, target := 2, bytecodeAddr := 2, value := v, isExtDelegate := ext }
def exO (pc : Option PrecompileOutcome) (eof empty : Bool) : CallOracle :=
  { precompile := pc, codeIsEof := eof, codeIsEmpty := empty }
def exCreateO : CreateOracle :=
  { initStartsEF00 := false, createdAddr := fun n => 1000 + n, isPrecompile := fun a => a < 10, hasStorage := fun _ => false }
def exRet (ok : Bool) : RetOracle :=
  { callOk := ok, create := { resultOk := ok, firstByteEF := false, lenOverMax := false, depositOk := true, codeHash := 7 },
    eofcreate := { isReturnContract := ok, lenOverMax := false, depositOk := true, decodes := true, codeHash := 7 } }
def view (x : Option (JState × FrameOrResult)) : Option (Nat × FrameOrResult) := x.map fun p => (p.1.depth, p.2)
def view3 (x : Option (JState × FrameOrResult × Addr)) : Option (Nat × FrameOrResult × Addr) := x.map fun p => (p.1.depth, p.2)
def viewOut : Option StepOut → Option (Nat × Nat × Bool)
  | some (.running l) => some (l.js.depth, l.stack.length, false)
  | some (.done js _) => some (js.depth, 0, true)
  | _ => none

theorem view_some {x : Option (JState × FrameOrResult)} {d : Nat} {r : FrameOrResult} (h : view x = some (d, r)) :
    ∃ s1, x = some (s1, r) ∧ s1.depth = d := by
  simp only [view, Option.map_eq_some_iff] at h
  obtain ⟨⟨s1, r1⟩, h1, h2⟩ := h
  cases h2; exact ⟨s1, h1, rfl⟩

-- paths of `make_call_frame` on a concrete state: frame, transfer failure, precompile ok / failure, empty code,
-- EXTDELEGATECALL to a non-EOF target (repaired code: depth unchanged)
example : view (makeCallFrame exDb exS (exCall false (.transfer 5)) (exO none false false)) = some (1, .frame ⟨0, 1⟩) := by decide
example : view (makeCallFrame exDb exS (exCall false (.transfer 500)) (exO none false false)) = some (0, .result .outOfFunds) := by decide
example : view (makeCallFrame exDb exS (exCall false (.transfer 0)) (exO (some .ok) false false)) = some (0, .result .ret) := by decide
example : view (makeCallFrame exDb exS (exCall false (.transfer 0)) (exO (some .errOog) false false)) = some (0, .result .precompileOOG) := by decide
example : view (makeCallFrame exDb exS (exCall false (.transfer 0)) (exO none false true)) = some (0, .result .stop) := by decide
example : view (makeCallFrame exDb exS (exCall true (.apparent 0)) (exO none false false)) = some (0, .result .invalidExtDelegateCallTarget) := by decide
example : view3 (makeCreateFrame exDb exS 19 { caller := 1, value := 5 } exCreateO) = some (1, .frame ⟨0, 1⟩, 1001) := by decide
example : view3 (makeCreateFrame exDb exS 19 { caller := 1, value := 500 } exCreateO) = some (0, .result .outOfFunds, 0) := by decide
example : view3 (makeEofCreateFrame exDb exS 19 { caller := 1, value := 5 } (.opcode 77) exCreateO) = some (1, .frame ⟨0, 1⟩, 77) := by decide
example : view3 (makeEofCreateFrame exDb exS 19 { caller := 1, value := 5 } (.opcode 3) exCreateO) = some (0, .result .createCollision, 3) := by decide
-- a transaction: call frame, nested create that reverts, nested call that succeeds, return: depth 1,2,1,2,1 then 0
example : viewOut (transactFrames exDb 19 exS (.call (exCall false (.transfer 5)) (exO none false false))
    [.create { caller := 2, value := 1 } exCreateO]) = some (2, 2, false) := by decide
example : viewOut (transactFrames exDb 19 exS (.call (exCall false (.transfer 5)) (exO none false false))
    [.create { caller := 2, value := 1 } exCreateO, .ret (exRet false), .host (.sstore 2 0 9),
     .call { caller := 2, target := 1, bytecodeAddr := 1, value := .transfer 1, isExtDelegate := false } (exO none false false),
     .ret (exRet true), .ret (exRet true)]) = some (0, 0, true) := by decide

/-- `Reachable` is inhabited (hypothesis of `max_depth`), at level 1 -/
theorem reachable_example : ∃ l, Reachable exDb 19 l ∧ level l = 1 := by
  have hv : viewOut (transactFrames exDb 19 exS (.call (exCall false (.transfer 5)) (exO none false false))
      [.create { caller := 2, value := 1 } exCreateO]) = some (2, 2, false) := by decide
  cases h : transactFrames exDb 19 exS (.call (exCall false (.transfer 5)) (exO none false false))
      [.create { caller := 2, value := 1 } exCreateO] with
  | none => rw [h] at hv; simp [viewOut] at hv
  | some out =>
    rw [h] at hv
    cases out with
    | running l =>
      refine ⟨l, ⟨exS, _, _, rfl, h⟩, ?_⟩
      simp only [viewOut, Option.some.injEq, Prod.mk.injEq] at hv
      simp only [level]; omega
    | done js r => simp [viewOut] at hv
    | fatal => simp [viewOut] at hv


def warmView (a : Addr) : Option StepOut → Bool
  | some (.running l) => match l.js.state a with
    | some acc => !acc.cold && acc.info.code == some KECCAK_EMPTY
    | none => false
  | _ => false

/-- the hypotheses of `nesting_reaches_1024` hold in a concrete reachable state (after the first frame was
opened the callee's account is loaded, warm, with cached code) -/
theorem nesting_hypotheses_example : ∃ l, Reachable exDb 19 l ∧ Warm exDb l.js 2 := by
  have hv : warmView 2 (transactFrames exDb 19 exS (.call (exCall false (.transfer 5)) (exO none false false)) []) = true := by
    decide
  cases h : transactFrames exDb 19 exS (.call (exCall false (.transfer 5)) (exO none false false)) [] with
  | none => rw [h] at hv; simp [warmView] at hv
  | some out =>
    rw [h] at hv
    cases out with
    | running l =>
      refine ⟨l, ⟨exS, _, _, rfl, h⟩, ?_⟩
      simp only [warmView] at hv
      cases hs : l.js.state 2 with
      | none => rw [hs] at hv; simp at hv
      | some acc =>
        rw [hs] at hv
        simp only [Bool.and_eq_true, Bool.not_eq_true', beq_iff_eq] at hv
        exact ⟨acc, KECCAK_EMPTY, hs, hv.1, hv.2, rfl⟩
    | done js r => simp [warmView] at hv
    | fatal => simp [warmView] at hv

/-- REGRESSION (the code before /repo commit 4cdd3651): `make_call_frame` returned InvalidExtDelegateCallTarget
after `checkpoint()` without closing it. For that version `frame_depth_neutral_call` is FALSE: the immediate
result leaves the journal one level deeper (DESIGN section 9 #2: three such calls moved depth 1 -> 4). -/
theorem ext_delegate_call_leak_regression :
    ∃ (db : Db) (s s1 : JState) (inp : CallInputs) (o : CallOracle),
      makeCallFrameOld db s inp o = some (s1, .result .invalidExtDelegateCallTarget) ∧ s1.depth = s.depth + 1 := by
  have h : view (makeCallFrameOld exDb exS (exCall true (.apparent 0)) (exO none false false))
      = some (1, .result .invalidExtDelegateCallTarget) := by decide
  obtain ⟨s1, h1, h2⟩ := view_some h
  exact ⟨exDb, exS, s1, _, _, h1, h2⟩

end Revm.Props.C07
