import Revm.Proofs.GasCalc
import Revm.Proofs.GasCalcTx
/-! C14 — dynamic gas cost formulas equal the specification for all arguments.

`Model.GasCalc.f` follows `gas/calc.rs` (u64 checked / saturating / wrapping arithmetic, the
hardfork as `SpecId as u8`); `Spec.GasCalc.f` is the EIP / Yellow Paper formula over unbounded `Nat`
per named fork. For an `Option<u64>` function the property reads
`Model.f args = some v ↔ Spec.f args = v ∧ v < 2^64` (failure exactly when the true value does not
fit); for a `u64` function plain equality.

Two places where the *code* does not satisfy that reading (the model stays faithful, see the
`_counterexample` theorems): (1) `num_words` saturates at `len > 2^64 − 32` and is one word short,
which every per-word cost inherits; (2) `calculate_initial_tx_gas` / `calc_tx_floor_cost` use
wrapping `+`/`*` and cannot report failure. A third one, `memory_gas` squaring with `saturating_mul`
and undercharging from 2^32 words on, was repaired in /repo (`fix: memory_gas undercharged …`); the
model follows the repaired code and `memory_gas_full` now holds without a bound. `memory_gas` returns
`u64`, so "reports failure" is saturation to `u64::MAX` (`resize_memory_counterexample` records the
one consequence: a caller holding exactly `u64::MAX` gas). Theorems on the characterised domain are named `_partial`, the full
statement is the `def FullStatement_…` next to them. -/
namespace Revm.Props.C14
open Revm Revm.Model.GasCalc
open Revm.Spec.GasCalc (Fork Pattern ceil32 memCost memExpansion)

/-! ## words -/

def FullStatement_num_words : Prop := ∀ len, len < U64 → numWords len = ceil32 len

theorem num_words_partial (len : Nat) (h : len + 31 < U64) : numWords len = ceil32 len :=
  Proofs.GasCalc.numWords_eq len h
example : (4096 : Nat) + 31 < U64 := by rw [U64_val]; decide

/-- on each of the last 31 lengths the code returns 2^59 − 1 words where 2^59 are needed -/
theorem num_words_saturated (len : Nat) (h1 : U64 ≤ len + 31) (h2 : len < U64) :
    numWords len = 2^59 - 1 ∧ ceil32 len = 2^59 := Proofs.GasCalc.numWords_short len h1 h2
example : U64 ≤ (U64 - 1) + 31 ∧ U64 - 1 < U64 := by rw [U64_val]; decide

theorem num_words_counterexample : ¬ FullStatement_num_words := by
  intro h
  have h1 := h (U64 - 1) (by rw [U64_val]; decide)
  have h2 := Proofs.GasCalc.numWords_short (U64 - 1) (by rw [U64_val]; decide) (by rw [U64_val]; decide)
  omega

def FullStatement_cost_per_word : Prop := ∀ len m v, len < U64 → m < U64 →
  (costPerWord len m = some v ↔ Spec.GasCalc.wordCost len m = v ∧ v < U64)

theorem cost_per_word_partial (len m v : Nat) (h : len + 31 < U64) :
    costPerWord len m = some v ↔ Spec.GasCalc.wordCost len m = v ∧ v < U64 :=
  Proofs.GasCalc.costPerWord_iff len m v h

theorem cost_per_word_counterexample : ¬ FullStatement_cost_per_word := by
  intro h
  have := (h (U64 - 1) 1 (2^59 - 1) (by rw [U64_val]; decide) (by rw [U64_val]; decide)).1 (by rw [U64_val]; decide)
  revert this; rw [U64_val]; decide

/-! ## copy, hash, create, log, exp -/

def FullStatement_verylowcopy_cost : Prop := ∀ len v, len < U64 →
  (verylowcopyCost len = some v ↔ Spec.GasCalc.copyCost len = v ∧ v < U64)
theorem verylowcopy_cost_partial (len v : Nat) (h : len + 31 < U64) :
    verylowcopyCost len = some v ↔ Spec.GasCalc.copyCost len = v ∧ v < U64 :=
  Proofs.GasCalc.verylowcopyCost_iff len v h
theorem verylowcopy_cost_counterexample : ¬ FullStatement_verylowcopy_cost := by
  intro h
  have := (h (U64 - 1) (3 + 3 * (2^59 - 1)) (by rw [U64_val]; decide)).1 (by rw [U64_val]; decide)
  revert this; rw [U64_val]; decide

def FullStatement_keccak256_cost : Prop := ∀ len v, len < U64 →
  (keccak256Cost len = some v ↔ Spec.GasCalc.keccak256Cost len = v ∧ v < U64)
theorem keccak256_cost_partial (len v : Nat) (h : len + 31 < U64) :
    keccak256Cost len = some v ↔ Spec.GasCalc.keccak256Cost len = v ∧ v < U64 :=
  Proofs.GasCalc.keccak256Cost_iff len v h
theorem keccak256_cost_counterexample : ¬ FullStatement_keccak256_cost := by
  intro h
  have := (h (U64 - 1) (30 + 6 * (2^59 - 1)) (by rw [U64_val]; decide)).1 (by rw [U64_val]; decide)
  revert this; rw [U64_val]; decide

def FullStatement_create2_cost : Prop := ∀ len v, len < U64 →
  (create2Cost len = some v ↔ Spec.GasCalc.create2Cost len = v ∧ v < U64)
theorem create2_cost_partial (len v : Nat) (h : len + 31 < U64) :
    create2Cost len = some v ↔ Spec.GasCalc.create2Cost len = v ∧ v < U64 :=
  Proofs.GasCalc.create2Cost_iff len v h
theorem create2_cost_counterexample : ¬ FullStatement_create2_cost := by
  intro h
  have := (h (U64 - 1) (32000 + 6 * (2^59 - 1)) (by rw [U64_val]; decide)).1 (by rw [U64_val]; decide)
  revert this; rw [U64_val]; decide

def FullStatement_extcodecopy_cost : Prop := ∀ (f : Fork) len c v, len < U64 →
  (extcodecopyCost f.id len c = some v ↔ Spec.GasCalc.extcodecopyCost f len c = v ∧ v < U64)
theorem extcodecopy_cost_partial (f : Fork) (len : Nat) (c : Bool) (v : Nat) (h : len + 31 < U64) :
    extcodecopyCost f.id len c = some v ↔ Spec.GasCalc.extcodecopyCost f len c = v ∧ v < U64 :=
  Proofs.GasCalc.extcodecopyCost_iff f len c v h
theorem extcodecopy_cost_counterexample : ¬ FullStatement_extcodecopy_cost := by
  intro h
  have := (h .cancun (U64 - 1) true (2600 + 3 * (2^59 - 1)) (by rw [U64_val]; decide)).1 (by rw [U64_val]; decide)
  revert this; rw [U64_val]; decide

def FullStatement_initcode_cost : Prop := ∀ len, len < U64 →
  initcodeCost len = some (Spec.GasCalc.initcodeCost len)
theorem initcode_cost_partial (len : Nat) (h : len + 31 < U64) :
    initcodeCost len = some (Spec.GasCalc.initcodeCost len) := Proofs.GasCalc.initcodeCost_eq len h
/-- `panic!("initcode cost overflow")` is unreachable for every u64 length -/
theorem initcode_cost_never_panics (len : Nat) (h : len < U64) : ∃ v, initcodeCost len = some v :=
  Proofs.GasCalc.initcodeCost_no_panic len h
theorem initcode_cost_counterexample : ¬ FullStatement_initcode_cost := by
  intro h
  have := h (U64 - 1) (by rw [U64_val]; decide)
  revert this; rw [U64_val]; decide

/-- LOG0..LOG4 (any topic count that fits a `u8`, any u64 length): no excluded region -/
theorem log_cost_iff (n len v : Nat) :
    logCost n len = some v ↔ Spec.GasCalc.logCost n len = v ∧ v < U64 :=
  Proofs.GasCalc.logCost_iff n len v

/-- EXP: for every 256-bit exponent and fork the cost is the EIP-160 formula and always fits -/
theorem exp_cost_eq (f : Fork) (p : Nat) (hp : p < W) :
    expCost f.id p = some (Spec.GasCalc.expCost f p) := Proofs.GasCalc.expCost_eq f p hp
example : (2^255 : Nat) < W := by rw [W_val]; decide

/-! ## hardfork gates -/

/-- `spec_id.is_enabled_in(X)` agrees with the Spec's activation table of the EIP gated on `X` -/
theorem gates_eq (f : Fork) :
    enabled f.id SpecId.HOMESTEAD = f.hasEIP2 ∧ enabled f.id SpecId.TANGERINE = f.hasEIP150 ∧
    enabled f.id SpecId.SPURIOUS_DRAGON = f.hasEIP160 ∧ enabled f.id SpecId.ISTANBUL = f.hasEIP2200 ∧
    enabled f.id SpecId.BERLIN = f.hasEIP2929 ∧ enabled f.id SpecId.LONDON = f.hasEIP3529 ∧
    enabled f.id SpecId.SHANGHAI = f.hasEIP3860 ∧ enabled f.id SpecId.PRAGUE = f.hasEIP7623 := by
  cases f <;> decide

/-! ## SLOAD / SSTORE / SELFDESTRUCT / CALL: complete case split over forks × flags × value patterns -/

theorem sload_cost_eq (f : Fork) (cold : Bool) : sloadCost f.id cold = Spec.GasCalc.sloadCost f cold :=
  Proofs.GasCalc.sloadCost_eq f cold

/-- every (original, current, new) triple has a pattern … -/
theorem pattern_exhaustive (o c n : Nat) : ∃ pat : Pattern, pat.holds o c n :=
  ⟨_, Proofs.GasCalc.classify_holds o c n⟩
/-- … and only one -/
theorem pattern_unique (p q : Pattern) (o c n : Nat) (hp : p.holds o c n) (hq : q.holds o c n) : p = q :=
  (Proofs.GasCalc.holds_unique p o c n hp).symm.trans (Proofs.GasCalc.holds_unique q o c n hq)

/-- SSTORE gas equals the EIP-2200 / 2929 table (legacy rule before Istanbul) for every fork,
value pattern, gas left and cold flag, including the "gasleft ≤ 2300" failure -/
theorem sstore_cost_eq (f : Fork) (pat : Pattern) (o p n gas : Nat) (cold : Bool) (h : pat.holds o p n) :
    sstoreCost f.id o p n gas cold = Spec.GasCalc.sstoreCost f pat gas cold :=
  Proofs.GasCalc.sstoreCost_eq f pat o p n gas cold h
example : Pattern.pX0X.holds 7 0 7 := by simp [Pattern.holds]

/-- SSTORE refund equals the EIP-2200 / 3529 table (legacy rule before Istanbul) -/
theorem sstore_refund_eq (f : Fork) (pat : Pattern) (o p n : Nat) (h : pat.holds o p n) :
    sstoreRefund f.id o p n = Spec.GasCalc.sstoreRefund f pat :=
  Proofs.GasCalc.sstoreRefund_eq f pat o p n h

theorem selfdestruct_cost_eq (f : Fork) (hadValue targetExists cold : Bool) :
    selfdestructCost f.id hadValue targetExists cold
      = Spec.GasCalc.selfdestructCost f hadValue targetExists cold :=
  Proofs.GasCalc.selfdestructCost_eq f hadValue targetExists cold

theorem call_cost_eq (f : Fork) (transfersValue cold : Bool) (delegateCold : Option Bool) (isEmpty : Bool) :
    callCost f.id transfersValue cold delegateCold isEmpty
      = Spec.GasCalc.callCost f transfersValue cold delegateCold isEmpty :=
  Proofs.GasCalc.callCost_eq f transfersValue cold delegateCold isEmpty

theorem warm_cold_cost_eq (cold : Bool) : warmColdCost cold = if cold then 2600 else 100 :=
  Proofs.GasCalc.warmColdCost_eq cold

/-- `warm_cold_cost_with_delegation` is the Berlin access cost of the target plus that of the delegate -/
theorem warm_cold_cost_with_delegation_eq (cold : Bool) (d : Option Bool) :
    warmColdCostWithDelegation cold d = Spec.GasCalc.callCost .berlin false cold d false := by
  cases cold <;> cases d with
  | none => rfl
  | some d => cases d <;> rfl

/-- the test vectors of EIP-2200 (two SSTOREs to one slot: gas used minus 4 PUSHes, refund) hold of the Spec tables -/
example : (Spec.GasCalc.sstoreCost .istanbul (Spec.GasCalc.classify 0 0 0) 10000 false,
           Spec.GasCalc.sstoreCost .istanbul (Spec.GasCalc.classify 0 0 0) 10000 false) = (some 800, some 800) := by decide
example : Spec.GasCalc.sstoreRefund .istanbul (Spec.GasCalc.classify 0 0 1) +
          Spec.GasCalc.sstoreRefund .istanbul (Spec.GasCalc.classify 0 1 0) = 19200 := by decide
example : Spec.GasCalc.sstoreRefund .istanbul (Spec.GasCalc.classify 1 1 0) +
          Spec.GasCalc.sstoreRefund .istanbul (Spec.GasCalc.classify 1 0 1) = 4200 := by decide
example : Spec.GasCalc.sstoreRefund .istanbul (Spec.GasCalc.classify 1 1 2) +
          Spec.GasCalc.sstoreRefund .istanbul (Spec.GasCalc.classify 1 2 0) = 15000 := by decide
example : Spec.GasCalc.sstoreCost .istanbul (Spec.GasCalc.classify 1 1 2) 10000 false = some 5000 ∧
          Spec.GasCalc.sstoreCost .istanbul (Spec.GasCalc.classify 1 2 1) 10000 false = some 800 ∧
          Spec.GasCalc.sstoreRefund .istanbul (Spec.GasCalc.classify 1 2 1) = 4200 := by decide
example : Spec.GasCalc.sstoreCost .istanbul (Spec.GasCalc.classify 0 0 1) 10000 false = some 20000 ∧
          Spec.GasCalc.sstoreCost .london (Spec.GasCalc.classify 1 1 0) 10000 true = some 5000 ∧
          Spec.GasCalc.sstoreRefund .london (Spec.GasCalc.classify 1 1 0) = 4800 := by decide

/-! ## memory -/

def FullStatement_memory_gas : Prop := ∀ w, w < U64 →
  (memCost w < U64 → memoryGas w = memCost w) ∧ (U64 ≤ memCost w → memoryGas w = U64 - 1)

/-- `memory_gas` (after the repair `fix: memory_gas undercharged …`: 128-bit intermediate) is the
Yellow Paper C_mem whenever that fits in 64 bits and `u64::MAX` otherwise, for every word count -/
theorem memory_gas_full : FullStatement_memory_gas :=
  fun w _ => ⟨Proofs.GasCalc.memoryGas_exact w, Proofs.GasCalc.memoryGas_sat w⟩

theorem memory_gas_eq_min (w : Nat) : memoryGas w = min (memCost w) (U64 - 1) :=
  Proofs.GasCalc.memoryGas_full w

/-- below 2^32 words (128 GiB) C_mem always fits -/
theorem memory_gas_below_2_32 (w : Nat) (h : w < 2^32) : memoryGas w = memCost w :=
  Proofs.GasCalc.memoryGas_eq w h
example : (724 : Nat) < 2^32 := by decide

/-- regression of the repaired defect: 2^33 words cost 144115213845659648 (the code used to say
36028822788767743), and 2^37 words (true cost above 2^64) saturate -/
theorem memory_gas_regression :
    memoryGas (2^33) = 144115213845659648 ∧ memoryGas (2^37) = 18446744073709551615 := by decide

def FullStatement_resize_memory : Prop := ∀ cur rem new, cur ≤ new → new < U64 → rem < U64 →
  resizeMemory cur rem new =
    if memExpansion cur new ≤ rem then (true, rem - memExpansion cur new, 32 * ceil32 new)
    else (false, rem, cur)

/-- `resize_memory` (expansion to a size whose C_mem fits in 64 bits, i.e. up to about 2^36.5 words):
charges exactly the expansion cost, fails (`MemoryOOG`) exactly when it exceeds the gas left, new
length is the word-aligned size -/
theorem resize_memory_partial (cur rem new : Nat) (hcn : cur ≤ new) (hnew : new + 31 < U64)
    (hfit : memCost (ceil32 new) < U64) :
    resizeMemory cur rem new =
      if memExpansion cur new ≤ rem then (true, rem - memExpansion cur new, 32 * ceil32 new)
      else (false, rem, cur) := Proofs.GasCalc.resizeMemory_eq cur rem new hcn hnew hfit
example : (64 : Nat) ≤ 2^38 ∧ 2^38 + 31 < U64 ∧ memCost (ceil32 (2^38)) < U64 := by
  rw [U64_val]; decide

/-- what remains outside: `memory_gas` cannot report failure, it saturates to `u64::MAX`; with
exactly `u64::MAX` gas left an expansion whose true cost needs more than 64 bits is accepted -/
theorem resize_memory_counterexample : ¬ FullStatement_resize_memory := by
  intro h
  have := h 0 (U64 - 1) (2^42) (by decide) (by rw [U64_val]; decide) (by rw [U64_val]; decide)
  revert this; rw [U64_val]; decide

/-- the `resize_memory!` macro under the same bound -/
theorem resize_macro_partial (cur rem off len : Nat) (h : off + len + 31 < U64)
    (hfit : memCost (ceil32 (off + len)) < U64) :
    resizeMemoryMacro cur rem off len =
      if off + len ≤ cur then some (rem, cur)
      else if memExpansion cur (off + len) ≤ rem then
        some (rem - memExpansion cur (off + len), 32 * ceil32 (off + len))
      else none := Proofs.GasCalc.resizeMemoryMacro_eq cur rem off len h hfit
example : (100 : Nat) + 200 + 31 < U64 ∧ memCost (ceil32 (100 + 200)) < U64 := by rw [U64_val]; decide

/-! ## transaction intrinsic gas and floor -/


def FullStatement_tokens : Prop := ∀ (input : List Nat) (ist : Bool), input.length < U64 →
  getTokensInCalldata input ist
    = Spec.GasCalc.zeroBytes input + (if ist then 4 else 17) * Spec.GasCalc.nonZeroBytes input

/-- `get_tokens_in_calldata`: zero bytes + 4 (before EIP-2028: 17) per non-zero byte, whenever that
fits in 64 bits even with the larger multiplier (calldata below 2^59 bytes). The full statement is
not refuted here: a witness needs more than 2^59 bytes of calldata. -/
theorem tokens_partial (input : List Nat) (ist : Bool)
    (h : Spec.GasCalc.zeroBytes input + 17 * Spec.GasCalc.nonZeroBytes input < U64) :
    getTokensInCalldata input ist
      = Spec.GasCalc.zeroBytes input + (if ist then 4 else 17) * Spec.GasCalc.nonZeroBytes input :=
  Proofs.GasCalc.getTokensInCalldata_eq input ist h
example : Spec.GasCalc.zeroBytes [0, 5, 0, 7] + 17 * Spec.GasCalc.nonZeroBytes [0, 5, 0, 7] < U64 := by
  rw [U64_val]; decide

def FullStatement_floor_cost : Prop := ∀ t, t < U64 → calcTxFloorCost t = 21000 + 10 * t

/-- `calc_tx_floor_cost` (EIP-7623) whenever 21000 + 10·tokens fits in 64 bits -/
theorem floor_cost_partial (t : Nat) (h : 21000 + 10 * t < U64) : calcTxFloorCost t = 21000 + 10 * t :=
  Proofs.GasCalc.calcTxFloorCost_eq t h
example : 21000 + 10 * 1000000 < U64 := by rw [U64_val]; decide

theorem floor_cost_counterexample : ¬ FullStatement_floor_cost := by
  intro h
  have := h (2^63) (by rw [U64_val]; decide)
  revert this; decide

/-- the property's reading for a function that cannot fail would be: equal when the true values fit,
and some failure (here: the panic outcome `none`) when they do not -/
def FullStatement_initial_tx_gas : Prop :=
  ∀ (f : Fork) (input : List Nat) (cr : Bool) (acl : List Nat) (auth : Nat), auth < U64 →
    let ig := Spec.GasCalc.intrinsicGas f input cr acl auth
    let fg := Spec.GasCalc.floorGas f input
    (ig < U64 ∧ fg < U64 → calculateInitialTxGas f.id input cr acl auth = some (ig, fg)) ∧
    (¬ (ig < U64 ∧ fg < U64) → calculateInitialTxGas f.id input cr acl auth = none)

/-- whenever the true intrinsic gas and floor fit in 64 bits, `calculate_initial_tx_gas` returns
exactly them (every fork, calldata, access list, authorization count); no wrap, no panic -/
theorem initial_tx_gas_partial (f : Fork) (input : List Nat) (cr : Bool) (acl : List Nat) (auth : Nat)
    (h1 : Spec.GasCalc.intrinsicGas f input cr acl auth < U64) (h2 : Spec.GasCalc.floorGas f input < U64) :
    calculateInitialTxGas f.id input cr acl auth
      = some (Spec.GasCalc.intrinsicGas f input cr acl auth, Spec.GasCalc.floorGas f input) :=
  Proofs.GasCalc.calculateInitialTxGas_eq f input cr acl auth h1 h2
example : Spec.GasCalc.intrinsicGas .prague [0, 1, 2] true [2, 0] 3 < U64 ∧
    Spec.GasCalc.floorGas .prague [0, 1, 2] < U64 := by rw [U64_val]; decide

/-- witness: 737869762948383 authorizations (true cost ≥ 2^64) wrap to an intrinsic gas of 44384 -/
theorem initial_tx_gas_counterexample : ¬ FullStatement_initial_tx_gas := by
  intro h
  have := (h .prague [] false [] 737869762948383 (by rw [U64_val]; decide)).2 (by rw [U64_val]; decide)
  revert this; decide

/-- `validate_initial_tx_gas`: when the true values fit, the transaction is rejected exactly when
the gas limit is below the intrinsic gas (first) or below the EIP-7623 floor -/
theorem validate_initial_tx_gas_partial (f : Fork) (input : List Nat) (cr : Bool) (acl : List Nat)
    (nauth lim : Nat) (h1 : Spec.GasCalc.intrinsicGas f input cr acl nauth < U64)
    (h2 : Spec.GasCalc.floorGas f input < U64) :
    validateInitialTxGas f.id input cr acl nauth lim =
      if Spec.GasCalc.intrinsicGas f input cr acl nauth > lim then .callGasCostMoreThanGasLimit
      else if Spec.GasCalc.floorGas f input > lim then .gasFloorMoreThanGasLimit
      else .ok (Spec.GasCalc.intrinsicGas f input cr acl nauth) (Spec.GasCalc.floorGas f input) :=
  Proofs.GasCalc.validateInitialTxGas_eq f input cr acl nauth lim h1 h2

end Revm.Props.C14
