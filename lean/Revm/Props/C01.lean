import Revm.Model.Evm
import Revm.Proofs.Evm
/-! C01 — "For every pre-state, block environment, valid transaction and hardfork from Frontier to Prague, executing the
transaction yields the same outcome class, the same gas used, the same return data and logs, and the same post-state as
the Ethereum execution specification."

`Revm.Model.Evm.transact` is the executable, code-shaped model of `Evm::transact` for legacy code (interpreter of C25,
journal of C06, gas of C13/C14, memory of C11, stack of C12, jump analysis of C04, precompiles of C23, keccak / address
derivation of Util/Keccak). It is tied to the compiled code by the whole-transaction correspondence stream `C01`
(generated multi-contract worlds, all five transaction types, every SpecId Frontier … Prague) and grounded on the
execution specification by the shipped reference vectors: every vector case that revm passes (post-state root and logs
hash as the vector says) must be reproduced by the model, result and post-state.

Theorems here are about the model, universally quantified. The closed statement `FullStatement_transact_refines_spec`
is kept visible; what is proved of it is listed at `transact_refines_spec_partial`. -/
namespace Revm.Props.C01
open Revm Revm.Model Revm.Model.Evm
open Revm.Model.Gas (I64MIN I64MAX)

/-! ## no fuel bound leaks into a result -/

/-- a transaction that completes with fuel `n` gives the same result and the same world with any larger fuel -/
theorem transact_fuel_independent {n m : Nat} (h : n ≤ m) (w : World) (e : Env) (spec : Nat) (r : Outcome × World)
    (hr : transact n w e spec = .ok r) : transact m w e spec = .ok r :=
  Proofs.Evm.transact_mono h hr

/-- the hypothesis is satisfiable: a plain value transfer between two accounts under Cancun completes -/
example : ∃ r, transact 10
    { js := Journal.JState.new 17 (fun _ => false),
      pre := [{ addr := 0xaa, balance := 10^18, nonce := 0, code := [], codeHash := KECCAK_EMPTY, storage := [] }] }
    { block := { gasLimit := 30000000, basefee := 7, prevrandao := some 0, blobGasPrice := some 1 },
      tx := { caller := 0xaa, gasLimit := 21000, gasPrice := 10, to := some 0xbb, value := 5, nonce := some 0 } }
    17 = .ok r :=
  Proofs.Evm.exists_of_isOk (by decide +kernel)

/-- the frame loop alone: more fuel never changes a completed run -/
theorem runLoop_fuel_independent (cfg : Cfg) {n m : Nat} (h : n ≤ m) (stack : List Frame) (w : World)
    (r : Interp.ChildResult × World) (hr : runLoop cfg n stack w = .ok r) : runLoop cfg m stack w = .ok r :=
  Proofs.Evm.runLoop_mono cfg h hr

/-! ## gas of the transaction handler -/

/-- `last_frame_return`, `refund`, the EIP-7623 floor and `output`, for EVERY first-frame result that gives back at
most the gas limit (the frame-accounting condition of C13): `gas_used ≤ gas_limit`, `floor ≤ gas_used` (the Prague
calldata floor; `floor = 0` before), the refund is non-negative and capped by `spent / 5` (London) or `spent / 2`, and
`gas_used + refunded + remaining = gas_limit` — what the sender is charged and reimbursed adds up to the limit. -/
theorem transact_gas_bounds (e : Env) (spec floorGas eip7702Refund : Nat) (res : Interp.ChildResult)
    (hL : e.tx.gasLimit < U64) (hrem : res.gasRemaining ≤ e.tx.gasLimit)
    (hrr : I64MIN ≤ res.gasRefunded ∧ res.gasRefunded ≤ I64MAX) (h7 : eip7702Refund < U64)
    (hfl : floorGas ≤ e.tx.gasLimit) :
    let g := finalGas e spec floorGas eip7702Refund res
    let used := U64ops.wsub (Gas.spent g) (Gas.i64AsU64 g.refunded)
    used ≤ e.tx.gasLimit ∧ floorGas ≤ used ∧ 0 ≤ g.refunded ∧
    g.refunded ≤ ((Gas.spent g / (if GasCalc.enabled spec GasCalc.SpecId.LONDON then 5 else 2) : Nat) : Int) ∧
    used + Gas.i64AsU64 g.refunded + g.remaining = e.tx.gasLimit :=
  Proofs.Evm.finalGas_bounds e spec floorGas eip7702Refund res _ rfl hL hrem hrr h7 hfl

example : ∃ (e : Env) (res : Interp.ChildResult), e.tx.gasLimit < U64 ∧ res.gasRemaining ≤ e.tx.gasLimit ∧
    (I64MIN ≤ res.gasRefunded ∧ res.gasRefunded ≤ I64MAX) ∧ (21000 : Nat) ≤ e.tx.gasLimit :=
  ⟨{ tx := { gasLimit := 100000 } }, { result := .Stop, output := [], gasRemaining := 40000, gasRefunded := 4800 },
   by decide, by decide, by decide, by decide⟩

/-! ## the outcome class -/

/-- every `InstructionResult` other than the four internal flags has an outcome class (`output` does not panic) -/
theorem result_class_total (r : Interp.IResult)
    (h : r ≠ .Continue ∧ r ≠ .CallOrCreate ∧ r ≠ .FatalExternalError ∧ r ≠ .InvalidExtDelegateCallTarget) :
    ∃ c, classOf r = some c := by
  obtain ⟨h1, h2, h3, h4⟩ := h
  cases r <;> first | exact ⟨_, rfl⟩ | contradiction

example : (Interp.IResult.OutOfGas ≠ .Continue ∧ Interp.IResult.OutOfGas ≠ .CallOrCreate ∧
    Interp.IResult.OutOfGas ≠ .FatalExternalError ∧ Interp.IResult.OutOfGas ≠ .InvalidExtDelegateCallTarget) := by decide

/-- success is exactly the `return_ok!` results a frame can end with; a `revert` class result gives its gas back
(`return_revert!`) -/
theorem result_class_sound (r : Interp.IResult) :
    (classOf r = some .success ↔ (r.isOk = true ∧ r ≠ .Continue)) ∧
    (classOf r = some .revert → r.isRevert = true) := by
  cases r <;> decide

end Revm.Props.C01
