import Revm.Model.Evm
import Revm.Proofs.Evm
import Revm.Proofs.EvmStepTable
import Revm.Proofs.EvmHost
import Revm.Proofs.EvmSpec
import Revm.Proofs.EvmRefineMain
import Revm.Proofs.EvmRefineE7
import Revm.Proofs.EvmRefineAdm
import Revm.Proofs.EvmTerm
/-! C01 — "For every pre-state, block environment, valid transaction and hardfork from Frontier to Prague, executing the
transaction yields the same outcome class, the same gas used, the same return data and logs, and the same post-state as
the Ethereum execution specification."

`Revm.Model.Evm.transact` is the executable, code-shaped model of `Evm::transact` for legacy code (interpreter of C25,
journal of C06, gas of C13/C14, memory of C11, stack of C12, jump analysis of C04, precompiles of C23, keccak / address
derivation of Util/Keccak). It is tied to the compiled code by the whole-transaction correspondence stream `C01`
(generated multi-contract worlds, all five transaction types, every SpecId Frontier … Prague) and grounded on the
execution specification by the shipped reference vectors: every vector case that revm passes (post-state root and logs
hash as the vector says) must be reproduced by the model, result and post-state.

Theorems here are about the model, universally quantified. The closed statement `FullStatement_transact_refines_spec`
is kept visible; what is proved of it is listed at `transact_refines_spec_partial`. -/
namespace Revm.Props.C01
open Revm Revm.Model Revm.Model.Evm
open Revm.Model.Gas (I64MIN I64MAX)

/-! ## no fuel bound leaks into a result -/

/-- a transaction that completes with fuel `n` gives the same result and the same world with any larger fuel -/
theorem transact_fuel_independent {n m : Nat} (h : n ≤ m) (w : World) (e : Env) (spec : Nat) (r : Outcome × World)
    (hr : transact n w e spec = .ok r) : transact m w e spec = .ok r :=
  Proofs.Evm.transact_mono h hr

/-- the hypothesis is satisfiable: a plain value transfer between two accounts under Cancun completes -/
example : ∃ r, transact 10
    { js := Journal.JState.new 17 (fun _ => false),
      pre := [{ addr := 0xaa, balance := 10^18, nonce := 0, code := [], codeHash := KECCAK_EMPTY, storage := [] }] }
    { block := { gasLimit := 30000000, basefee := 7, prevrandao := some 0, blobGasPrice := some 1 },
      tx := { caller := 0xaa, gasLimit := 21000, gasPrice := 10, to := some 0xbb, value := 5, nonce := some 0 } }
    17 = .ok r :=
  Proofs.Evm.exists_of_isOk (by decide +kernel)

/-- the frame loop alone: more fuel never changes a completed run -/
theorem runLoop_fuel_independent {κ : Type} (C : CpOps κ) (cfg : Cfg) {n m : Nat} (h : n ≤ m)
    (stack : List (Frame κ)) (w : World) (r : Interp.ChildResult × World)
    (hr : runLoop C cfg n stack w = .ok r) : runLoop C cfg m stack w = .ok r :=
  Proofs.Evm.runLoop_mono C cfg h hr

/-! ## gas of the transaction handler -/

/-- `last_frame_return`, `refund`, the EIP-7623 floor and `output`, for EVERY first-frame result that gives back at
most the gas limit (the frame-accounting condition of C13): `gas_used ≤ gas_limit`, `floor ≤ gas_used` (the Prague
calldata floor; `floor = 0` before), the refund is non-negative and capped by `spent / 5` (London) or `spent / 2`, and
`gas_used + refunded + remaining = gas_limit` — what the sender is charged and reimbursed adds up to the limit. -/
theorem transact_gas_bounds (e : Env) (spec floorGas eip7702Refund : Nat) (res : Interp.ChildResult)
    (hL : e.tx.gasLimit < U64) (hrem : res.gasRemaining ≤ e.tx.gasLimit)
    (hrr : I64MIN ≤ res.gasRefunded ∧ res.gasRefunded ≤ I64MAX) (h7 : eip7702Refund < U64)
    (hfl : floorGas ≤ e.tx.gasLimit) :
    let g := finalGas e spec floorGas eip7702Refund res
    let used := U64ops.wsub (Gas.spent g) (Gas.i64AsU64 g.refunded)
    used ≤ e.tx.gasLimit ∧ floorGas ≤ used ∧ 0 ≤ g.refunded ∧
    g.refunded ≤ ((Gas.spent g / (if GasCalc.enabled spec GasCalc.SpecId.LONDON then 5 else 2) : Nat) : Int) ∧
    used + Gas.i64AsU64 g.refunded + g.remaining = e.tx.gasLimit :=
  Proofs.Evm.finalGas_bounds e spec floorGas eip7702Refund res _ rfl hL hrem hrr h7 hfl

example : ∃ (e : Env) (res : Interp.ChildResult), e.tx.gasLimit < U64 ∧ res.gasRemaining ≤ e.tx.gasLimit ∧
    (I64MIN ≤ res.gasRefunded ∧ res.gasRefunded ≤ I64MAX) ∧ (21000 : Nat) ≤ e.tx.gasLimit :=
  ⟨{ tx := { gasLimit := 100000 } }, { result := .Stop, output := [], gasRemaining := 40000, gasRefunded := 4800 },
   by decide, by decide, by decide, by decide⟩

/-! ## the outcome class -/

/-- every `InstructionResult` other than the four internal flags has an outcome class (`output` does not panic) -/
theorem result_class_total (r : Interp.IResult)
    (h : r ≠ .Continue ∧ r ≠ .CallOrCreate ∧ r ≠ .FatalExternalError ∧ r ≠ .InvalidExtDelegateCallTarget) :
    ∃ c, classOf r = some c := by
  obtain ⟨h1, h2, h3, h4⟩ := h
  cases r <;> first | exact ⟨_, rfl⟩ | contradiction

example : (Interp.IResult.OutOfGas ≠ .Continue ∧ Interp.IResult.OutOfGas ≠ .CallOrCreate ∧
    Interp.IResult.OutOfGas ≠ .FatalExternalError ∧ Interp.IResult.OutOfGas ≠ .InvalidExtDelegateCallTarget) := by decide

/-- `transact_result_class_total`, the part that is proved: every COMPLETED executed transaction ends in exactly one of
success / revert / halt — the class (`SuccessOrHalt::from`) of the final `InstructionResult` of its first frame, never an
internal flag — with `gas_used = spent − refunded` of the handler's final meter (to which `transact_gas_bounds` applies).
That every transaction completes within an explicit fuel bound (`FullStatement_transact_total`) needs the termination
measure of C25 (`run_terminates`, one frame with an abstract child oracle) lifted to the stack of frames: not proved. -/
theorem transact_result_class_total_partial (fuel : Nat) (w w' : World) (e : Evm.Env) (spec : Nat) (r : TxResult)
    (h : transact fuel w e spec = .ok (.executed r, w')) :
    ∃ (res : Interp.ChildResult) (floorGas refund : Nat),
      classOf res.result = some r.cls ∧ r.reason = res.result ∧
      r.gasUsed = U64ops.wsub (Gas.spent (finalGas e (GasCalc.canon spec) floorGas refund res))
                    (Gas.i64AsU64 (finalGas e (GasCalc.canon spec) floorGas refund res).refunded) :=
  Proofs.Evm.transact_class fuel w w' e spec r h

/-- the full statement of totality: on a fresh world whose oracle answers every question the run asks, `2 · gas_limit + 2`
units of fuel always suffice and the run never panics. NOT proved. Reduction available (`Proofs/EvmTerm.lean`,
`runLoop_fuel`, generic in the subroutine discipline): if every iteration from a state satisfying an invariant `I` keeps
`I` and lowers a measure `μ` (or stops with an error other than `outOfFuel`), then with more fuel than `μ` the loop
never runs out of fuel. To instantiate it — `I` = every frame on the stack satisfies C25's interpreter invariant for its
code, the journal is well formed (C07 `Good`), the accounts the frames run on are loaded; `μ` = `2 · Σ (remaining gas +
memory cost paid) + number of frames` ≤ `2 · gas_limit + 1` — one needs C25's `RespOk` for every `EvmHost` answer and
`ChildOk` for every delivered result (`step_good`), `init_inv` for every new frame (byte strings within `isize::MAX` in the
code store, `new_context` / `free_context` keep the memory invariant), L1's frame accounting for the hand-over of gas,
and the panic-freedom of the journal operations (C07 `*_total`) threaded through `make_call_frame`,
`make_create_frame` and the returns. -/
def FullStatement_transact_total : Prop :=
  ∀ (spec : Nat) (pre : List PreAcct) (dbHasStorage : Bool) (oracle : List PcAnswer) (e : Evm.Env),
    (∀ p ∈ pre, p.codeHash = (if p.code.isEmpty then Evm.KECCAK_EMPTY else Keccak.keccak256w p.code)) →
    match transact (2 * e.tx.gasLimit + 2) (Spec.Evm.freshWorld spec pre dbHasStorage oracle) e spec with
    | .ok _ => True
    | .error (.oracleMiss _) => True
    | .error (.fatal _) => True
    | .error _ => False

/-- success is exactly the `return_ok!` results a frame can end with; a `revert` class result gives its gas back
(`return_revert!`) -/
theorem result_class_sound (r : Interp.IResult) :
    (classOf r = some .success ↔ (r.isOk = true ∧ r ≠ .Continue)) ∧
    (classOf r = some .revert → r.isRevert = true) := by
  cases r <;> decide


/-! ## `step_pure_agrees`: the interpreter step against the Yellow-Paper-style rules (`Spec/EvmRules.lean`)

For ANY machine state (any code, pc, stack, memory, gas, environment, fork) whose next opcode belongs to the family,
`Interp.step` is exactly the family's rule: the same stack / pc / gas effect or the same exceptional halt (not activated,
out of gas, stack underflow, stack overflow) with the same machine state. `WF`: the gas meter holds a `u64`, the stack
at most 1024 words `< 2^256`. -/

open Revm.Model.Interp Revm.Spec.EvmRules

/-- the 24 word operations ADD … SAR (without EXP) with their `Spec.Arith` meaning: unbounded arithmetic mod 2^256,
two's complement for the signed ones (through the C03 theorems), static gas 3 / 5 / 8, activation fork -/
theorem step_word_agrees (e : WordEntry) (he : e ∈ wordTable) (s : IState) (hcode : s.code[s.pc]? = some e.op)
    (hwf : WF s) : step s = .pure (e.rule s) :=
  Proofs.EvmStep.step_word_agrees e he s hcode hwf

/-- the 18 environment reads (ADDRESS, ORIGIN, CALLER, CALLVALUE, CALLDATASIZE, CODESIZE, GASPRICE, RETURNDATASIZE,
COINBASE, TIMESTAMP, NUMBER, GASLIMIT, CHAINID, BASEFEE, BLOBBASEFEE, PC, MSIZE, GAS); CODESIZE in legacy code
(`hleg`: in an EOF frame its `assume!(!is_eof)` is violated, a fault of the model) -/
theorem step_env_agrees (e : EnvEntry) (he : e ∈ envTable) (s : IState) (hcode : s.code[s.pc]? = some e.op)
    (hwf : WF s) (hleg : e.op = 0x38 → s.isEof = false) : step s = .pure (e.rule s) :=
  Proofs.EvmStep.step_env_agrees e he s hcode hwf hleg

/-- a state satisfying the hypotheses: `PUSH1 1 PUSH1 2 ADD` at the ADD -/
example : ∃ s : IState, WF s ∧ s.code[s.pc]? = some 0x01 ∧ (⟨0x01, 3, 0, .bin Spec.Arith.add⟩ : WordEntry) ∈ wordTable :=
  ⟨{ IState.init [0x60, 1, 0x60, 2, 0x01] [] 100000 false 17 0 0 0 {} with pc := 4, stack := [1, 2] },
   ⟨by decide, by decide, by decide⟩, by decide, by simp [wordTable, GasCalc.VERYLOW, GasCalc.SpecId.FRONTIER]⟩

/-- EXP with its exponent-length gas (10 resp. 50 per byte from Spurious Dragon) and the `Spec.Arith` power -/
theorem step_exp_agrees (s : IState) (hcode : s.code[s.pc]? = some 0x0a) (hwf : WF s) :
    step s = .pure (expRule s) := Proofs.EvmStep.step_exp s hcode hwf

/-- DIFFICULTY / PREVRANDAO (EIP-4399) -/
theorem step_difficulty_agrees (s : IState) (hcode : s.code[s.pc]? = some 0x44) (hwf : WF s) :
    step s = .pure (difficultyRule s) := Proofs.EvmStep.step_difficulty s hcode hwf.gas

theorem step_pop_agrees (s : IState) (hcode : s.code[s.pc]? = some 0x50) (hwf : WF s) :
    step s = .pure (popRule s) := Proofs.EvmStep.step_pop s hcode hwf.gas

theorem step_push0_agrees (s : IState) (hcode : s.code[s.pc]? = some 0x5f) (hwf : WF s) :
    step s = .pure (push0Rule s) := Proofs.EvmStep.step_push0 s hcode hwf.gas

theorem step_jumpdest_agrees (s : IState) (hcode : s.code[s.pc]? = some 0x5b) (hwf : WF s) :
    step s = .pure (jumpdestRule s) := Proofs.EvmStep.step_jumpdest s hcode hwf.gas

/-- JUMP: the destination must be marked by the jump analysis (C04: exactly the JUMPDESTs at instruction boundaries) -/
theorem step_jump_agrees (s : IState) (hcode : s.code[s.pc]? = some 0x56) (hwf : WF s) :
    step s = .pure (jumpRule s) := Proofs.EvmStep.step_jump s hcode hwf.gas

/-- JUMPI -/
theorem step_jumpi_agrees (s : IState) (hcode : s.code[s.pc]? = some 0x57) (hwf : WF s) :
    step s = .pure (jumpiRule s) := Proofs.EvmStep.step_jumpi s hcode hwf.gas

/-- DUP1 … DUP16 -/
theorem step_dup_agrees (s : IState) (n : Fin 16) (hcode : s.code[s.pc]? = some (0x80 + n.val)) (hwf : WF s) :
    step s = .pure (dupRule (n.val + 1) s) :=
  Proofs.EvmStep.step_dup s _ n hcode (Proofs.EvmStep.decode_dup n) hwf.gas

/-- SWAP1 … SWAP16 -/
theorem step_swap_agrees (s : IState) (n : Fin 16) (hcode : s.code[s.pc]? = some (0x90 + n.val)) (hwf : WF s) :
    step s = .pure (swapRule (n.val + 1) s) :=
  Proofs.EvmStep.step_swap s _ n hcode (Proofs.EvmStep.decode_swap n) hwf.gas

/-- PUSH1 … PUSH32: the immediate bytes, big-endian -/
theorem step_push_agrees (s : IState) (n : Fin 32) (hcode : s.code[s.pc]? = some (0x60 + n.val)) (hwf : WF s) :
    step s = .pure (pushRule (n.val + 1) s) :=
  Proofs.EvmStep.step_push s _ n hcode (Proofs.EvmStep.decode_push n) hwf.gas hwf.depth

/-! ## `host_agrees`: what the interpreter is told about the state is what the abstract state holds

`Spec.JournalAbs.absAcct` is the observable content of the journaled state (C06): an address absent from the journal's
map is the database's account, cold unless pre-warmed. The answers of the journal-backed host (`Evm.answer`, the model
of `impl Host for Context`) for the state-reading instructions carry exactly the abstract values and cold flags, from
which the interpreter computes results and gas (C14's formulas). -/

open Revm.Spec.JournalAbs in
/-- BALANCE / SELFBALANCE -/
theorem host_balance_agrees (he : HostEnv) (w w' : World) (a : Nat) (resp : HostResp)
    (h : answer he w (.balance a) = .ok (resp, w')) :
    resp.word = (absAcct w.db w.js a).balance ∧ resp.isCold = !(absAcct w.db w.js a).warm ∧ resp.ok = true :=
  Proofs.EvmHost.balance_agrees he w w' a resp h

open Revm.Spec.JournalAbs in
/-- SLOAD -/
theorem host_sload_agrees (he : HostEnv) (w w' : World) (a k : Nat) (resp : HostResp)
    (h : answer he w (.sload a k) = .ok (resp, w')) :
    resp.word = ((absAcct w.db w.js a).slot k).present ∧ resp.isCold = !((absAcct w.db w.js a).slot k).warm ∧
    resp.ok = true :=
  Proofs.EvmHost.sload_agrees he w w' a k resp h

open Revm.Spec.JournalAbs in
/-- SSTORE: the (original, present, new, cold) tuple behind EIP-2200 / 2929 / 3529 gas and refunds -/
theorem host_sstore_agrees (he : HostEnv) (w w' : World) (a k v : Nat) (resp : HostResp)
    (h : answer he w (.sstore a k v) = .ok (resp, w')) :
    resp.original = ((absAcct w.db w.js a).slot k).orig ∧ resp.present = ((absAcct w.db w.js a).slot k).present ∧
    resp.new = v ∧ resp.isCold = !((absAcct w.db w.js a).slot k).warm :=
  Proofs.EvmHost.sstore_agrees he w w' a k v resp h

open Revm.Spec.JournalAbs in
/-- SLOAD end to end on the journal-backed machine: the instruction asks for the slot of the executing account, and
continues with the abstract state's present value on the stack, charged `sloadCost` of the fork and of the slot's
warmth (EIP-2929: 2100 cold / 100 warm; 800 / 200 / 50 before Berlin); `step_sload_agrees` + `host_sload_agrees` -/
theorem sload_end_to_end (he : HostEnv) (w w' : World) (s : IState) (key : Nat) (rest : List Nat) (resp : HostResp)
    (hcode : s.code[s.pc]? = some 0x54) (hwf : WF s) (hstack : s.stack.reverse = key :: rest)
    (hans : answer he w (.sload s.target key) = .ok (resp, w')) :
    ∃ k, step s = .host (.sload s.target key) k ∧
      k resp =
        (let slot := (absAcct w.db w.js s.target).slot key
         let cost := GasCalc.sloadCost s.spec (!slot.warm)
         if s.gas.remaining < cost then Done.halt .OutOfGas [] (adv s)
         else .next { charge (adv s) cost with stack := (slot.present :: rest).reverse }) := by
  obtain ⟨hv, hc, hok⟩ := Proofs.EvmHost.sload_agrees he w w' s.target key resp hans
  refine ⟨sloadAfter (adv s) rest, ?_, ?_⟩
  · rw [Proofs.EvmStep.step_sload s hcode hwf.gas]
    unfold sloadRule
    rw [hstack]
  · unfold sloadAfter
    simp only [hok, Bool.not_true, Bool.false_eq_true, if_false, hv, hc]
    rfl

/-- SLOAD: one host question, then `sloadAfter` -/
theorem step_sload_agrees (s : IState) (hcode : s.code[s.pc]? = some 0x54) (hwf : WF s) :
    step s = sloadRule s := Proofs.EvmStep.step_sload s hcode hwf.gas

/-- TLOAD (EIP-1153) -/
theorem step_tload_agrees (s : IState) (hcode : s.code[s.pc]? = some 0x5c) (hwf : WF s) :
    step s = tloadRule s := Proofs.EvmStep.step_tload s hcode hwf.gas

/-- TLOAD -/
theorem host_tload_agrees (he : HostEnv) (w w' : World) (a k : Nat) (resp : HostResp)
    (h : answer he w (.tload a k) = .ok (resp, w')) : resp.word = Journal.tload w.js a k ∧ w' = w :=
  Proofs.EvmHost.tload_agrees he w w' a k resp h

/-- the host hypotheses are satisfiable: a balance query on a fresh journal over a one-account database -/
example : ∃ r, answer { blockNumber := 1 }
    { js := Journal.JState.new 17 (fun _ => false),
      pre := [{ addr := 0xaa, balance := 7, nonce := 0, code := [], codeHash := Evm.KECCAK_EMPTY, storage := [] }] }
    (.balance 0xaa) = .ok r :=
  Proofs.Evm.exists_of_isOk (by decide +kernel)


/-! ## the closed statement, and what is proved of it

`Spec.Evm.transact` is the transaction of the execution specification as far as this development states it: the
instruction semantics, host effects, message-call / creation rules and transaction handler of `Evm.transactWith`, run
with the specification's state discipline — every subroutine SAVES the state it starts from and a failing one RESTORES
it (EELS `begin_transaction` / `rollback_transaction`), accessed sets, transient storage and logs included — instead of
the code's journal of undo entries. The statement: for every pre-state, oracle, environment, transaction and SpecId,
the model (= the code, by correspondence) and the specification yield the same outcome class, gas used, refund, return
data, created address, logs and post-state of the touched accounts (and, when the model stops with an error of the
model — panic, fatal database / precompile error, missing oracle answer, fuel — the specification stops with the same
kind of error).

The pre-state is a database with 256-bit balances (the model's words are unbounded naturals) and a FAITHFUL
`has_storage` (`dbHasStorage = true`; with the default `has_storage = false` the creation rules themselves differ from
the execution specification — the known findings of C20 / C21 — and C06's revert theorem is stated under `DbOk`). -/

open Revm.Spec.Evm in
def FullStatement_transact_refines_spec : Prop :=
  ∀ (fuel spec : Nat) (pre : List PreAcct) (oracle : List PcAnswer) (e : Evm.Env),
    (∀ p ∈ pre, p.balance < W) →
    ObsEq (Evm.transact fuel (freshWorld spec pre true oracle) e spec)
          (Spec.Evm.transact fuel (freshWorld spec pre true oracle) e spec)

open Revm.Spec.Evm in
/-- PROVED of `FullStatement_transact_refines_spec`: the statement for EVERY ADMISSIBLE RUN, completed or not — every
program, transaction type, SpecId, depth of nesting and fuel; a run that stops with a model-level error (panic, fatal
database / precompile error, missing oracle answer, out of fuel) is matched by the same KIND of error of the
specification (`Proofs/EvmRR.lean`: the relation `RR` of results is a congruence for `bind`; `Proofs/EvmSimE.lean`,
`EvmSimTxE.lean`, `EvmRefineE1…E7.lean`). The only hypothesis: the strict run does
not stop AT ONE OF ITS TWO CHECKS (`StopsInadmissible`). `transactStrict` is the model (`Evm.transact`, journal of undo
entries) with the two admissibility conditions of C06 checked at run time (Spec/EvmStrict.lean): `set_code` only on an
account with empty code, `create_account_checkpoint` only on a target not yet created in this transaction. A completed
strict run IS a run of the model with the same result (`Proofs.EvmRefine.strict_is_model`), and the specification then
completes with the same outcome and the same observable post-state.

How: the generic simulation over the subroutine discipline (`Proofs/EvmSim.lean`, `EvmSimTx.lean`: `runLoop_sim`,
`transactWith_sim` — host answers, frame creation, frame return, validation, pre- and post-execution as obligations on a
relation between configurations), instantiated with `CfgRel` (`Proofs/EvmRefineCfg.lean`): the journal state is
observably the snapshot state (`JRel`: same domain, same account contents up to code caches and the representation of
unread slots), and every open checkpoint carries the C06 history since it was taken (`Chain`), so that a failing frame
closes by C06's `revert_restores` (no panic, `AbsEq` with the state at the checkpoint) plus what undo keeps
(`revert_rel`), a successful one by folding its history into the enclosing one. The other admissibility conditions of
C06 are DISCHARGED from the frame machine: the caller of a creation is funded (`make_create_frame` checks it, the nonce
bump and the load of the target keep it), the `has_storage` answer is faithful, `initial_account_load` only runs before
the first checkpoint (`load_accounts`), a reverted checkpoint is the innermost open one.

MISSING for the full statement: (1) that every run of the model is admissible, i.e. `transactStrict` never stops at one
of its two checks — true when `keccak256` address derivation does not collide within a transaction (a created
address is fresh; the code of an address under creation can only change by its own `create_return`), which this
development does not assume; (2) as before, the CALL / CREATE gas bookkeeping across frames, precompile internals and signature
recovery are shared by both sides (oracle inputs / the same functions), so nothing is claimed about them here. -/
theorem transact_refines_spec_partial (fuel spec : Nat) (pre : List PreAcct) (oracle : List PcAnswer) (e : Evm.Env)
    (hbal : ∀ p ∈ pre, p.balance < W)
    (hadm : ¬ Proofs.EvmRefine.StopsInadmissible (transactStrict fuel (freshWorld spec pre true oracle) e spec)) :
    ObsEq (Evm.transact fuel (freshWorld spec pre true oracle) e spec)
          (Spec.Evm.transact fuel (freshWorld spec pre true oracle) e spec) :=
  Proofs.EvmRefine.transact_refines_spec_total fuel _ e spec (Proofs.EvmRefine.start_fresh spec pre oracle hbal) hadm

open Revm.Spec.Evm in
/-- the form for completed runs: a run of the strict machine that completes does not stop at a check -/
theorem transact_refines_spec_completed (fuel spec : Nat) (pre : List PreAcct) (oracle : List PcAnswer) (e : Evm.Env)
    (hbal : ∀ p ∈ pre, p.balance < W)
    (hrun : ∃ x, transactStrict fuel (freshWorld spec pre true oracle) e spec = .ok x) :
    ObsEq (Evm.transact fuel (freshWorld spec pre true oracle) e spec)
          (Spec.Evm.transact fuel (freshWorld spec pre true oracle) e spec) := by
  refine transact_refines_spec_partial fuel spec pre oracle e hbal ?_
  rintro ⟨err, herr, _⟩
  obtain ⟨x, hx⟩ := hrun
  rw [hx] at herr; cases herr

open Revm.Spec.Evm in
/-- the hypotheses are satisfiable, with a run that reverts a subroutine: a call with value to a contract that writes a
storage slot and reverts (`PUSH1 1 PUSH1 0 SSTORE PUSH1 0 PUSH1 0 REVERT`) — the journal undoes the transfer, the touch,
the warming and the write; the specification restores the snapshot -/
example : ∃ x, transactStrict 50
    (freshWorld 17 [{ addr := 0xaa, balance := 10^18, nonce := 0, code := [], codeHash := Evm.KECCAK_EMPTY, storage := [] },
      { addr := 0xbb, balance := 1, nonce := 1, code := [0x60, 0x01, 0x60, 0x00, 0x55, 0x60, 0x00, 0x60, 0x00, 0xfd],
        codeHash := 0x1234, storage := [] }] true [])
    { block := { gasLimit := 30000000, basefee := 7, prevrandao := some 0, blobGasPrice := some 1 },
      tx := { caller := 0xaa, gasLimit := 100000, gasPrice := 10, to := some 0xbb, value := 5, nonce := some 0 } }
    17 = .ok x :=
  Proofs.Evm.exists_of_isOk (by decide +kernel)

open Revm.Spec.Evm in
/-- WHERE the admissibility hypothesis is used, as two named conditions on the world at the only two places of the frame
machine that consult it. The strict machine differs from the model exactly there:
* `create_account_checkpoint` in `make_create_frame` — it is the model's under `CreateTargetFresh w a has_storage` (the
  target is not an account already created in this transaction unless the collision check fires anyway) and stops
  otherwise;
* `set_code` in `create_return` — it is the model's under `CodeEmptyAt w a` (the code of the address whose creation
  returns is still empty) and stops otherwise.
Both are consequences of the freshness of `CREATE` / `CREATE2` address derivation inside one transaction (a derived
address is not that of an account created earlier in the transaction that still has empty code and nonce 0); from
Spurious Dragon on the created account carries nonce 1, so the collision check alone gives `CreateTargetFresh`
(`Proofs.EvmRefine.createTargetFresh_of_nonce`) once `created → nonce ≠ 0` is known along the run. Deriving the two
conditions for every reachable state is an invariant of the whole run (the addresses of the open creations) that is NOT
proved here: `¬ StopsInadmissible` stays the hypothesis of `transact_refines_spec_partial`, and the driver evaluates it
on the tested transactions. -/
theorem admissibility_sites (w : World) (caller a : Nat) (hs : Bool) (v spec hash : Nat) :
    ((Proofs.EvmRefine.CreateTargetFresh w a hs →
        journalOpsStrict.createCheckpoint w caller a hs v spec = journalOps.createCheckpoint w caller a hs v spec) ∧
      (¬ Proofs.EvmRefine.CreateTargetFresh w a hs →
        ∃ e, journalOpsStrict.createCheckpoint w caller a hs v spec = .error e ∧ Proofs.EvmRR.Esc e)) ∧
    ((Proofs.EvmRefine.CodeEmptyAt w a → journalOpsStrict.setCode w a hash = journalOps.setCode w a hash) ∧
      (¬ Proofs.EvmRefine.CodeEmptyAt w a →
        ∃ e, journalOpsStrict.setCode w a hash = .error e ∧ Proofs.EvmRR.Esc e)) :=
  ⟨Proofs.EvmRefine.strict_create_iff w caller a hs v spec, Proofs.EvmRefine.strict_setCode_iff w a hash⟩

/-- the hypotheses are satisfiable: nothing is loaded in a fresh world, both conditions hold -/
example : Proofs.EvmRefine.CreateTargetFresh (Spec.Evm.freshWorld 17 [] true []) 0xaa false ∧
    Proofs.EvmRefine.CodeEmptyAt (Spec.Evm.freshWorld 17 [] true []) 0xaa :=
  ⟨fun acc h => by simp [Spec.Evm.freshWorld, Journal.JState.new] at h,
   fun acc h => by simp [Spec.Evm.freshWorld, Journal.JState.new] at h⟩

open Revm.Spec.Evm in
/-- the same from any world that satisfies `Start` (not only a fresh one): the journal has its transaction level, code
caches hold the code of their hash, the address list is the domain of the state map, faithful `has_storage`, 256-bit
balances, journal well-formedness -/
theorem transact_refines_spec_from (fuel : Nat) (w : World) (e : Evm.Env) (spec : Nat)
    (hw : Proofs.EvmRefine.Start w) (hrun : ∃ x, transactStrict fuel w e spec = .ok x) :
    ObsEq (Evm.transact fuel w e spec) (Spec.Evm.transact fuel w e spec) := by
  obtain ⟨x, hx⟩ := hrun
  exact Proofs.EvmRefine.transact_refines_spec_of_strict fuel w e spec hw x hx

open Revm.Spec.Evm in
/-- a completed admissible run is a run of the model: the strict machine only adds two checks -/
theorem transactStrict_is_transact (fuel : Nat) (w : World) (e : Evm.Env) (spec : Nat) (x : Evm.Outcome × World)
    (h : transactStrict fuel w e spec = .ok x) : Evm.transact fuel w e spec = .ok x :=
  Proofs.EvmRefine.strict_is_model fuel w e spec x h

open Revm.Spec.Evm in
/-- independently of admissibility: every transaction that validation does not accept (rejected, or failing before
execution), for every world -/
theorem transact_refines_spec_not_accepted (fuel : Nat) (w : World) (e : Evm.Env) (spec : Nat)
    (h : ∀ x, preverify w e (GasCalc.canon spec) ≠ .ok (some x)) :
    ObsEq (Evm.transact fuel w e spec) (Spec.Evm.transact fuel w e spec) :=
  Proofs.Evm.refines_spec_of_not_accepted fuel w e spec h

/-- the hypothesis is satisfiable: a transaction whose gas limit is below the intrinsic cost is not accepted -/
example : ∃ (w : World) (e : Evm.Env), ∀ x, preverify w e (GasCalc.canon 17) ≠ .ok (some x) :=
  ⟨Spec.Evm.freshWorld 17 [] true [],
   { block := { gasLimit := 30000000, prevrandao := some 0, blobGasPrice := some 1 },
     tx := { caller := 0xaa, gasLimit := 20999, to := some 0xbb } },
   Proofs.Evm.ne_some_of_notAccepted (by decide +kernel)⟩

end Revm.Props.C01
