import Revm.Proofs.InspectorWrapEx
import Revm.Gen.Tables
/-! C28 — observing inspectors do not change execution.

"For every transaction, running it with an inspector that only observes (the no-op inspector, the gas
inspector, the EIP-3155 tracer) produces the same result, gas, logs and state changes as running it
without an inspector."

`Model.InspectorWrap` models `inspector_handle_register` as a transformer `wrap ops obs` of an ARBITRARY
frame machine `m` (instruction table and frame handlers are arbitrary functions), together with the
driver that runs either machine (`Interpreter::step` / `run`, `execute_frame`, `run_the_loop`, first frame,
`last_frame_return`).  The theorems say: if the inspector is `Observing` (its callbacks return the
interpreter, context and inputs unchanged, return `None`, and return outcomes related by `rel` to what
they received) and the machine's outcome consumers `Respects` that relation, then for every machine,
every first input, every context, every fuel and every initial content of the wrapper's input stacks the
wrapped run returns exactly what the plain run returns: the same `FrameResult` (class, output, gas),
the same context (journal, logs, state), the same error — and never an additional panic (the input stacks
are never popped empty).  Everything downstream (`refund`, `reimburse_caller`, `reward_beneficiary`,
`output`) is not wrapped by the register and receives equal arguments.

* `NoOpInspector` is `Observing` with `rel = equality`, for which every machine qualifies.
* `GasInspector` and `TracerEip3155` are NOT observing up to equality: `call_end` / `create_end` call
  `gas.spend_all()` on an error-class outcome (`gas_inspector_modifies_outcome`).  They are observing up to
  `ORel.errGas` (gas of ERROR-class outcomes is arbitrary), and the consumers of the code
  (`insert_call_outcome`, `insert_create_outcome`, `insert_eofcreate_outcome`, mainnet and Optimism
  `last_frame_return`, transcribed line by line) never read the gas of an error-class outcome
  (`…_blind`), hence `gas_inspector_invisible_because_error_gas_unread`.  With a consumer that does read it
  the modification becomes visible (`gas_inspector_visible_to_gas_reading_consumer`): for these two
  inspectors the property is a property of inspector AND handlers together.

Statements only; proofs in `Revm.Proofs.InspectorWrap*`. -/
namespace Revm.Props.C28
open Revm Revm.Model.InspectorWrap
open Revm.Proofs.InspectorWrap (withObs dropW pushCall pushCreate pushEof)

variable {T : Ty} {S : Type}

/-! ## `InstructionResult` classes: the model's table is the compiled code's table -/

/-- `is_ok / is_revert / is_error` of every `InstructionResult` variant, as dumped from the compiled
implementation on this run, equal the model's classification -/
theorem ir_table_eq : irTable = Revm.Gen.iresult := by decide

/-- every variant lies in exactly one of the classes ok / revert / error, or is `CallOrCreate` -/
theorem ir_classes_disjoint (r : IR) :
    (r.isOk = true ∧ r.isRevert = false ∧ r.isError = false) ∨
    (r.isOk = false ∧ r.isRevert = true ∧ r.isError = false) ∨
    (r.isOk = false ∧ r.isRevert = false ∧ r.isError = true) ∨
    (r = .CallOrCreate ∧ r.isOk = false ∧ r.isRevert = false ∧ r.isError = false) :=
  Proofs.InspectorWrap.ir_classes r

/-! ## The wrapped instruction -/

/-- `inspector_instruction`: on a running interpreter (`instruction_result == Continue`, the loop condition
of `Interpreter::run`) whose pointer was advanced by `step` (`1 ≤ ip`), `ip − 1 … ip + 1` nets to the
identity and the wrapped instruction executes exactly the plain instruction; only the inspector's own
state changes (the input stacks do not). -/
theorem wrapped_instruction_eq {rel : ORel} {obs : Observer T S} (h : Observing obs rel)
    (instr : IState T → T.E → IState T × T.E) (st : IState T) (e : T.E) (w : WState T S)
    (hc : st.instructionResult = .Continue) (hip : 1 ≤ st.ip) :
    ∃ s', inspectorInstruction obs (liftInstr instr) st (e, w) = ((instr st e).1, ((instr st e).2, withObs w s')) :=
  Proofs.InspectorWrap.inspectorInstruction_running h instr st (e, w) hc hip

/-- what happens otherwise: entered with `instruction_result ≠ Continue`, the wrapper returns early — the
instruction is not executed and the pointer stays decremented. (`run` never does this: see
`wrapped_run_eq`, which needs no such hypothesis.) -/
theorem wrapped_instruction_halted {rel : ORel} {obs : Observer T S} (h : Observing obs rel)
    (prev : IState T → T.E × WState T S → IState T × (T.E × WState T S)) (st : IState T) (e : T.E)
    (w : WState T S) (hc : st.instructionResult ≠ .Continue) :
    ∃ s', inspectorInstruction obs prev st (e, w) = ({ st with ip := st.ip - 1 }, (e, withObs w s')) :=
  Proofs.InspectorWrap.inspectorInstruction_halted h prev st (e, w) hc

/-- every entry of the wrapped table (incl. the LOG0–LOG4 and SELFDESTRUCT double wrappers) -/
theorem wrapped_table_eq {rel : ORel} {obs : Observer T S} (h : Observing obs rel) (ops : EnvOps T)
    (table : Nat → IState T → T.E → IState T × T.E) (opcode : Nat) (st : IState T) (e : T.E) (w : WState T S)
    (hc : st.instructionResult = .Continue) (hip : 1 ≤ st.ip) :
    ∃ s', wrapTable ops obs table opcode st (e, w) =
      ((table opcode st e).1, ((table opcode st e).2, withObs w s')) :=
  Proofs.InspectorWrap.wrapTable_running h ops table opcode st (e, w) hc hip

/-- the `unwrap` of the last log in the LOG wrapper is safe -/
theorem log_wrapper_unwrap_safe {α : Type} (l : List α) (n : Nat) (h : l.length = n + 1) :
    l.getLast?.isSome = true :=
  Proofs.InspectorWrap.log_unwrap_safe l n h

/-- `Interpreter::step` (fetch, advance, dispatch) on a running interpreter: no hypothesis on `ip` -/
theorem wrapped_step_eq {rel : ORel} {obs : Observer T S} (h : Observing obs rel) (ops : EnvOps T)
    (m : Machine T T.E) (st : IState T) (e : T.E) (w : WState T S) (hc : st.instructionResult = .Continue) :
    ∃ s', (wrap ops obs m).step st (e, w) = ((m.step st e).1, ((m.step st e).2, withObs w s')) :=
  Proofs.InspectorWrap.wrap_step h ops m st (e, w) hc

/-- `Interpreter::run`, any number of instructions, any start state: same action, same interpreter, same
context; out of fuel at the same fuel -/
theorem wrapped_run_eq {rel : ORel} {obs : Observer T S} (h : Observing obs rel) (ops : EnvOps T)
    (m : Machine T T.E) (fuel : Nat) (st : IState T) (mem : T.Mem) (e : T.E) (w : WState T S) :
    ∃ s', (wrap ops obs m).run fuel st mem (e, w) =
      Proofs.InspectorWrap.liftAct w s' (m.run fuel st mem e) :=
  Proofs.InspectorWrap.wrap_run h ops m fuel st mem (e, w)

/-! ## The wrapped frame handlers -/

/-- `call` / `create` / `eofcreate`: the previous handler's answer, the inputs pushed on the stack of that kind -/
theorem wrapped_frame_handlers_eq {rel : ORel} {obs : Observer T S} (h : Observing obs rel) (ops : EnvOps T)
    (m : Machine T T.E) (e : T.E) (w : WState T S) :
    (∀ i, ∃ s', (wrap ops obs m).call (e, w) i = liftRes (withObs (pushCall w i) s') (m.call e i)) ∧
    (∀ i, ∃ s', (wrap ops obs m).create (e, w) i = liftRes (withObs (pushCreate w i) s') (m.create e i)) ∧
    (∀ i, ∃ s', (wrap ops obs m).eofcreate (e, w) i = liftRes (withObs (pushEof w i) s') (m.eofcreate e i)) :=
  ⟨fun i => Proofs.InspectorWrap.wrap_call h ops m (e, w) i,
   fun i => Proofs.InspectorWrap.wrap_create h ops m (e, w) i,
   fun i => Proofs.InspectorWrap.wrap_eofcreate h ops m (e, w) i⟩

/-- `insert_call_outcome` with a non-empty input stack: the previous handler's answer on the ORIGINAL outcome,
one input popped. (With an empty stack the wrapper panics: `wrapped_insert_empty_stack_panics`.) -/
theorem wrapped_insert_call_outcome_eq {rel : ORel} {obs : Observer T S} (h : Observing obs rel)
    (ops : EnvOps T) (m : Machine T T.E) (hr : Respects m rel) (e : T.E) (w : WState T S) (f : Frame T)
    (sh : T.Mem) (o : CallOutcome) (x : T.CallIn) (rest : List T.CallIn) (hst : w.callStack = x :: rest) :
    ∃ s', Proofs.InspectorWrap.RSim
      (fun a b => b = (a.1, a.2.1, (a.2.2, ({ w with obs := s', callStack := rest } : WState T S))))
      (m.insertCallOutcome e f sh o) ((wrap ops obs m).insertCallOutcome (e, w) f sh o) :=
  Proofs.InspectorWrap.wrap_insertCall h ops m hr (e, w) f sh o x rest hst

theorem wrapped_insert_create_outcome_eq {rel : ORel} {obs : Observer T S} (h : Observing obs rel)
    (ops : EnvOps T) (m : Machine T T.E) (hr : Respects m rel) (e : T.E) (w : WState T S) (f : Frame T)
    (o : CreateOutcome) (x : T.CreateIn) (rest : List T.CreateIn) (hst : w.createStack = x :: rest) :
    ∃ s', Proofs.InspectorWrap.RSim
      (fun a b => b = (a.1, (a.2, ({ w with obs := s', createStack := rest } : WState T S))))
      (m.insertCreateOutcome e f o) ((wrap ops obs m).insertCreateOutcome (e, w) f o) :=
  Proofs.InspectorWrap.wrap_insertCreate h ops m hr (e, w) f o x rest hst

theorem wrapped_insert_eofcreate_outcome_eq {rel : ORel} {obs : Observer T S} (h : Observing obs rel)
    (ops : EnvOps T) (m : Machine T T.E) (hr : Respects m rel) (e : T.E) (w : WState T S) (f : Frame T)
    (o : CreateOutcome) (x : T.EofIn) (rest : List T.EofIn) (hst : w.eofStack = x :: rest) :
    ∃ s', Proofs.InspectorWrap.RSim
      (fun a b => b = (a.1, (a.2, ({ w with obs := s', eofStack := rest } : WState T S))))
      (m.insertEofcreateOutcome e f o) ((wrap ops obs m).insertEofcreateOutcome (e, w) f o) :=
  Proofs.InspectorWrap.wrap_insertEofcreate h ops m hr (e, w) f o x rest hst

/-- `last_frame_return` with the first frame's inputs still on their stack -/
theorem wrapped_last_frame_return_eq {rel : ORel} {obs : Observer T S} (h : Observing obs rel)
    (ops : EnvOps T) (m : Machine T T.E) (hr : Respects m rel) (e : T.E) (w : WState T S) (r : FrameResult)
    (hlen : 1 ≤ Proofs.InspectorWrap.wlen (Proofs.InspectorWrap.kindOf r) w) :
    Proofs.InspectorWrap.RSim (fun a b => b.1 = a.1 ∧ b.2.1 = a.2)
      (m.lastFrameReturn e r) ((wrap ops obs m).lastFrameReturn (e, w) r) :=
  Proofs.InspectorWrap.wrap_lastFrameReturn h ops m hr (e, w) r hlen

/-- popping an empty input stack is a Rust panic (`.pop().unwrap()`); `inspected_eq_plain` shows that no run
started through the first-frame handler gets there -/
theorem wrapped_insert_empty_stack_panics (ops : EnvOps T) (obs : Observer T S) (m : Machine T T.E)
    (e : T.E) (w : WState T S) (f : Frame T) (sh : T.Mem) (o : CallOutcome) (hst : w.callStack = []) :
    (wrap ops obs m).insertCallOutcome (e, w) f sh o = .panic := by
  show (match w.callStack with | [] => _ | _ :: _ => _) = _
  rw [hst]

/-! ## Whole runs -/

/-- MAIN THEOREM, general form. For every frame machine `m`, every inspector that is `Observing` up to `rel`,
if `m`'s outcome consumers respect `rel`: for every fuel (number of loop iterations / instructions), every
first input, every context `e` and every wrapper state `w` (whatever is left on the input stacks by earlier
transactions), first frame + `run_the_loop` + `last_frame_return` of the wrapped machine return what the
plain machine returns. -/
theorem inspected_eq_plain_mod {rel : ORel} {obs : Observer T S} (h : Observing obs rel) (ops : EnvOps T)
    (m : Machine T T.E) (hr : Respects m rel) (fuel : Nat) (inp : FirstInput T) (e : T.E) (w : WState T S) :
    dropW ((wrap ops obs m).exec fuel inp (e, w)) = m.exec fuel inp e :=
  Proofs.InspectorWrap.exec_eq h ops m hr fuel inp (e, w)

/-- MAIN THEOREM for strictly observing inspectors (outcomes returned unchanged): holds for EVERY frame
machine, no condition on the handlers. -/
theorem inspected_eq_plain {obs : Observer T S} (h : Observing obs ORel.eq) (ops : EnvOps T)
    (m : Machine T T.E) (fuel : Nat) (inp : FirstInput T) (e : T.E) (w : WState T S) :
    dropW ((wrap ops obs m).exec fuel inp (e, w)) = m.exec fuel inp e :=
  Proofs.InspectorWrap.exec_eq h ops m (Proofs.InspectorWrap.respects_eq m) fuel inp (e, w)

/-! ## NoOpInspector -/

/-- `NoOpInspector` (all trait defaults) is strictly observing -/
theorem noop_observing (T : Ty) : Observing (noop T) ORel.eq :=
  Proofs.InspectorWrap.noop_observing T

/-- hence invisible on every machine -/
theorem noop_inspected_eq_plain (ops : EnvOps T) (m : Machine T T.E) (fuel : Nat) (inp : FirstInput T)
    (e : T.E) (w : WState T Unit) :
    dropW ((wrap ops (noop T) m).exec fuel inp (e, w)) = m.exec fuel inp e :=
  inspected_eq_plain (noop_observing T) ops m fuel inp e w

/-! ## GasInspector -/

/-- `GasInspector::call_end` DOES modify the outcome: an `InvalidJump` halt with 40 gas left comes back with
0 gas left. So `GasInspector` is not observing in the strict sense. -/
theorem gas_inspector_modifies_outcome (T : Ty) (e : T.E) (i : T.CallIn) :
    ((gasInspector T).callEnd GasInsp.default e i
        { result := { result := .InvalidJump, output := [], gas := { limit := 100, remaining := 40, refunded := 0 } },
          memoryOffset := (0, 0) }).2.2
      = { result := { result := .InvalidJump, output := [], gas := { limit := 100, remaining := 0, refunded := 0 } },
          memoryOffset := (0, 0) } := rfl

theorem gas_inspector_not_strictly_observing (T : Ty) (e : T.E) (i : T.CallIn) :
    ¬ Observing (gasInspector T) ORel.eq := by
  intro h
  have := (h.callEnd GasInsp.default e i
    { result := { result := .InvalidJump, output := [], gas := { limit := 100, remaining := 40, refunded := 0 } },
      memoryOffset := (0, 0) }).2
  rw [gas_inspector_modifies_outcome] at this
  have h2 : (0 : Nat) = 40 := congrArg (fun o : CallOutcome => o.result.gas.remaining) this
  exact absurd h2 (by decide)

/-- exact characterisation of the modification: nothing but the gas of ERROR-class outcomes -/
theorem gas_inspector_observing (T : Ty) : Observing (gasInspector T) ORel.errGas :=
  Proofs.InspectorWrap.gasInspector_observing T

/-- the transformation itself: identity unless the result is error-class, then exactly `spend_all` -/
theorem gas_end_result_char (s : GasInsp) (r : InterpreterResult) :
    (gasEndResult s r).2 = if r.result.isError then { r with gas := { r.gas with remaining := 0 } } else r := by
  unfold gasEndResult; split <;> rfl

/-- the consumers of the code never read the gas of an error-class outcome -/
theorem insert_call_outcome_blind (io : InterpOps T) (st : IState T) (sh : T.Mem) (o o' : CallOutcome)
    (h : ORel.errGas.call o o') : insertCallOutcome io st sh o' = insertCallOutcome io st sh o :=
  Proofs.InspectorWrap.insertCallOutcome_blind io st sh o o' h

theorem insert_create_outcome_blind (io : InterpOps T) (st : IState T) (o o' : CreateOutcome)
    (h : ORel.errGas.create o o') : insertCreateOutcome io st o' = insertCreateOutcome io st o :=
  Proofs.InspectorWrap.insertCreateOutcome_blind io st o o' h

theorem insert_eofcreate_outcome_blind (io : InterpOps T) (st : IState T) (o o' : CreateOutcome)
    (h : ORel.errGas.create o o') : insertEofcreateOutcome io st o' = insertEofcreateOutcome io st o :=
  Proofs.InspectorWrap.insertEofcreateOutcome_blind io st o o' h

theorem last_frame_return_blind (lim : Nat) :
    (∀ o o', ORel.errGas.call o o' → lastFrameReturn lim (.call o') = lastFrameReturn lim (.call o)) ∧
    (∀ o o', ORel.errGas.create o o' → lastFrameReturn lim (.create o') = lastFrameReturn lim (.create o)) ∧
    (∀ o o', ORel.errGas.create o o' → lastFrameReturn lim (.eofcreate o') = lastFrameReturn lim (.eofcreate o)) :=
  ⟨fun o o' h => Proofs.InspectorWrap.lastFrameReturn_blind_call lim o o' h,
   fun o o' h => (Proofs.InspectorWrap.lastFrameReturn_blind_create lim o o' h).1,
   fun o o' h => (Proofs.InspectorWrap.lastFrameReturn_blind_create lim o o' h).2⟩

theorem optimism_last_frame_return_blind (lim : Nat) (dep : Bool) (sys : Option Bool) (reg : Bool) :
    (∀ o o', ORel.errGas.call o o' →
      lastFrameReturnOp lim dep sys reg (.call o') = lastFrameReturnOp lim dep sys reg (.call o)) ∧
    (∀ o o', ORel.errGas.create o o' →
      lastFrameReturnOp lim dep sys reg (.create o') = lastFrameReturnOp lim dep sys reg (.create o)) ∧
    (∀ o o', ORel.errGas.create o o' →
      lastFrameReturnOp lim dep sys reg (.eofcreate o') = lastFrameReturnOp lim dep sys reg (.eofcreate o)) :=
  ⟨fun o o' h => Proofs.InspectorWrap.lastFrameReturnOp_blind_call lim dep sys reg o o' h,
   fun o o' h => (Proofs.InspectorWrap.lastFrameReturnOp_blind_create lim dep sys reg o o' h).1,
   fun o o' h => (Proofs.InspectorWrap.lastFrameReturnOp_blind_create lim dep sys reg o o' h).2⟩

/-- a machine with the mainnet (or Optimism) outcome consumers respects `errGas` -/
theorem mainnet_respects {ops : EnvOps T} {io : InterpOps T} {m : Machine T T.E}
    (hm : MainnetConsumers ops io m) : Respects m ORel.errGas :=
  Proofs.InspectorWrap.mainnet_respects hm

theorem optimism_respects {ops : EnvOps T} {io : InterpOps T} {dep : T.E → Bool} {sys : T.E → Option Bool}
    {reg : Bool} {m : Machine T T.E} (hm : OptimismConsumers ops io dep sys reg m) : Respects m ORel.errGas :=
  Proofs.InspectorWrap.optimism_respects hm

/-- `GasInspector` is invisible because error outcomes return no gas to anybody: on every machine whose four
outcome consumers are the mainnet handlers (instruction table, `call` / `create` / `eofcreate`, `*_return`
arbitrary), for every run. -/
theorem gas_inspector_invisible_because_error_gas_unread {ops : EnvOps T} {io : InterpOps T}
    {m : Machine T T.E} (hm : MainnetConsumers ops io m) (fuel : Nat) (inp : FirstInput T) (e : T.E)
    (w : WState T GasInsp) :
    dropW ((wrap ops (gasInspector T) m).exec fuel inp (e, w)) = m.exec fuel inp e :=
  inspected_eq_plain_mod (gas_inspector_observing T) ops m (mainnet_respects hm) fuel inp e w

/-- the same for the Optimism handler set -/
theorem gas_inspector_invisible_optimism {ops : EnvOps T} {io : InterpOps T} {dep : T.E → Bool}
    {sys : T.E → Option Bool} {reg : Bool} {m : Machine T T.E} (hm : OptimismConsumers ops io dep sys reg m)
    (fuel : Nat) (inp : FirstInput T) (e : T.E) (w : WState T GasInsp) :
    dropW ((wrap ops (gasInspector T) m).exec fuel inp (e, w)) = m.exec fuel inp e :=
  inspected_eq_plain_mod (gas_inspector_observing T) ops m (optimism_respects hm) fuel inp e w

/-- what the model driver replays on the recorded first-frame result: `GasInspector::call_end` followed by
`last_frame_return` gives the gas record `last_frame_return` alone gives -/
theorem gas_inspector_first_frame_gas (lim : Nat) (s : GasInsp) (o : CallOutcome) :
    lastFrameReturn lim (.call { o with result := (gasEndResult s o.result).2 }) = lastFrameReturn lim (.call o) :=
  Proofs.InspectorWrap.lastFrameReturn_blind_call lim o _
    ⟨rfl, Proofs.InspectorWrap.gasEndResult_errGasEq s o.result⟩

/-! ## TracerEip3155 -/

/-- the tracer's `call_end` / `create_end` return exactly `GasInspector`'s outcome (it delegates); its other
callbacks return nothing and touch neither interpreter nor context -/
theorem tracer_end_eq_gas_inspector (T : Ty) (ops : EnvOps T) (s : Tracer) (e : T.E) (i : T.CallIn)
    (j : T.CreateIn) (o : CallOutcome) (o' : CreateOutcome) :
    ((tracer3155 T ops).callEnd s e i o).2 = ((gasInspector T).callEnd s.gasInspector e i o).2 ∧
    ((tracer3155 T ops).createEnd s e j o').2 = ((gasInspector T).createEnd s.gasInspector e j o').2 :=
  Proofs.InspectorWrap.tracer_end_eq_gas T ops s e i j o o'

theorem tracer_observing (T : Ty) (ops : EnvOps T) : Observing (tracer3155 T ops) ORel.errGas :=
  Proofs.InspectorWrap.tracer_observing T ops

theorem tracer_invisible_because_error_gas_unread {ops : EnvOps T} {io : InterpOps T}
    {m : Machine T T.E} (hm : MainnetConsumers ops io m) (fuel : Nat) (inp : FirstInput T) (e : T.E)
    (w : WState T Tracer) :
    dropW ((wrap ops (tracer3155 T ops) m).exec fuel inp (e, w)) = m.exec fuel inp e :=
  inspected_eq_plain_mod (tracer_observing T ops) ops m (mainnet_respects hm) fuel inp e w

theorem tracer_invisible_optimism {ops : EnvOps T} {io : InterpOps T} {dep : T.E → Bool}
    {sys : T.E → Option Bool} {reg : Bool} {m : Machine T T.E} (hm : OptimismConsumers ops io dep sys reg m)
    (fuel : Nat) (inp : FirstInput T) (e : T.E) (w : WState T Tracer) :
    dropW ((wrap ops (tracer3155 T ops) m).exec fuel inp (e, w)) = m.exec fuel inp e :=
  inspected_eq_plain_mod (tracer_observing T ops) ops m (optimism_respects hm) fuel inp e w

/-! ## The property, for the three inspectors at once -/

/-- C28 on the model: on every frame machine whose four outcome consumers are the mainnet handlers
(instruction table, `call` / `create` / `eofcreate`, the `*_return` handlers and `take_error` arbitrary), for
every first input, context, fuel and leftover wrapper state, the run inspected by `NoOpInspector`, by
`GasInspector` and by `TracerEip3155` each return exactly what the run without the register returns. -/
theorem three_inspectors_invisible {ops : EnvOps T} {io : InterpOps T} {m : Machine T T.E}
    (hm : MainnetConsumers ops io m) (fuel : Nat) (inp : FirstInput T) (e : T.E) :
    (∀ w : WState T Unit, dropW ((wrap ops (noop T) m).exec fuel inp (e, w)) = m.exec fuel inp e) ∧
    (∀ w : WState T GasInsp, dropW ((wrap ops (gasInspector T) m).exec fuel inp (e, w)) = m.exec fuel inp e) ∧
    (∀ w : WState T Tracer, dropW ((wrap ops (tracer3155 T ops) m).exec fuel inp (e, w)) = m.exec fuel inp e) :=
  ⟨fun w => noop_inspected_eq_plain ops m fuel inp e w,
   fun w => gas_inspector_invisible_because_error_gas_unread hm fuel inp e w,
   fun w => tracer_invisible_because_error_gas_unread hm fuel inp e w⟩

/-! ## The condition on the handlers is necessary for GasInspector / the tracer -/

/-- COUNTEREXAMPLE to the unconditional statement for `GasInspector`: on the machine `leaky` (first call halts
with `InvalidJump` and 40 gas left; its `last_frame_return` keeps the first frame's gas record) the plain run
reports 40 gas remaining, the run inspected by `GasInspector` reports 0. The mainnet `last_frame_return`
overwrites the record, which is why the real EVM does not show this. -/
theorem gas_inspector_visible_to_gas_reading_consumer :
    Proofs.InspectorWrap.leaky.exec 1 (.call ()) () =
      some (.ok (.call { result := Proofs.InspectorWrap.haltResult, memoryOffset := (0, 0) }, ())) ∧
    dropW ((wrap Proofs.InspectorWrap.unitOps (gasInspector Proofs.InspectorWrap.unitTy) Proofs.InspectorWrap.leaky).exec
        1 (.call ()) ((), Proofs.InspectorWrap.emptyW GasInsp.default)) =
      some (.ok (.call { result := { Proofs.InspectorWrap.haltResult with
                                      gas := { limit := 100, remaining := 0, refunded := 0 } },
                         memoryOffset := (0, 0) }, ())) :=
  ⟨rfl, rfl⟩

/-- the same transaction on the machine with the mainnet consumers: both runs report the same -/
theorem gas_inspector_invisible_on_mainnet_like :
    dropW ((wrap Proofs.InspectorWrap.unitOps (gasInspector Proofs.InspectorWrap.unitTy)
        Proofs.InspectorWrap.mainnetLike).exec 1 (.call ()) ((), Proofs.InspectorWrap.emptyW GasInsp.default)) =
      Proofs.InspectorWrap.mainnetLike.exec 1 (.call ()) () :=
  gas_inspector_invisible_because_error_gas_unread Proofs.InspectorWrap.mainnetLike_consumers 1 (.call ()) ()
    (Proofs.InspectorWrap.emptyW GasInsp.default)

/-! ## The hypotheses are satisfiable (non-vacuity) -/

section Examples
local notation "uTy" => Proofs.InspectorWrap.unitTy
local notation "uOps" => Proofs.InspectorWrap.unitOps
local notation "uIo" => Proofs.InspectorWrap.unitIo
local notation "uState" => Proofs.InspectorWrap.unitState
local notation "uMachine" => Proofs.InspectorWrap.mainnetLike
local notation "uConsumers" => Proofs.InspectorWrap.mainnetLike_consumers
local notation "uHalt" => Proofs.InspectorWrap.haltResult

-- `Observing` (both relations), `Respects`, `MainnetConsumers` have instances
example : Observing (noop uTy) ORel.eq := noop_observing uTy
example : Observing (gasInspector uTy) ORel.errGas := gas_inspector_observing uTy
example : Observing (tracer3155 uTy uOps) ORel.errGas := tracer_observing uTy uOps
example : MainnetConsumers uOps uIo uMachine := uConsumers
example : Respects uMachine ORel.errGas := mainnet_respects uConsumers
-- a running interpreter whose pointer was advanced
example : ({ uState with ip := 1 } : IState uTy).instructionResult = .Continue ∧
    1 ≤ ({ uState with ip := 1 } : IState uTy).ip := ⟨rfl, Nat.le_refl 1⟩
-- a halted interpreter
example : ({ uState with instructionResult := .Stop } : IState uTy).instructionResult ≠ .Continue := by decide
-- a wrapper state with a pending call input
example : ({ obs := (), callStack := [()], createStack := [], eofStack := [] } : WState uTy Unit).callStack = () :: [] := rfl
-- an `errGas`-related pair of DISTINCT outcomes
example : ORel.errGas.call { result := uHalt, memoryOffset := (0, 0) }
    { result := { uHalt with gas := { limit := 100, remaining := 0, refunded := 0 } }, memoryOffset := (0, 0) } :=
  ⟨rfl, rfl, rfl, fun h => absurd h (by decide)⟩
-- runs that really execute: a create frame that runs one instruction and halts, plain and inspected by the tracer
example : Machine.exec uMachine 5 (.create ()) () =
    some (Res.ok (.create
      { result := { result := .InvalidJump, output := [], gas := { limit := 100000, remaining := 0, refunded := 0 } },
        address := none }, ())) := rfl
example : dropW ((wrap uOps (tracer3155 uTy uOps) uMachine).exec 5 (.create ()) ((), Proofs.InspectorWrap.emptyW Tracer.new)) =
    Machine.exec uMachine 5 (.create ()) () :=
  tracer_invisible_because_error_gas_unread uConsumers 5 (.create ()) () (Proofs.InspectorWrap.emptyW Tracer.new)
-- a list with a last element
example : ([1, 2, 3] : List Nat).length = 2 + 1 := rfl
end Examples

end Revm.Props.C28
