import Revm.Proofs.PrecompileMisc
/-! C23 — precompiles return the output and gas their EIPs define.

`Model.Precompile` follows `crates/precompile/src` function by function (gas / length / padding /
validity layer of every precompile; identity, SHA-256, RIPEMD-160, BLAKE2F, modexp and BN254 add/mul are
fully executable; the cores of ecrecover, the BN254 pairing, KZG and BLS12-381 are parameters).
`Spec.Precompile` states the Yellow-Paper linear prices and EIP-198 / EIP-2565 over unbounded `Nat`
on the infinitely zero-extended input. Statements only; proofs in `Revm.Proofs.Precompile*`.

Every length-dependent price is computed by the code in `u64`; the theorems carry the explicit bound
`input.length < 2^40` (1 TiB) under which no `u64` product wraps. For modexp the region is
`base_len + exp_len + mod_len < 2^61` and `gas_limit < 2^64 - 1`; outside it the code does NOT follow the
EIP (`modexp_*_counterexample`, finding reported by the builder). -/
namespace Revm.Props.C23
open Revm Revm.Model.Precompile Revm.Model.PrecompileHash
open Revm.Proofs.Precompile (ValidBytes NoIterSat msmSpecGas witnessInput)
open Revm.Spec.Precompile (num eip198Gas eip2565Gas ModexpPost modexpFields adjExpLen)

/-! ## the linear price (identity, SHA-256, RIPEMD-160) -/

/-- `calc_linear_cost_u32` = `base + word * ⌈len / 32⌉` whenever that fits in `u64` -/
theorem linear_cost_formula (len base word : Nat) (h : Spec.Precompile.linearCost len base word < U64) :
    calcLinearCost len base word = Spec.Precompile.linearCost len base word :=
  Proofs.Precompile.calcLinearCost_eq len base word h
/-- … which is the case for every input shorter than 2^40 bytes at the three price points in use -/
theorem linear_cost_fits (len base word : Nat) (hl : len < 2 ^ 40) (hb : base ≤ 600) (hw : word ≤ 120) :
    Spec.Precompile.linearCost len base word < U64 := Proofs.Precompile.linearCost_lt len base word hl hb hw

/-- identity: gas `15 + 3⌈len/32⌉`, out of gas iff that exceeds the limit, output = input -/
theorem identity_eq_spec (input : Bytes) (gas : Nat) (hl : input.length < 2 ^ 40) :
    identityRun input gas = Spec.Precompile.identity input gas := Proofs.Precompile.identityRun_eq input gas hl
/-- SHA-256: gas `60 + 12⌈len/32⌉`, output the 32-byte digest -/
theorem sha256_eq_spec (input : Bytes) (gas : Nat) (hl : input.length < 2 ^ 40) :
    sha256Run input gas = Spec.Precompile.sha256 input gas := Proofs.Precompile.sha256Run_eq input gas hl
/-- RIPEMD-160: gas `600 + 120⌈len/32⌉`, output the digest left-padded to 32 bytes -/
theorem ripemd160_eq_spec (input : Bytes) (gas : Nat) (hl : input.length < 2 ^ 40) :
    ripemd160Run input gas = Spec.Precompile.ripemd160 input gas := Proofs.Precompile.ripemd160Run_eq input gas hl
theorem identity_oog_iff (input : Bytes) (gas : Nat) (hl : input.length < 2 ^ 40) :
    identityRun input gas = .err .OutOfGas ↔ Spec.Precompile.linearCost input.length 15 3 > gas :=
  Proofs.Precompile.identity_oog_iff input gas hl
theorem sha256_oog_iff (input : Bytes) (gas : Nat) (hl : input.length < 2 ^ 40) :
    sha256Run input gas = .err .OutOfGas ↔ Spec.Precompile.linearCost input.length 60 12 > gas :=
  Proofs.Precompile.sha256_oog_iff input gas hl
theorem ripemd160_oog_iff (input : Bytes) (gas : Nat) (hl : input.length < 2 ^ 40) :
    ripemd160Run input gas = .err .OutOfGas ↔ Spec.Precompile.linearCost input.length 600 120 > gas :=
  Proofs.Precompile.ripemd160_oog_iff input gas hl
theorem sha256_output_length (msg : Bytes) : (sha256 msg).length = 32 := Proofs.Precompile.sha256_length msg
theorem ripemd160_output_length (msg : Bytes) : (List.replicate 12 0 ++ ripemd160 msg).length = 32 := by
  simp [Proofs.Precompile.ripemd160_length]

/-! ## out of gas exactly when the price exceeds the limit (fixed and per-element prices) -/

theorem ecrecover_oog_iff (rec : Bytes → Nat → Bytes → Option Bytes) (input : Bytes) (gas : Nat) :
    ecRecoverRun rec input gas = .err .OutOfGas ↔ 3000 > gas := Proofs.Precompile.ecRecover_oog_iff rec input gas
theorem bn_add_oog_iff (cost : Nat) (input : Bytes) (gas : Nat) :
    bnAddRun cost input gas = .err .OutOfGas ↔ cost > gas := Proofs.Precompile.bnAdd_oog_iff cost input gas
theorem bn_mul_oog_iff (cost : Nat) (input : Bytes) (gas : Nat) :
    bnMulRun cost input gas = .err .OutOfGas ↔ cost > gas := Proofs.Precompile.bnMul_oog_iff cost input gas
/-- pairing: `base + perPoint * ⌊len/192⌋` (EIP-197 / EIP-1108), checked before the length rule -/
theorem bn_pair_oog_iff (core : BnPairCore) (perPoint base : Nat) (input : Bytes) (gas : Nat)
    (hl : input.length < 2 ^ 40) (hp : perPoint ≤ 80000) (hb : base ≤ 100000) :
    bnPairRun core perPoint base input gas = .err .OutOfGas ↔ base + perPoint * (input.length / 192) > gas :=
  Proofs.Precompile.bnPair_oog_iff core perPoint base input gas hl hp hb
/-- BLAKE2F: one gas per round, after the length check -/
theorem blake2_oog_iff (input : Bytes) (gas : Nat) :
    blake2Run input gas = .err .OutOfGas ↔ input.length = 213 ∧ beNat (input.take 4) > gas :=
  Proofs.Precompile.blake2_oog_iff input gas
theorem kzg_oog_iff (verify : Bytes → Bytes → Bytes → Bytes → Bool) (input : Bytes) (gas : Nat) :
    kzgRun verify input gas = .err .OutOfGas ↔ gas < 50000 := Proofs.Precompile.kzg_oog_iff verify input gas
theorem bls_g1add_oog_iff (core : BlsCore) (input : Bytes) (gas : Nat) :
    blsG1AddRun core input gas = .err .OutOfGas ↔ 375 > gas := Proofs.Precompile.blsG1Add_oog_iff core input gas
theorem bls_g2add_oog_iff (core : BlsCore) (input : Bytes) (gas : Nat) :
    blsG2AddRun core input gas = .err .OutOfGas ↔ 600 > gas := Proofs.Precompile.blsG2Add_oog_iff core input gas
theorem bls_mapfp_oog_iff (core : BlsCore) (input : Bytes) (gas : Nat) :
    blsMapFpRun core input gas = .err .OutOfGas ↔ 5500 > gas := Proofs.Precompile.blsMapFp_oog_iff core input gas
theorem bls_mapfp2_oog_iff (core : BlsCore) (input : Bytes) (gas : Nat) :
    blsMapFp2Run core input gas = .err .OutOfGas ↔ 23800 > gas := Proofs.Precompile.blsMapFp2_oog_iff core input gas
/-- EIP-2537 MSM price `k * 12000 * discount(k) / 1000` over `Nat`, after the length rule -/
theorem bls_g1msm_oog_iff (core : BlsCore) (input : Bytes) (gas : Nat) (hl : input.length < 2 ^ 40) :
    blsG1MsmRun core input gas = .err .OutOfGas ↔
      (input.length ≠ 0 ∧ input.length % 160 = 0 ∧ msmSpecGas (input.length / 160) g1DiscountTable 12000 > gas) :=
  Proofs.Precompile.blsG1Msm_oog_iff core input gas hl
theorem bls_g2msm_oog_iff (core : BlsCore) (input : Bytes) (gas : Nat) (hl : input.length < 2 ^ 40) :
    blsG2MsmRun core input gas = .err .OutOfGas ↔
      (input.length ≠ 0 ∧ input.length % 288 = 0 ∧ msmSpecGas (input.length / 288) g2DiscountTable 22500 > gas) :=
  Proofs.Precompile.blsG2Msm_oog_iff core input gas hl
theorem bls_pairing_oog_iff (core : BlsCore) (input : Bytes) (gas : Nat) (hl : input.length < 2 ^ 40) :
    blsPairingRun core input gas = .err .OutOfGas ↔
      (input.length ≠ 0 ∧ input.length % 384 = 0 ∧ 32600 * (input.length / 384) + 37700 > gas) :=
  Proofs.Precompile.blsPairing_oog_iff core input gas hl
/-- the `u64` MSM price function = the `Nat` formula for every realistic `k` -/
theorem msm_gas_formula (k : Nat) (table : List Nat) (mulCost : Nat) (hk : 0 < k) (hk2 : k < 2 ^ 33)
    (hm : mulCost ≤ 22500) (hb : ∀ d ∈ table, d ≤ 1000) (hne : table ≠ []) :
    msmRequiredGas k table mulCost = msmSpecGas k table mulCost :=
  Proofs.Precompile.msmRequiredGas_eq k table mulCost hk hk2 hm hb hne

/-! ## modexp -/

/-- the square-and-multiply of the model is `b^e mod m` -/
theorem modPow_eq (b e m : Nat) : modPow b e m = b ^ e % m := Proofs.Precompile.modPow_eq b e m

/-- `calculate_iteration_count` = EIP `max(adjusted_exponent_length, 1)` unless the `u64` count saturates -/
theorem iteration_count_eq (el hp : Nat) (hhp : hp < W) (hns : NoIterSat el) :
    calculateIterationCount el hp = max (adjExpLen el hp) 1 := Proofs.Precompile.iterCount_eq el hp hhp hns
/-- Byzantium price = EIP-198 price clamped to `u64` (the `u64` / `U256` intermediates never wrap) -/
theorem modexp_gas_eq_eip198 (bl el ml hp : Nat) (hbl : bl < U64) (hml : ml < U64) (hhp : hp < W)
    (hns : NoIterSat el) : byzantiumGasCalc bl el ml hp = min (eip198Gas bl el ml hp) (U64 - 1) :=
  Proofs.Precompile.byzantiumGasCalc_eq bl el ml hp hbl hml hhp hns
/-- Berlin price = EIP-2565 price clamped to `u64` -/
theorem modexp_gas_eq_eip2565 (bl el ml hp : Nat) (hbl : bl < U64) (hml : ml < U64) (hhp : hp < W)
    (hns : NoIterSat el) : berlinGasCalc bl el ml hp = min (eip2565Gas bl el ml hp) (U64 - 1) :=
  Proofs.Precompile.berlinGasCalc_eq bl el ml hp hbl hml hhp hns

/-- The property for modexp, at full strength: for EVERY input and gas limit the call is out of gas iff
the EIP price exceeds the limit, and otherwise charges the EIP price and returns `base^exp mod m` in
`mod_len` bytes. FALSE of the code (see the counterexamples below); proved on the region below. -/
def ModexpFullStatement : Prop :=
  ∀ (berlin : Bool) (input : Bytes) (gas : Nat), ValidBytes input → gas < U64 →
    ModexpPost berlin input gas (modexpRun berlin input gas)

/-- modexp follows EIP-198 (Byzantium) / EIP-2565 (Berlin) — header parsing with right padding, price,
out of gas iff price > limit, output `base^exp mod m` left-padded to `mod_len` — for every byte string
whose three declared lengths sum to less than 2^61 and every gas limit below `u64::MAX`.
Missing for the full statement: lengths ≥ 2^61 (iteration-count saturation, length-overflow errors,
allocation panics / aborts) and the gas limit 2^64 - 1 (price clamp). -/
theorem modexp_refines_eip_partial (berlin : Bool) (input : Bytes) (gas : Nat) (hv : ValidBytes input)
    (hlen : num input 0 32 + num input 32 32 + num input 64 32 < 2 ^ 61) (hgas : gas < U64 - 1) :
    ModexpPost berlin input gas (modexpRun berlin input gas) :=
  Proofs.Precompile.modexpRun_post berlin input gas hv hlen hgas

/-- huge lengths, part 1: exactly when the code answers `ModexpBaseOverflow` -/
theorem modexp_base_overflow_iff (berlin : Bool) (input : Bytes) (gas : Nat) :
    modexpRun berlin input gas = .err .ModexpBaseOverflow ↔
      ((if berlin then 200 else 0) ≤ gas ∧ num input 0 32 ≥ U64) :=
  Proofs.Precompile.modexp_base_overflow_iff berlin input gas
/-- huge lengths, part 2: exactly when the code answers `ModexpModOverflow` (also for exp_len, as coded;
note the order: base_len = mod_len = 0 succeeds before exp_len is looked at) -/
theorem modexp_mod_overflow_iff (berlin : Bool) (input : Bytes) (gas : Nat) :
    modexpRun berlin input gas = .err .ModexpModOverflow ↔
      ((if berlin then 200 else 0) ≤ gas ∧ num input 0 32 < U64 ∧
        (num input 64 32 ≥ U64 ∨ (¬ (num input 0 32 = 0 ∧ num input 64 32 = 0) ∧ num input 32 32 ≥ U64))) :=
  Proofs.Precompile.modexp_mod_overflow_iff berlin input gas
/-- … and a base or modulus length ≥ 2^64 prices the call above every `u64` limit in both EIPs, so failing is right -/
theorem modexp_huge_len_price (bl el ml hp : Nat) (h : bl ≥ U64 ∨ ml ≥ U64) :
    eip198Gas bl el ml hp ≥ U64 ∧ eip2565Gas bl el ml hp ≥ U64 :=
  ⟨Proofs.Precompile.eip198Gas_huge bl el ml hp h, Proofs.Precompile.eip2565Gas_huge bl el ml hp h⟩

/-- the library call + `left_pad_vec`: exactly `mod_len` bytes with value `base^exp mod m` (0 for m = 0) -/
theorem modexp_output (base exponent modulus : Bytes) (ml : Nat) (hm : beNat modulus < 256 ^ ml) :
    (leftPad ml (modexpLib base exponent modulus)).length = ml ∧
    beNat (leftPad ml (modexpLib base exponent modulus)) =
      Spec.Precompile.modexpValue (beNat base) (beNat exponent) (beNat modulus) :=
  Proofs.Precompile.modexpLib_padded base exponent modulus ml hm

/-- FINDING (code ≠ property): `exp_len = 2^63`, `mod_len = 1`, Byzantium pricing, gas limit
922337203685477580. EIP-198 prices the call at 3689348814741910310 > limit (out of gas); the code's
saturated iteration count prices it at the limit, so it is not out of gas and panics while
allocating 2^63 + 1 bytes. One gas less and the code reports out of gas. -/
theorem modexp_byzantium_counterexample :
    modexpRun false witnessInput 922337203685477580 = .panic ∧
    modexpRun false witnessInput 922337203685477579 = .err .OutOfGas ∧
    (modexpFields false witnessInput).cost = 3689348814741910310 ∧
    ¬ ModexpPost false witnessInput 922337203685477580 (modexpRun false witnessInput 922337203685477580) :=
  Proofs.Precompile.modexp_byzantium_counterexample
/-- the same under Berlin pricing: EIP-2565 price 24595658764946068736 (above every `u64`), code price 6148914691236517205 -/
theorem modexp_berlin_counterexample :
    modexpRun true witnessInput 6148914691236517205 = .panic ∧
    modexpRun true witnessInput 6148914691236517204 = .err .OutOfGas ∧
    (modexpFields true witnessInput).cost = 24595658764946068736 ∧
    ¬ ModexpPost true witnessInput 6148914691236517205 (modexpRun true witnessInput 6148914691236517205) :=
  Proofs.Precompile.modexp_berlin_counterexample
/-- hence the full statement is false of the code -/
theorem modexp_full_statement_counterexample : ¬ ModexpFullStatement := by
  intro h
  have hv : ValidBytes witnessInput := Proofs.Precompile.witnessInput_valid
  exact modexp_byzantium_counterexample.2.2.2 (h false witnessInput 922337203685477580 hv (by rw [U64_val]; omega))
theorem iteration_count_saturates_counterexample :
    calculateIterationCount (2 ^ 63) 0 = 2 ^ 64 - 1 ∧ max (adjExpLen (2 ^ 63) 0) 1 = 2 ^ 66 - 256 :=
  Proofs.Precompile.iterCount_saturates

/-! ## input padding -/

theorem rightPad_length (n : Nat) (d : Bytes) : (rightPad n d).length = n := Proofs.Precompile.rightPad_length n d
theorem leftPad_length (n : Nat) (d : Bytes) : (leftPad n d).length = n := Proofs.Precompile.leftPad_length n d
/-- byte `i` of `right_pad(data)`: the data byte, 0 beyond the data, nothing beyond the window -/
theorem rightPad_byte (n : Nat) (d : Bytes) (i : Nat) :
    (rightPad n d)[i]? = if i < n then some ((d[i]?).getD 0) else none := Proofs.Precompile.rightPad_getElem? n d i
/-- `right_pad_with_offset` is the EIP's read of the infinitely zero-extended input -/
theorem rightPadOff_is_zero_extension (input : Bytes) (off len : Nat) :
    rightPadOff len input off = Spec.Precompile.slice input off len := (Proofs.Precompile.slice_eq input off len).symm
theorem leftPad_value (n : Nat) (d : Bytes) (h : d.length ≤ n) : beNat (leftPad n d) = beNat d :=
  Proofs.Precompile.beNat_leftPad n d h
theorem rightPad_value (n : Nat) (d : Bytes) (h : d.length ≤ n) :
    beNat (rightPad n d) = beNat d * 256 ^ (n - d.length) := Proofs.Precompile.beNat_rightPad n d h
theorem ecrecover_padding (rec : Bytes → Nat → Bytes → Option Bytes) (input : Bytes) (gas : Nat) :
    ecRecoverRun rec input gas = ecRecoverRun rec (rightPad 128 input) gas :=
  Proofs.Precompile.ecRecover_padding rec input gas
theorem bn_add_padding (cost : Nat) (input : Bytes) (gas : Nat) :
    bnAddRun cost input gas = bnAddRun cost (rightPad 128 input) gas := Proofs.Precompile.bnAdd_padding cost input gas
theorem bn_mul_padding (cost : Nat) (input : Bytes) (gas : Nat) :
    bnMulRun cost input gas = bnMulRun cost (rightPad 96 input) gas := Proofs.Precompile.bnMul_padding cost input gas

/-! ## gates, length rules, formats -/

/-- with ≥ 3000 gas ecrecover always succeeds charging exactly 3000 (invalid input ⇒ empty output) -/
theorem ecrecover_always_ok (rec : Bytes → Nat → Bytes → Option Bytes) (input : Bytes) (gas : Nat) (h : 3000 ≤ gas) :
    ∃ out, ecRecoverRun rec input gas = .ok 3000 out := Proofs.Precompile.ecRecover_ok rec input gas h
/-- the `v` gate: a non-zero byte among bytes 32..62 of the padded input ⇒ empty output -/
theorem ecrecover_gate_zero_bytes (rec : Bytes → Nat → Bytes → Option Bytes) (input : Bytes) (gas : Nat)
    (h : 3000 ≤ gas) (hz : (((rightPad 128 input).drop 32).take 31).all (· == 0) = false) :
    ecRecoverRun rec input gas = .ok 3000 [] := Proofs.Precompile.ecRecover_gate_zero rec input gas h hz
/-- the `v` gate: byte 63 of the padded input other than 27 / 28 ⇒ empty output -/
theorem ecrecover_gate_v (rec : Bytes → Nat → Bytes → Option Bytes) (input : Bytes) (gas : Nat) (h : 3000 ≤ gas)
    (v : Nat) (rest : Bytes) (hv : (rightPad 128 input).drop 63 = v :: rest) (hne : v ≠ 27 ∧ v ≠ 28) :
    ecRecoverRun rec input gas = .ok 3000 [] := Proofs.Precompile.ecRecover_gate_v rec input gas h v rest hv hne
/-- gate passed ⇒ the output is the recovery of (sig = bytes 64..127, recid = v - 27, msg = bytes 0..31) of
the padded input, or empty when the recovery fails -/
theorem ecrecover_gate_pass (rec : Bytes → Nat → Bytes → Option Bytes) (input : Bytes) (gas : Nat) (h : 3000 ≤ gas)
    (v : Nat) (rest : Bytes) (hv : (rightPad 128 input).drop 63 = v :: rest) (hv2 : v = 27 ∨ v = 28)
    (hz : (((rightPad 128 input).drop 32).take 31).all (· == 0) = true) :
    ecRecoverRun rec input gas =
      .ok 3000 ((rec (((rightPad 128 input).drop 64).take 64) (v - 27) ((rightPad 128 input).take 32)).getD []) :=
  Proofs.Precompile.ecRecover_pass rec input gas h v rest hv hv2 hz
theorem bn_pair_length_rule (core : BnPairCore) (perPoint base : Nat) (input : Bytes) (gas : Nat)
    (hg : ¬ U64ops.wadd (U64ops.wmul (input.length / 192) perPoint) base > gas) (hl : input.length % 192 ≠ 0) :
    bnPairRun core perPoint base input gas = .err .Bn128PairLength :=
  Proofs.Precompile.bnPair_length_rule core perPoint base input gas hg hl
theorem bn_pair_empty_input (core : BnPairCore) (perPoint base : Nat) (gas : Nat) (hb : base < U64) (hg : base ≤ gas) :
    bnPairRun core perPoint base [] gas = .ok base (boolBytes32 true) :=
  Proofs.Precompile.bnPair_empty core perPoint base gas hb hg
theorem blake2_wrong_length (input : Bytes) (gas : Nat) (h : input.length ≠ 213) :
    blake2Run input gas = .err .Blake2WrongLength := Proofs.Precompile.blake2_wrong_length input gas h
theorem blake2_gas_is_rounds (input : Bytes) (gas g : Nat) (out : Bytes) (h : blake2Run input gas = .ok g out) :
    g = beNat (input.take 4) ∧ input.length = 213 := Proofs.Precompile.blake2_gas input gas g out h
theorem kzg_success_shape (verify : Bytes → Bytes → Bytes → Bytes → Bool) (input : Bytes) (gas g : Nat) (out : Bytes)
    (h : kzgRun verify input gas = .ok g out) :
    g = 50000 ∧ out = kzgReturnValue ∧ input.length = 192 ∧
      input.take 32 = kzgToVersionedHash ((input.drop 96).take 48) := Proofs.Precompile.kzg_ok verify input gas g out h
theorem kzg_wrong_length (verify : Bytes → Bytes → Bytes → Bytes → Bool) (input : Bytes) (gas : Nat)
    (hg : 50000 ≤ gas) (hl : input.length ≠ 192) : kzgRun verify input gas = .err .BlobInvalidInputLength :=
  Proofs.Precompile.kzg_wrong_length verify input gas hg hl
theorem bls_g1add_wrong_length (core : BlsCore) (input : Bytes) (gas : Nat) (hg : 375 ≤ gas) (hl : input.length ≠ 256) :
    blsG1AddRun core input gas = .err .Other := Proofs.Precompile.blsG1Add_wrong_length core input gas hg hl
theorem bls_g2add_wrong_length (core : BlsCore) (input : Bytes) (gas : Nat) (hg : 600 ≤ gas) (hl : input.length ≠ 512) :
    blsG2AddRun core input gas = .err .Other := Proofs.Precompile.blsG2Add_wrong_length core input gas hg hl
theorem bls_msm_pairing_wrong_length (core : BlsCore) (input : Bytes) (gas : Nat) :
    (input.length = 0 ∨ input.length % 160 ≠ 0 → blsG1MsmRun core input gas = .err .Other) ∧
    (input.length = 0 ∨ input.length % 288 ≠ 0 → blsG2MsmRun core input gas = .err .Other) ∧
    (input.length = 0 ∨ input.length % 384 ≠ 0 → blsPairingRun core input gas = .err .Other) :=
  Proofs.Precompile.blsMsm_wrong_length core input gas

/-! The cryptographic cores are parameters (`Cores`): NOT proved here is that the real libraries compute
ecrecover, the BN254 pairing / G2 validity, the KZG verification and the BLS12-381 curve checks and group
operations correctly — no theorem of this file claims it. That part of C23 is carried by the
correspondence stream (real outputs passed as oracle, so only gas / format / validity order is compared)
and by the libraries' own test vectors; the level is therefore *partial* for those cores. -/

/-! ## the hypotheses are satisfiable; the functions are not trivial -/

example : ValidBytes witnessInput := Proofs.Precompile.witnessInput_valid
example : num witnessInput 0 32 = 0 ∧ num witnessInput 32 32 = 2 ^ 63 ∧ num witnessInput 64 32 = 1 := by
  decide +kernel
/-- 3^5 mod 7 = 5 through the whole precompile: header (1, 1, 1), data 03 05 07 -/
example : modexpRun true (toBE 32 1 ++ toBE 32 1 ++ toBE 32 1 ++ [3, 5, 7]) 1000 = .ok 200 [5] := by decide +kernel
/-- truncated data is zero-extended: modulus missing ⇒ modulus 0 ⇒ output 0 -/
example : modexpRun false (toBE 32 1 ++ toBE 32 1 ++ toBE 32 1 ++ [3, 5]) 1000 = .ok 0 [0] := by decide +kernel
example : modexpRun true (toBE 32 1 ++ toBE 32 1 ++ toBE 32 1 ++ [3, 5, 7]) 199 = .err .OutOfGas := by decide +kernel
example : num (toBE 32 1 ++ toBE 32 1 ++ toBE 32 1 ++ [3, 5, 7]) 0 32 + num (toBE 32 1 ++ toBE 32 1 ++ toBE 32 1 ++ [3, 5, 7]) 32 32
    + num (toBE 32 1 ++ toBE 32 1 ++ toBE 32 1 ++ [3, 5, 7]) 64 32 < 2 ^ 61 := by decide +kernel
example : identityRun [1, 2, 3] 17 = .err .OutOfGas ∧ identityRun [1, 2, 3] 18 = .ok 18 [1, 2, 3] := by decide +kernel
example : calcLinearCost 33 600 120 = 840 ∧ calcLinearCost 0 60 12 = 60 := by decide +kernel
example : byzantiumGasCalc 64 32 64 (2 ^ 255) = 4096 * 255 / 20 ∧ berlinGasCalc 64 32 64 (2 ^ 255) = 64 * 255 / 3 := by
  decide +kernel
example : NoIterSat 1000 ∧ ¬ NoIterSat (2 ^ 63) := by unfold NoIterSat; rw [U64_val]; omega
example : msmRequiredGas 2 g1DiscountTable 12000 = 22776 ∧ msmRequiredGas 200 g2DiscountTable 22500 = 2358000 := by
  decide +kernel
example : bnAddRun 150 (toBE 32 1 ++ toBE 32 2 ++ toBE 32 1 ++ toBE 32 2) 150 =
    .ok 150 (toBE 32 0x030644e72e131a029b85045b68181585d97816a916871ca8d3c208c16d87cfd3 ++
             toBE 32 0x15ed738c0e0a7c92e7845f96b2ae9c0a68a6a449e3538fc7ff3ebf7a5a18a2c4) := by decide +kernel
example : bnAddRun 150 (toBE 32 1 ++ toBE 32 3) 150 = .err .Bn128AffineGFailedToCreate := by decide +kernel
example : blake2Run [] 100 = .err .Blake2WrongLength := by decide +kernel
/-- a 64-byte input with v = 28 in byte 63: the gate hypotheses of `ecrecover_gate_pass` hold -/
example : (rightPad 128 (List.replicate 63 0 ++ [28])).drop 63 = 28 :: List.replicate 64 0 ∧
    (((rightPad 128 (List.replicate 63 0 ++ [28])).drop 32).take 31).all (· == 0) = true := by decide +kernel

end Revm.Props.C23
