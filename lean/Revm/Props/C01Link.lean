import Revm.Proofs.EvmLinkFeeVal
import Revm.Proofs.EvmSpec
/-! C01Link — the whole-transaction model `Revm.Model.Evm.transact` (C01) SATISFIES the component properties.

`Evm.transact` (EvmTx / EvmFrame / EvmLoop / EvmHost) was written independently of the component models that carry the
proved properties: `Model.TxValidate` (C02), `Model.TxGas` (C09), `Model.Frame` (C07), … Each of those is tied to the
Rust code by its own correspondence stream. The LINK theorems here say that the corresponding part of the whole-EVM
model IS the component model (equal as functions, on every input), and the COROLLARIES restate the component properties
on `Evm.transact` / `Evm.preverify` / `Evm.finalGas` / `Evm.runLoop` themselves.

Translations (`Proofs/EvmLink*.lean`): `tvCfg / tvBlock / tvTx / senderOf` (the environment and the loaded sender as C02
reads them), `gasEnv / frameRes / toIR` (the environment and the first frame's result as C09 reads them).

What is hypothesised and not proved here: `loadSender … = .ok …` (the journal can load the sender: no `unwrap` panic in
the journal model, the code store knows the sender's code hash); the frame machine's guarantee `res.gasRemaining ≤
gas_limit − initial_gas` for the first frame's result (the visible hypothesis of C09 / C01 `transact_gas_bounds`). -/
namespace Revm.Props.C01Link
open Revm Revm.Model Revm.Model.Evm
open Revm.Proofs.EvmLink
open Revm.Model.GasCalc (enabled)
open Revm.Spec.GasCalc (Fork)
open Revm.Spec.TxValid
open Revm.Proofs.TxValidate (InRange GasFits TypeGap BlobFeeSaturation)

/-! ## 1. validation (C02) -/

/-- LINK: `Evm.validateEnv` (accept / reject / panic) is `TxValidate.validateEnv` of C02, as functions -/
theorem evm_validateEnv_eq_txvalidate (e : Evm.Env) (spec : Nat) :
    Evm.validateEnv e spec = resToR (TxValidate.validateEnv spec (tvCfg e) (tvBlock e) (tvTx e)) :=
  validateEnv_link e spec

/-- LINK: `Evm.validateAgainstState` accepts exactly when `TxValidate.validateTxAgainstState` answers `Ok` -/
theorem evm_validateAgainstState_eq_txvalidate (e : Evm.Env) (spec : Nat) (code : List Nat) (info : Journal.Info) :
    Evm.validateAgainstState e spec code info =
      accepted (TxValidate.validateTxAgainstState spec (tvTx e) (senderOf code info)) :=
  validateAgainstState_link e spec code info

/-- LINK: the validation `Evm.preverify` performs agrees with `TxValidate.validateCanon` (C02) on the sender as the
journal loads it — accepted iff `Ok`, rejected iff some `Err`, panic iff `panic` -/
theorem evm_validation_accepts_iff (w w1 : World) (e : Evm.Env) (spec : Nat) (acc : Journal.Acct) (code : List Nat)
    (hload : loadSender w e.tx.caller = .ok (w1, acc, code)) :
    ((∃ x, Evm.preverify w e spec = .ok (some x)) ↔
      TxValidate.validateCanon spec (tvCfg e) (tvBlock e) (tvTx e) (senderOf code acc.info) = .ok) ∧
    (Evm.preverify w e spec = .ok none ↔
      ∃ err, TxValidate.validateCanon spec (tvCfg e) (tvBlock e) (tvTx e) (senderOf code acc.info) = .err err) ∧
    ((∃ msg, Evm.preverify w e spec = .error (.panic msg)) ↔
      TxValidate.validateCanon spec (tvCfg e) (tvBlock e) (tvTx e) (senderOf code acc.info) = .panic) := by
  obtain ⟨h1, h2, h3⟩ := preverify_verdict w w1 e spec acc code hload
  cases hv : TxValidate.validateCanon spec (tvCfg e) (tvBlock e) (tvTx e) (senderOf code acc.info) with
  | ok =>
    obtain ⟨ig, fg, _, hp⟩ := h1 hv
    refine ⟨⟨fun _ => rfl, fun _ => ⟨_, hp⟩⟩, ⟨fun h => ?_, fun ⟨_, h⟩ => nomatch h⟩, ⟨fun ⟨_, h⟩ => ?_, fun h => nomatch h⟩⟩
    · rw [hp] at h; cases h
    · rw [hp] at h; cases h
  | err x =>
    have hp := h2 x hv
    refine ⟨⟨fun ⟨_, h⟩ => ?_, fun h => nomatch h⟩, ⟨fun _ => ⟨x, rfl⟩, fun _ => hp⟩, ⟨fun ⟨_, h⟩ => ?_, fun h => nomatch h⟩⟩
    · rw [hp] at h; cases h
    · rw [hp] at h; cases h
  | panic =>
    obtain ⟨msg, hp⟩ := h3 hv
    refine ⟨⟨fun ⟨_, h⟩ => ?_, fun h => nomatch h⟩, ⟨fun h => ?_, fun ⟨_, h⟩ => nomatch h⟩, ⟨fun _ => rfl, fun _ => ⟨msg, hp⟩⟩⟩
    · rw [hp] at h; cases h
    · rw [hp] at h; cases h

/-- a sender that loads: one pre-state account on a fresh journal -/
def sampleWorld : World :=
  { js := Journal.JState.new 17 (fun _ => false),
    pre := [{ addr := 0xaa, balance := 10^18, nonce := 0, code := [], codeHash := KECCAK_EMPTY, storage := [] }] }
def sampleEnv : Evm.Env :=
  { block := { gasLimit := 30000000, basefee := 7, prevrandao := some 0, blobGasPrice := some 1 },
    tx := { caller := 0xaa, gasLimit := 21000, gasPrice := 10, to := some 0xbb, value := 5, nonce := some 0 } }

example : ∃ r, loadSender sampleWorld sampleEnv.tx.caller = .ok r :=
  Proofs.Evm.exists_of_isOk (by decide +kernel)

/-- COROLLARY (C02 `rejected_iff_invalid_partial` on `Evm.transact`): a transaction is answered `rejected` by the
whole-EVM model exactly when it breaks a validity rule of its hardfork (`Spec.TxValid.ValidTx`), outside the departure
regions of C02 (`TypeGap`, `BlobFeeSaturation`) -/
theorem transact_rejected_iff_invalid_partial (f : Fork) (fuel : Nat) (w w1 : World) (e : Evm.Env)
    (acc : Journal.Acct) (code : List Nat) (hload : loadSender w e.tx.caller = .ok (w1, acc, code))
    (hr : InRange (tvBlock e) (tvTx e) (senderOf code acc.info)) (hfit : GasFits f (tvTx e))
    (hgap : ¬ TypeGap f (tvTx e) (senderOf code acc.info))
    (hsat : ¬ BlobFeeSaturation (tvTx e) (senderOf code acc.info)) :
    (∃ w', Evm.transact fuel w e f.id = .ok (.rejected, w')) ↔
      ¬ ValidTx f (tvCfg e) (tvBlock e) (tvTx e) (senderOf code acc.info) := by
  rw [← Props.C02.rejected_iff_invalid_partial f _ _ _ _ hr hfit hgap hsat]
  have hl := (evm_validation_accepts_iff w w1 e (GasCalc.canon f.id) acc code hload).2.1
  constructor
  · rintro ⟨w', h⟩
    exact hl.1 ((transactWith_rejected_iff journalOps fuel w w' e f.id).1 h).1
  · intro h
    exact ⟨w, (transactWith_rejected_iff journalOps fuel w w e f.id).2 ⟨hl.2 h, rfl⟩⟩

/-- the full statement: without the excluded regions. False of the code, by C02's counterexamples (the code accepts a
priority fee before London, a delegated sender before Prague, a saturated blob fee). -/
def FullStatement_transact_rejected_iff_invalid : Prop :=
  ∀ (f : Fork) (fuel : Nat) (w w1 : World) (e : Evm.Env) (acc : Journal.Acct) (code : List Nat),
    loadSender w e.tx.caller = .ok (w1, acc, code) →
    InRange (tvBlock e) (tvTx e) (senderOf code acc.info) → GasFits f (tvTx e) →
    ((∃ w', Evm.transact fuel w e f.id = .ok (.rejected, w')) ↔
      ¬ ValidTx f (tvCfg e) (tvBlock e) (tvTx e) (senderOf code acc.info))

/-- COROLLARY (C02 `valid_accepted`, full strength): a valid transaction is never answered `rejected` -/
theorem transact_valid_not_rejected (f : Fork) (fuel : Nat) (w w1 w' : World) (e : Evm.Env)
    (acc : Journal.Acct) (code : List Nat) (hload : loadSender w e.tx.caller = .ok (w1, acc, code))
    (hr : InRange (tvBlock e) (tvTx e) (senderOf code acc.info)) (hfit : GasFits f (tvTx e))
    (hvalid : ValidTx f (tvCfg e) (tvBlock e) (tvTx e) (senderOf code acc.info)) :
    Evm.transact fuel w e f.id ≠ .ok (.rejected, w') := by
  intro h
  have hrej := ((transactWith_rejected_iff journalOps fuel w w' e f.id).1 h).1
  obtain ⟨err, herr⟩ := (evm_validation_accepts_iff w w1 e (GasCalc.canon f.id) acc code hload).2.1.1 hrej
  have hok := Props.C02.valid_accepted f _ _ _ _ hr hfit hvalid
  unfold TxValidate.validate at hok
  rw [hok] at herr; cases herr

/-- COROLLARY (C02 "a rejected transaction changes nothing"): `Evm.transact` hands a rejected transaction's world back
unchanged — not even the sender's account stays loaded -/
theorem transact_rejected_world_unchanged (fuel : Nat) (w w' : World) (e : Evm.Env) (spec : Nat)
    (h : Evm.transact fuel w e spec = .ok (.rejected, w')) : w' = w :=
  ((transactWith_rejected_iff journalOps fuel w w' e spec).1 h).2

/-- a rejected transaction exists: gas limit below the intrinsic gas -/
example : ∃ w', Evm.transact 10 sampleWorld { sampleEnv with tx := { sampleEnv.tx with gasLimit := 20999 } } 17
    = .ok (.rejected, w') :=
  ⟨_, (transactWith_rejected_iff journalOps 10 _ _ _ 17).2 ⟨eq_none_of_isNoneOk (by decide +kernel), rfl⟩⟩

/-! ## 2. gas and fees (C09) -/

open Revm.Model.Gas in
/-- LINK: **the gas pipeline of `EvmTx` is `TxGas`** (C09), as functions: `last_frame_return`, `refund` and the EIP-7623
floor give `TxGas.finalGas` for every first-frame result, every floor and every number `k` of refunded EIP-7702
authorities; the classification of results is `TxGas.IR.gasClass` / `IR.report`; `effective_gas_price`, the data fees,
the first frame's gas limit, the reimbursement and the reward are the `TxGas` functions -/
theorem evm_gas_pipeline_eq_txgas (e : Evm.Env) (spec floorGas k : Nat) (res : Interp.ChildResult) (limit : Nat) :
    Evm.finalGas e spec floorGas (U64ops.wmul k (Evm.PER_EMPTY_ACCOUNT_COST - Evm.PER_AUTH_BASE_COST)) res =
      TxGas.finalGas (gasEnv e spec) floorGas k (frameRes res limit) ∧
    (toIR res.result).gasClass =
      (if res.result.isOk then .ok else if res.result.isRevert then .revert else .other) ∧
    classOf res.result = classOfReport (toIR res.result).report ∧
    e.effectiveGasPrice = TxGas.effectiveGasPrice (gasEnv e spec) ∧
    e.calcDataFee = TxGas.calcDataFee (gasEnv e spec) ∧
    e.calcMaxDataFee = TxGas.calcMaxDataFee (gasEnv e spec) ∧
    (∀ ig, U64ops.wsub e.tx.gasLimit ig = TxGas.frameGasLimit (gasEnv e spec) ig) ∧
    (∀ g : Gas, U256.wmul e.effectiveGasPrice (U64ops.wadd g.remaining (i64AsU64 g.refunded)) =
      TxGas.reimburseAmount (gasEnv e spec) g) ∧
    (∀ g : Gas, U256.wmul (if enabled spec GasCalc.SpecId.LONDON then U256.saturatingSub e.effectiveGasPrice e.block.basefee
        else e.effectiveGasPrice) (U64ops.wsub (spent g) (i64AsU64 g.refunded)) = TxGas.rewardAmount (gasEnv e spec) g) :=
  ⟨finalGas_eq_txgas e spec floorGas k res limit, toIR_gasClass _, classOf_eq_report _, rfl, calcDataFee_eq e spec,
   calcMaxDataFee_eq e spec, fun _ => rfl, fun g => reimburse_eq e spec g, fun g => reward_eq e spec g⟩

/-- LINK: what `Evm.deductCaller` takes from the caller is `TxGas.deductAmount`, applied with `TxGas.deductCaller` -/
theorem evm_deduct_caller_eq_txgas (e : Evm.Env) (spec : Nat) (w w' : World) (h : Evm.deductCaller e spec w = .ok w') :
    ∃ (w1 : World) (cold : Bool) (acc acc' : Journal.Acct) (d : Nat),
      w.loadAccount e.tx.caller = .ok (w1, cold) ∧ w1.acct e.tx.caller = .ok acc ∧
      TxGas.deductAmount (gasEnv e spec) = some d ∧
      w'.js.state e.tx.caller = some acc' ∧
      acc'.info.balance = TxGas.deductCaller acc.info.balance d ∧
      acc'.info.nonce = (if e.tx.to.isSome then U64ops.saturatingAdd acc.info.nonce 1 else acc.info.nonce) ∧
      (∀ x, x ≠ e.tx.caller → w'.js.state x = w1.js.state x) :=
  deductCaller_leg e spec w w' h

/-- a completed executed transaction exists (the plain transfer of C01) -/
example : ∃ r w', Evm.transact 10 sampleWorld sampleEnv 17 = .ok (.executed r, w') :=
  exists_of_isExecuted (by decide +kernel)

open Revm.Model.Gas Revm.Model.TxGas in
/-- COROLLARY (C09 `spent_bounds`, `used_le_limit`, `floor_le_used`, `used_eq_max` on `Evm.transact`): for a completed
executed transaction — under the frame machine's guarantee — intrinsic gas ≤ gas spent ≤ gas limit, the reported
`gas_used` is at most the gas limit, at least the EIP-7623 floor, and equals `max (spent − refunded) floor` -/
theorem transact_spent_bounds (fuel : Nat) (w w' : World) (e : Evm.Env) (spec : Nat) (r : TxResult)
    (h : Evm.transact fuel w e spec = .ok (.executed r, w'))
    (hL : e.tx.gasLimit < U64) (hfa : FrameAccounting fuel w e spec) :
    ∃ ig fg k res,
      initialGas e (GasCalc.canon spec) = some (ig, fg) ∧
      ig ≤ spent (Props.C09.afterRefund (gasEnv e (GasCalc.canon spec)) k (txFrame e ig res)) ∧
      spent (Props.C09.afterRefund (gasEnv e (GasCalc.canon spec)) k (txFrame e ig res)) ≤ e.tx.gasLimit ∧
      r.gasUsed ≤ e.tx.gasLimit ∧ fg ≤ r.gasUsed ∧
      r.gasUsed = max (spent (Props.C09.afterRefund (gasEnv e (GasCalc.canon spec)) k (txFrame e ig res)) -
        gasRefunded (Props.C09.afterRefund (gasEnv e (GasCalc.canon spec)) k (txFrame e ig res))) fg := by
  obtain ⟨ig, fg, k, res, w3, isCreate, hff, _, _, _, _, hu, _, _⟩ := transact_first_frame fuel w w' e spec r h
  have ha := admissible_of_firstFrame hff hL (hfa ig fg k res w3 hff) (U64ops.wsub e.tx.gasLimit ig)
  obtain ⟨w1, first, w2, ic, hp, _, _⟩ := hff
  obtain ⟨_, hi, _, _, _⟩ := preverify_some_inv w w1 e _ ig fg hp
  have hb := Props.C09.spent_bounds _ ig fg k _ ha
  refine ⟨ig, fg, k, res, hi, hb.1, hb.2, ?_, ?_, ?_⟩
  · rw [hu]; exact Props.C09.used_le_limit _ ig fg k _ ha
  · rw [hu]; exact Props.C09.floor_le_used _ ig fg k _ ha
  · rw [hu]; exact Props.C09.used_eq_max _ ig fg k _ ha

open Revm.Model.Gas Revm.Model.TxGas in
/-- COROLLARY (C09 `refund_cap`, `used_plus_refunded` on the RESULT of `Evm.transact`): the reported refund is at most
a fifth (London on; half before) of the gas spent, where spent = `gas_used + gas_refunded` of the result; on revert and
halt the reported refund is 0 -/
theorem transact_refund_cap (fuel : Nat) (w w' : World) (e : Evm.Env) (spec : Nat) (r : TxResult)
    (h : Evm.transact fuel w e spec = .ok (.executed r, w'))
    (hL : e.tx.gasLimit < U64) (hfa : FrameAccounting fuel w e spec) :
    r.gasRefunded ≤ (r.gasUsed + r.gasRefunded) / (if enabled (GasCalc.canon spec) GasCalc.SpecId.LONDON = true then 5 else 2) ∧
    (r.cls ≠ .success → r.gasRefunded = 0) := by
  obtain ⟨ig, fg, k, res, w3, isCreate, hff, _, _, _, _, hu, hs, hn⟩ := transact_first_frame fuel w w' e spec r h
  have ha := admissible_of_firstFrame hff hL (hfa ig fg k res w3 hff) (U64ops.wsub e.tx.gasLimit ig)
  refine ⟨?_, hn⟩
  by_cases hc : r.cls = .success
  · have h1 := (Props.C09.refund_cap _ ig fg k _ ha).1
    have h2 := (Props.C09.used_plus_refunded _ ig fg k _ ha).1
    rw [hu, hs hc, h2]
    exact h1
  · rw [hn hc]; exact Nat.zero_le _

open Revm.Model.Gas Revm.Model.TxGas in
/-- COROLLARY (C09 `halt_uses_all_partial` on `Evm.transact`): a halted transaction without an EIP-7702 authorization
list, whose halt is not one of the two revert-class results `CallTooDeep` / `OutOfFunds`, uses its whole gas limit -/
theorem transact_halt_uses_all_partial (fuel : Nat) (w w' : World) (e : Evm.Env) (spec : Nat) (r : TxResult)
    (h : Evm.transact fuel w e spec = .ok (.executed r, w'))
    (hL : e.tx.gasLimit < U64) (hfa : FrameAccounting fuel w e spec)
    (hcls : r.cls = .halt) (hauth : e.tx.authList = none)
    (hir : r.reason ≠ .CallTooDeep ∧ r.reason ≠ .OutOfFunds) :
    r.gasUsed = e.tx.gasLimit := by
  obtain ⟨ig, fg, k, res, w3, isCreate, hff, hk, _, hc, hreason, hu, _, _⟩ := transact_first_frame fuel w w' e spec r h
  have ha := admissible_of_firstFrame hff hL (hfa ig fg k res w3 hff) (U64ops.wsub e.tx.gasLimit ig)
  rw [authLen_none hauth] at hk
  have hk0 : k = 0 := by omega
  subst hk0
  rw [hu]
  have hrep : (txFrame e ig res).ir.report = .halt := by
    show (toIR res.result).report = .halt
    rw [classOf_eq_report, hcls] at hc
    generalize (toIR res.result).report = rep at hc
    cases rep <;> first | rfl | cases hc
  refine Props.C09.halt_uses_all_partial _ ig fg _ ha hrep ⟨?_, ?_⟩
  · show toIR res.result ≠ .CallTooDeep
    rw [hreason] at hir
    intro hx; apply hir.1
    generalize res.result = rr at hx
    cases rr <;> first | rfl | cases hx
  · show toIR res.result ≠ .OutOfFunds
    rw [hreason] at hir
    intro hx; apply hir.2
    generalize res.result = rr at hx
    cases rr <;> first | rfl | cases hx

/-- the literal clause on `Evm.transact` without the two hypotheses; false of the code for EIP-7702 transactions with a
refunded authority (C09 `halt_uses_all_counterexample`: the behaviour EIP-7702 specifies) -/
def FullStatement_transact_halt_uses_all : Prop :=
  ∀ (fuel : Nat) (w w' : World) (e : Evm.Env) (spec : Nat) (r : TxResult),
    Evm.transact fuel w e spec = .ok (.executed r, w') → e.tx.gasLimit < U64 → FrameAccounting fuel w e spec →
    r.cls = .halt → r.gasUsed = e.tx.gasLimit

open Revm.Model.Gas Revm.Model.TxGas in
/-- COROLLARY (C09 `halt_used_exact`, full strength): a halted transaction (result outside `return_ok!` /
`return_revert!`) uses `max (gas_limit − min (12500·k) (gas_limit / q)) floor` for some number `k` of refunded
authorities, at most the length of the authorization list -/
theorem transact_halt_used_exact (fuel : Nat) (w w' : World) (e : Evm.Env) (spec : Nat) (r : TxResult)
    (h : Evm.transact fuel w e spec = .ok (.executed r, w'))
    (hL : e.tx.gasLimit < U64) (hfa : FrameAccounting fuel w e spec)
    (hcls : r.reason.isOk = false ∧ r.reason.isRevert = false)
    (hlen : 12500 * authLen e < 9223372036854775808) :
    ∃ ig fg k, initialGas e (GasCalc.canon spec) = some (ig, fg) ∧ k ≤ authLen e ∧
      r.gasUsed = max (e.tx.gasLimit - min (12500 * k)
        (e.tx.gasLimit / (if enabled (GasCalc.canon spec) GasCalc.SpecId.LONDON = true then 5 else 2))) fg := by
  obtain ⟨ig, fg, k, res, w3, isCreate, hff, hk, _, hc, hreason, hu, _, _⟩ := transact_first_frame fuel w w' e spec r h
  have ha := admissible_of_firstFrame hff hL (hfa ig fg k res w3 hff) (U64ops.wsub e.tx.gasLimit ig)
  obtain ⟨w1, first, w2, ic, hp, _, _⟩ := hff
  obtain ⟨_, hi, _, _, _⟩ := preverify_some_inv w w1 e _ ig fg hp
  refine ⟨ig, fg, k, hi, hk, ?_⟩
  rw [hu]
  have hgc : (txFrame e ig res).ir.gasClass = .other := by
    show (toIR res.result).gasClass = .other
    rw [toIR_gasClass, ← hreason, hcls.1, hcls.2]; rfl
  exact Props.C09.halt_used_exact _ ig fg k _ ha hgc (by omega)

example : (Interp.IResult.OutOfGas).isOk = false ∧ (Interp.IResult.OutOfGas).isRevert = false := ⟨rfl, rfl⟩

end Revm.Props.C01Link
