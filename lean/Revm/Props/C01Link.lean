import Revm.Proofs.EvmLinkFeeVal
import Revm.Proofs.EvmSpec
import Revm.Proofs.EvmLinkLoop2
import Revm.Proofs.EvmLinkPay
import Revm.Proofs.EvmLinkHost
import Revm.Props.C34
import Revm.Proofs.EvmLinkStatic4
import Revm.Proofs.EvmLinkGasInv4
import Revm.Proofs.EvmLinkSame
import Revm.Proofs.EvmLinkEther9
import Revm.Proofs.EvmLinkStatic6
import Revm.Proofs.EvmLinkTerm
import Revm.Proofs.EvmLinkTotal4
import Revm.Proofs.EvmLinkInit
import Revm.Proofs.EvmLinkInterp14
/-! C01Link — the whole-transaction model `Revm.Model.Evm.transact` (C01) SATISFIES the component properties.

`Evm.transact` (EvmTx / EvmFrame / EvmLoop / EvmHost) was written independently of the component models that carry the
proved properties: `Model.TxValidate` (C02), `Model.TxGas` (C09), `Model.Frame` (C07), … Each of those is tied to the
Rust code by its own correspondence stream. The LINK theorems here say that the corresponding part of the whole-EVM
model IS the component model (equal as functions, on every input), and the COROLLARIES restate the component properties
on `Evm.transact` / `Evm.preverify` / `Evm.finalGas` / `Evm.runLoop` themselves.

Translations (`Proofs/EvmLink*.lean`): `tvCfg / tvBlock / tvTx / senderOf` (the environment and the loaded sender as C02
reads them), `gasEnv / frameRes / toIR` (the environment and the first frame's result as C09 reads them).

Sections: 1 validation (C02) · 2 gas and fees (C09) · 3 frame depth (C07) · 4 the `Host` as a journal history, cold /
warm (C34) · 5 static mode (C10) · 6 ether conservation (C08) · 7 termination · 8 panic-freedom of the journal and frame machine.

What is hypothesised and not proved here: `loadSender … = .ok …` (the journal can load the sender: no `unwrap` panic in
the journal model, the code store knows the sender's code hash); for C34 the history `lockRun … = some l` leading to the
world's journal. The static frame statement for whole-EVM runs (`FullStatement_static_frame_state_equal`) is proved:
`static_frame_state_equal`.
The frame machine's guarantee (`FrameAccounting`: the first frame gives back at most `gas_limit − initial_gas`, the
visible hypothesis of C09 and of C01 `transact_gas_bounds`) IS proved here, through `Evm.runLoop`
(`evm_frame_accounting`), so the gas and fee corollaries carry no such hypothesis. -/
namespace Revm.Props.C01Link
open Revm Revm.Model Revm.Model.Evm
open Revm.Proofs.EvmLink
open Revm.Model.GasCalc (enabled)
open Revm.Spec.GasCalc (Fork)
open Revm.Spec.TxValid
open Revm.Proofs.TxValidate (InRange GasFits TypeGap BlobFeeSaturation)

/-! ## 1. validation (C02) -/

/-- LINK: `Evm.validateEnv` (accept / reject / panic) is `TxValidate.validateEnv` of C02, as functions -/
theorem evm_validateEnv_eq_txvalidate (e : Evm.Env) (spec : Nat) :
    Evm.validateEnv e spec = resToR (TxValidate.validateEnv spec (tvCfg e) (tvBlock e) (tvTx e)) :=
  validateEnv_link e spec

/-- LINK: `Evm.validateAgainstState` accepts exactly when `TxValidate.validateTxAgainstState` answers `Ok` -/
theorem evm_validateAgainstState_eq_txvalidate (e : Evm.Env) (spec : Nat) (code : List Nat) (info : Journal.Info) :
    Evm.validateAgainstState e spec code info =
      accepted (TxValidate.validateTxAgainstState spec (tvTx e) (senderOf code info)) :=
  validateAgainstState_link e spec code info

/-- LINK: the validation `Evm.preverify` performs agrees with `TxValidate.validateCanon` (C02) on the sender as the
journal loads it — accepted iff `Ok`, rejected iff some `Err`, panic iff `panic` -/
theorem evm_validation_accepts_iff (w w1 : World) (e : Evm.Env) (spec : Nat) (acc : Journal.Acct) (code : List Nat)
    (hload : loadSender w e.tx.caller = .ok (w1, acc, code)) :
    ((∃ x, Evm.preverify w e spec = .ok (some x)) ↔
      TxValidate.validateCanon spec (tvCfg e) (tvBlock e) (tvTx e) (senderOf code acc.info) = .ok) ∧
    (Evm.preverify w e spec = .ok none ↔
      ∃ err, TxValidate.validateCanon spec (tvCfg e) (tvBlock e) (tvTx e) (senderOf code acc.info) = .err err) ∧
    ((∃ msg, Evm.preverify w e spec = .error (.panic msg)) ↔
      TxValidate.validateCanon spec (tvCfg e) (tvBlock e) (tvTx e) (senderOf code acc.info) = .panic) := by
  obtain ⟨h1, h2, h3⟩ := preverify_verdict w w1 e spec acc code hload
  cases hv : TxValidate.validateCanon spec (tvCfg e) (tvBlock e) (tvTx e) (senderOf code acc.info) with
  | ok =>
    obtain ⟨ig, fg, _, hp⟩ := h1 hv
    refine ⟨⟨fun _ => rfl, fun _ => ⟨_, hp⟩⟩, ⟨fun h => ?_, fun ⟨_, h⟩ => nomatch h⟩, ⟨fun ⟨_, h⟩ => ?_, fun h => nomatch h⟩⟩
    · rw [hp] at h; cases h
    · rw [hp] at h; cases h
  | err x =>
    have hp := h2 x hv
    refine ⟨⟨fun ⟨_, h⟩ => ?_, fun h => nomatch h⟩, ⟨fun _ => ⟨x, rfl⟩, fun _ => hp⟩, ⟨fun ⟨_, h⟩ => ?_, fun h => nomatch h⟩⟩
    · rw [hp] at h; cases h
    · rw [hp] at h; cases h
  | panic =>
    obtain ⟨msg, hp⟩ := h3 hv
    refine ⟨⟨fun ⟨_, h⟩ => ?_, fun h => nomatch h⟩, ⟨fun h => ?_, fun ⟨_, h⟩ => nomatch h⟩, ⟨fun _ => rfl, fun _ => ⟨msg, hp⟩⟩⟩
    · rw [hp] at h; cases h
    · rw [hp] at h; cases h

/-- a sender that loads: one pre-state account on a fresh journal -/
def sampleWorld : World :=
  { js := Journal.JState.new 17 (fun _ => false),
    pre := [{ addr := 0xaa, balance := 10^18, nonce := 0, code := [], codeHash := KECCAK_EMPTY, storage := [] }] }
def sampleEnv : Evm.Env :=
  { block := { gasLimit := 30000000, basefee := 7, prevrandao := some 0, blobGasPrice := some 1 },
    tx := { caller := 0xaa, gasLimit := 21000, gasPrice := 10, to := some 0xbb, value := 5, nonce := some 0 } }

example : ∃ r, loadSender sampleWorld sampleEnv.tx.caller = .ok r :=
  Proofs.Evm.exists_of_isOk (by decide +kernel)

/-- COROLLARY (C02 `rejected_iff_invalid_partial` on `Evm.transact`): a transaction is answered `rejected` by the
whole-EVM model exactly when it breaks a validity rule of its hardfork (`Spec.TxValid.ValidTx`), outside the departure
regions of C02 (`TypeGap`, `BlobFeeSaturation`) -/
theorem transact_rejected_iff_invalid_partial (f : Fork) (fuel : Nat) (w w1 : World) (e : Evm.Env)
    (acc : Journal.Acct) (code : List Nat) (hload : loadSender w e.tx.caller = .ok (w1, acc, code))
    (hr : InRange (tvBlock e) (tvTx e) (senderOf code acc.info)) (hfit : GasFits f (tvTx e))
    (hgap : ¬ TypeGap f (tvTx e) (senderOf code acc.info))
    (hsat : ¬ BlobFeeSaturation (tvTx e) (senderOf code acc.info)) :
    (∃ w', Evm.transact fuel w e f.id = .ok (.rejected, w')) ↔
      ¬ ValidTx f (tvCfg e) (tvBlock e) (tvTx e) (senderOf code acc.info) := by
  rw [← Props.C02.rejected_iff_invalid_partial f _ _ _ _ hr hfit hgap hsat]
  have hl := (evm_validation_accepts_iff w w1 e (GasCalc.canon f.id) acc code hload).2.1
  constructor
  · rintro ⟨w', h⟩
    exact hl.1 ((transactWith_rejected_iff journalOps fuel w w' e f.id).1 h).1
  · intro h
    exact ⟨w, (transactWith_rejected_iff journalOps fuel w w e f.id).2 ⟨hl.2 h, rfl⟩⟩

/-- the full statement: without the excluded regions. False of the code, by C02's counterexamples (the code accepts a
priority fee before London, a delegated sender before Prague, a saturated blob fee). -/
def FullStatement_transact_rejected_iff_invalid : Prop :=
  ∀ (f : Fork) (fuel : Nat) (w w1 : World) (e : Evm.Env) (acc : Journal.Acct) (code : List Nat),
    loadSender w e.tx.caller = .ok (w1, acc, code) →
    InRange (tvBlock e) (tvTx e) (senderOf code acc.info) → GasFits f (tvTx e) →
    ((∃ w', Evm.transact fuel w e f.id = .ok (.rejected, w')) ↔
      ¬ ValidTx f (tvCfg e) (tvBlock e) (tvTx e) (senderOf code acc.info))

/-- the Berlin witness of C02 (`priority_fee_before_london_counterexample`) as a whole-EVM transaction: sender `0xaa`
with 10^18 wei and nonce 3, a plain transfer carrying `gas_priority_fee = Some(0)` -/
def ceWorld : World :=
  { js := Journal.JState.new 11 (fun _ => false),
    pre := [{ addr := 0xaa, balance := 10^18, nonce := 3, code := [], codeHash := KECCAK_EMPTY, storage := [] }] }
def ceEnv : Evm.Env :=
  { block := { gasLimit := 30000000, basefee := 7, prevrandao := some 0, blobGasPrice := some 1 },
    tx := { caller := 0xaa, gasLimit := 21000, gasPrice := 10, to := some 0xbb, value := 5, nonce := some 3,
            chainId := some 1, priorityFee := some 0 } }

/-- the full statement is FALSE of the whole-EVM model too (as it is of the code, C02): `Evm.transact` EXECUTES the
Berlin transaction with a priority fee, which `Spec.TxValid.ValidTx` rejects (EIP-1559 transactions do not exist before
London) — the departure region `TypeGap` of C02, reproduced by the whole-transaction model -/
theorem transact_rejected_iff_invalid_full_counterexample : ¬ FullStatement_transact_rejected_iff_invalid := by
  intro hall
  obtain ⟨w1, acc, code, hl, hs⟩ :=
    loadedSenderIs_spec (w := ceWorld) (a := ceEnv.tx.caller) (snd := Props.C02.sndPlain) (by decide +kernel)
  have htx : tvTx ceEnv = { Props.C02.txPlain with priorityFee := some 0 } := rfl
  have hblk : tvBlock ceEnv = Props.C02.blkPlain := rfl
  have hcfg : tvCfg ceEnv = {} := rfl
  have hr : InRange (tvBlock ceEnv) (tvTx ceEnv) (senderOf code acc.info) := by
    rw [hs, htx, hblk]
    exact Props.C02.inRange_plain _ _ (by rw [W_val, U64_val]; decide)
  have hf : GasFits .berlin (tvTx ceEnv) := by
    rw [htx]; unfold GasFits; rw [U64_val]; decide
  have hiff := hall .berlin 10 ceWorld w1 ceEnv acc code hl hr hf
  rw [hs, htx, hblk, hcfg] at hiff
  obtain ⟨w', hrej⟩ := hiff.2 Props.C02.priority_fee_before_london_counterexample.2
  obtain ⟨r, w'', hex⟩ : ∃ r w'', Evm.transact 10 ceWorld ceEnv Fork.berlin.id = .ok (.executed r, w'') :=
    exists_of_isExecuted (by decide +kernel)
  rw [hex] at hrej
  cases hrej

/-- COROLLARY (C02 `valid_accepted`, full strength): a valid transaction is never answered `rejected` -/
theorem transact_valid_not_rejected (f : Fork) (fuel : Nat) (w w1 w' : World) (e : Evm.Env)
    (acc : Journal.Acct) (code : List Nat) (hload : loadSender w e.tx.caller = .ok (w1, acc, code))
    (hr : InRange (tvBlock e) (tvTx e) (senderOf code acc.info)) (hfit : GasFits f (tvTx e))
    (hvalid : ValidTx f (tvCfg e) (tvBlock e) (tvTx e) (senderOf code acc.info)) :
    Evm.transact fuel w e f.id ≠ .ok (.rejected, w') := by
  intro h
  have hrej := ((transactWith_rejected_iff journalOps fuel w w' e f.id).1 h).1
  obtain ⟨err, herr⟩ := (evm_validation_accepts_iff w w1 e (GasCalc.canon f.id) acc code hload).2.1.1 hrej
  have hok := Props.C02.valid_accepted f _ _ _ _ hr hfit hvalid
  unfold TxValidate.validate at hok
  rw [hok] at herr; cases herr

/-- COROLLARY (C02 "a rejected transaction changes nothing"): `Evm.transact` hands a rejected transaction's world back
unchanged — not even the sender's account stays loaded -/
theorem transact_rejected_world_unchanged (fuel : Nat) (w w' : World) (e : Evm.Env) (spec : Nat)
    (h : Evm.transact fuel w e spec = .ok (.rejected, w')) : w' = w :=
  ((transactWith_rejected_iff journalOps fuel w w' e spec).1 h).2

/-- a rejected transaction exists: gas limit below the intrinsic gas -/
example : ∃ w', Evm.transact 10 sampleWorld { sampleEnv with tx := { sampleEnv.tx with gasLimit := 20999 } } 17
    = .ok (.rejected, w') :=
  ⟨_, (transactWith_rejected_iff journalOps 10 _ _ _ 17).2 ⟨eq_none_of_isNoneOk (by decide +kernel), rfl⟩⟩

/-! ## 2. gas and fees (C09) -/

open Revm.Model.Gas in
/-- LINK: **the gas pipeline of `EvmTx` is `TxGas`** (C09), as functions: `last_frame_return`, `refund` and the EIP-7623
floor give `TxGas.finalGas` for every first-frame result, every floor and every number `k` of refunded EIP-7702
authorities; the classification of results is `TxGas.IR.gasClass` / `IR.report`; `effective_gas_price`, the data fees,
the first frame's gas limit, the reimbursement and the reward are the `TxGas` functions -/
theorem evm_gas_pipeline_eq_txgas (e : Evm.Env) (spec floorGas k : Nat) (res : Interp.ChildResult) (limit : Nat) :
    Evm.finalGas e spec floorGas (U64ops.wmul k (Evm.PER_EMPTY_ACCOUNT_COST - Evm.PER_AUTH_BASE_COST)) res =
      TxGas.finalGas (gasEnv e spec) floorGas k (frameRes res limit) ∧
    (toIR res.result).gasClass =
      (if res.result.isOk then .ok else if res.result.isRevert then .revert else .other) ∧
    classOf res.result = classOfReport (toIR res.result).report ∧
    e.effectiveGasPrice = TxGas.effectiveGasPrice (gasEnv e spec) ∧
    e.calcDataFee = TxGas.calcDataFee (gasEnv e spec) ∧
    e.calcMaxDataFee = TxGas.calcMaxDataFee (gasEnv e spec) ∧
    (∀ ig, U64ops.wsub e.tx.gasLimit ig = TxGas.frameGasLimit (gasEnv e spec) ig) ∧
    (∀ g : Gas, U256.wmul e.effectiveGasPrice (U64ops.wadd g.remaining (i64AsU64 g.refunded)) =
      TxGas.reimburseAmount (gasEnv e spec) g) ∧
    (∀ g : Gas, U256.wmul (if enabled spec GasCalc.SpecId.LONDON then U256.saturatingSub e.effectiveGasPrice e.block.basefee
        else e.effectiveGasPrice) (U64ops.wsub (spent g) (i64AsU64 g.refunded)) = TxGas.rewardAmount (gasEnv e spec) g) :=
  ⟨finalGas_eq_txgas e spec floorGas k res limit, toIR_gasClass _, classOf_eq_report _, rfl, calcDataFee_eq e spec,
   calcMaxDataFee_eq e spec, fun _ => rfl, fun g => reimburse_eq e spec g, fun g => reward_eq e spec g⟩

/-- LINK: what `Evm.deductCaller` takes from the caller is `TxGas.deductAmount`, applied with `TxGas.deductCaller` -/
theorem evm_deduct_caller_eq_txgas (e : Evm.Env) (spec : Nat) (w w' : World) (h : Evm.deductCaller e spec w = .ok w') :
    ∃ (w1 : World) (cold : Bool) (acc acc' : Journal.Acct) (d : Nat),
      w.loadAccount e.tx.caller = .ok (w1, cold) ∧ w1.acct e.tx.caller = .ok acc ∧
      TxGas.deductAmount (gasEnv e spec) = some d ∧
      w'.js.state e.tx.caller = some acc' ∧
      acc'.info.balance = TxGas.deductCaller acc.info.balance d ∧
      acc'.info.nonce = (if e.tx.to.isSome then U64ops.saturatingAdd acc.info.nonce 1 else acc.info.nonce) ∧
      (∀ x, x ≠ e.tx.caller → w'.js.state x = w1.js.state x) :=
  deductCaller_leg e spec w w' h

/-- a completed executed transaction exists (the plain transfer of C01) -/
example : ∃ r w', Evm.transact 10 sampleWorld sampleEnv 17 = .ok (.executed r, w') :=
  exists_of_isExecuted (by decide +kernel)

/-! ### frame accounting through `Evm.runLoop` -/

/-- LINK (C13 / C25 gas accounting on the interpreter `Evm.runLoop` runs): one step of ANY frame in ANY state keeps
`is_static` and the limit of its gas meter, only spends gas, and an action it hands out (CALL family, CREATE, EOFCREATE,
EXT*CALL — directly or after the host's answer) has paid for the child's gas limit:
`remaining' + child_gas_limit ≤ remaining` (for a CALL with value the 2300 stipend is covered by the 9000 surcharge) -/
theorem evm_step_gas_accounting (s : Interp.IState) : KOutcome s (Interp.step s) := step_kept s

/-- the loop invariant "every open frame's remaining ≤ its limit, and a child's limit ≤ what the parent paid", along
ANY run of `run_the_loop` (no fuel in the statement): from a state satisfying it, every state passed satisfies it, and
the first frame's result gives back at most the first frame's gas limit `L0` -/
theorem evm_loop_gas_invariant (cfg : Cfg) (L0 : Nat) (n m : Next Journal.Checkpoint) (t : Steps cfg n m)
    (hi : GasNext L0 n) : GasNext L0 m := steps_gas t hi

/-- a state satisfying the invariant: one fresh frame -/
example : GasNext 100000 (.run [
    { kind := .call 0 0, checkpoint := { logI := 0, journalI := 1 },
      interp := Interp.IState.init [] [] 100000 false 17 0 0 0 {} Memory.new }] sampleWorld) :=
  .run (Nat.le_refl _) rfl

/-- COROLLARY — **the frame machine's guarantee, the hypothesis of C09 (`Admissible.frame_remaining`) and of C01
`transact_gas_bounds`, holds of the whole-EVM model**: for every world, transaction, fork and fuel, the first frame of
`Evm.transact` gives back at most the gas it was given, `gas_limit − initial_gas` -/
theorem evm_frame_accounting (fuel : Nat) (w : World) (e : Evm.Env) (spec : Nat) : FrameAccounting fuel w e spec :=
  frameAccounting fuel w e spec


open Revm.Model.Gas Revm.Model.TxGas in
/-- COROLLARY (C09 `spent_bounds`, `used_le_limit`, `floor_le_used`, `used_eq_max` on `Evm.transact`): for a completed
executed transaction intrinsic gas ≤ gas spent ≤ gas limit, the reported
`gas_used` is at most the gas limit, at least the EIP-7623 floor, and equals `max (spent − refunded) floor` -/
theorem transact_spent_bounds (fuel : Nat) (w w' : World) (e : Evm.Env) (spec : Nat) (r : TxResult)
    (h : Evm.transact fuel w e spec = .ok (.executed r, w'))
    (hL : e.tx.gasLimit < U64) :
    ∃ ig fg k res,
      initialGas e (GasCalc.canon spec) = some (ig, fg) ∧
      ig ≤ spent (Props.C09.afterRefund (gasEnv e (GasCalc.canon spec)) k (txFrame e ig res)) ∧
      spent (Props.C09.afterRefund (gasEnv e (GasCalc.canon spec)) k (txFrame e ig res)) ≤ e.tx.gasLimit ∧
      r.gasUsed ≤ e.tx.gasLimit ∧ fg ≤ r.gasUsed ∧
      r.gasUsed = max (spent (Props.C09.afterRefund (gasEnv e (GasCalc.canon spec)) k (txFrame e ig res)) -
        gasRefunded (Props.C09.afterRefund (gasEnv e (GasCalc.canon spec)) k (txFrame e ig res))) fg := by
  have hfa := frameAccounting fuel w e spec
  obtain ⟨ig, fg, k, res, w3, isCreate, hff, _, _, _, _, hu, _, _⟩ := transact_first_frame fuel w w' e spec r h
  have ha := admissible_of_firstFrame hff hL (hfa ig fg k res w3 hff) (U64ops.wsub e.tx.gasLimit ig)
  obtain ⟨w1, first, w2, ic, hp, _, _⟩ := hff
  obtain ⟨_, hi, _, _, _⟩ := preverify_some_inv w w1 e _ ig fg hp
  have hb := Props.C09.spent_bounds _ ig fg k _ ha
  refine ⟨ig, fg, k, res, hi, hb.1, hb.2, ?_, ?_, ?_⟩
  · rw [hu]; exact Props.C09.used_le_limit _ ig fg k _ ha
  · rw [hu]; exact Props.C09.floor_le_used _ ig fg k _ ha
  · rw [hu]; exact Props.C09.used_eq_max _ ig fg k _ ha

open Revm.Model.Gas Revm.Model.TxGas in
/-- COROLLARY (C09 `refund_cap`, `used_plus_refunded` on the RESULT of `Evm.transact`): the reported refund is at most
a fifth (London on; half before) of the gas spent, where spent = `gas_used + gas_refunded` of the result; on revert and
halt the reported refund is 0 -/
theorem transact_refund_cap (fuel : Nat) (w w' : World) (e : Evm.Env) (spec : Nat) (r : TxResult)
    (h : Evm.transact fuel w e spec = .ok (.executed r, w'))
    (hL : e.tx.gasLimit < U64) :
    r.gasRefunded ≤ (r.gasUsed + r.gasRefunded) / (if enabled (GasCalc.canon spec) GasCalc.SpecId.LONDON = true then 5 else 2) ∧
    (r.cls ≠ .success → r.gasRefunded = 0) := by
  have hfa := frameAccounting fuel w e spec
  obtain ⟨ig, fg, k, res, w3, isCreate, hff, _, _, _, _, hu, hs, hn⟩ := transact_first_frame fuel w w' e spec r h
  have ha := admissible_of_firstFrame hff hL (hfa ig fg k res w3 hff) (U64ops.wsub e.tx.gasLimit ig)
  refine ⟨?_, hn⟩
  by_cases hc : r.cls = .success
  · have h1 := (Props.C09.refund_cap _ ig fg k _ ha).1
    have h2 := (Props.C09.used_plus_refunded _ ig fg k _ ha).1
    rw [hu, hs hc, h2]
    exact h1
  · rw [hn hc]; exact Nat.zero_le _

open Revm.Model.Gas Revm.Model.TxGas in
/-- COROLLARY (C09 `halt_uses_all_partial` on `Evm.transact`): a halted transaction without an EIP-7702 authorization
list, whose halt is not one of the two revert-class results `CallTooDeep` / `OutOfFunds`, uses its whole gas limit -/
theorem transact_halt_uses_all_partial (fuel : Nat) (w w' : World) (e : Evm.Env) (spec : Nat) (r : TxResult)
    (h : Evm.transact fuel w e spec = .ok (.executed r, w'))
    (hL : e.tx.gasLimit < U64)
    (hcls : r.cls = .halt) (hauth : e.tx.authList = none)
    (hir : r.reason ≠ .CallTooDeep ∧ r.reason ≠ .OutOfFunds) :
    r.gasUsed = e.tx.gasLimit := by
  have hfa := frameAccounting fuel w e spec
  obtain ⟨ig, fg, k, res, w3, isCreate, hff, hk, _, hc, hreason, hu, _, _⟩ := transact_first_frame fuel w w' e spec r h
  have ha := admissible_of_firstFrame hff hL (hfa ig fg k res w3 hff) (U64ops.wsub e.tx.gasLimit ig)
  rw [authLen_none hauth] at hk
  have hk0 : k = 0 := by omega
  subst hk0
  rw [hu]
  have hrep : (txFrame e ig res).ir.report = .halt := by
    show (toIR res.result).report = .halt
    rw [classOf_eq_report, hcls] at hc
    generalize (toIR res.result).report = rep at hc
    cases rep <;> first | rfl | cases hc
  refine Props.C09.halt_uses_all_partial _ ig fg _ ha hrep ⟨?_, ?_⟩
  · show toIR res.result ≠ .CallTooDeep
    rw [hreason] at hir
    intro hx; apply hir.1
    generalize res.result = rr at hx
    cases rr <;> first | rfl | cases hx
  · show toIR res.result ≠ .OutOfFunds
    rw [hreason] at hir
    intro hx; apply hir.2
    generalize res.result = rr at hx
    cases rr <;> first | rfl | cases hx

/-- the literal clause on `Evm.transact` without the two hypotheses; false of the code for EIP-7702 transactions with a
refunded authority (C09 `halt_uses_all_counterexample`: the behaviour EIP-7702 specifies) -/
def FullStatement_transact_halt_uses_all : Prop :=
  ∀ (fuel : Nat) (w w' : World) (e : Evm.Env) (spec : Nat) (r : TxResult),
    Evm.transact fuel w e spec = .ok (.executed r, w') → e.tx.gasLimit < U64 →
    r.cls = .halt → r.gasUsed = e.tx.gasLimit

open Revm.Model.Gas Revm.Model.TxGas in
/-- COROLLARY (C09 `halt_used_exact`, full strength): a halted transaction (result outside `return_ok!` /
`return_revert!`) uses `max (gas_limit − min (12500·k) (gas_limit / q)) floor` for some number `k` of refunded
authorities, at most the length of the authorization list -/
theorem transact_halt_used_exact (fuel : Nat) (w w' : World) (e : Evm.Env) (spec : Nat) (r : TxResult)
    (h : Evm.transact fuel w e spec = .ok (.executed r, w'))
    (hL : e.tx.gasLimit < U64)
    (hcls : r.reason.isOk = false ∧ r.reason.isRevert = false)
    (hlen : 12500 * authLen e < 9223372036854775808) :
    ∃ ig fg k, initialGas e (GasCalc.canon spec) = some (ig, fg) ∧ k ≤ authLen e ∧
      r.gasUsed = max (e.tx.gasLimit - min (12500 * k)
        (e.tx.gasLimit / (if enabled (GasCalc.canon spec) GasCalc.SpecId.LONDON = true then 5 else 2))) fg := by
  have hfa := frameAccounting fuel w e spec
  obtain ⟨ig, fg, k, res, w3, isCreate, hff, hk, _, hc, hreason, hu, _, _⟩ := transact_first_frame fuel w w' e spec r h
  have ha := admissible_of_firstFrame hff hL (hfa ig fg k res w3 hff) (U64ops.wsub e.tx.gasLimit ig)
  obtain ⟨w1, first, w2, ic, hp, _, _⟩ := hff
  obtain ⟨_, hi, _, _, _⟩ := preverify_some_inv w w1 e _ ig fg hp
  refine ⟨ig, fg, k, hi, hk, ?_⟩
  rw [hu]
  have hgc : (txFrame e ig res).ir.gasClass = .other := by
    show (toIR res.result).gasClass = .other
    rw [toIR_gasClass, ← hreason, hcls.1, hcls.2]; rfl
  exact Props.C09.halt_used_exact _ ig fg k _ ha hgc (by omega)

example : (Interp.IResult.OutOfGas).isOk = false ∧ (Interp.IResult.OutOfGas).isRevert = false := ⟨rfl, rfl⟩


/-- COROLLARY (C09 `sender_pays` on the RESULT of `Evm.transact`): for a completed executed transaction — validated
sender balance below 2^256 — the sender pays exactly
`effective gas price · gas_used + blob fee` through the two fee legs of the handler:
* the balance validation saw covers `gas_limit · eff + blob_fee`, and the `deduct_caller` inside `prepare` (run on the
  world after `load_accounts`) finds that very balance and leaves it lower by exactly that amount (no saturation);
* `reimburse_caller` adds to whatever the execution left on the sender's account (`accX`, loaded from the world `w3` the
  first frame left) exactly `(gas_limit · eff + blob_fee) − (eff · gas_used + blob_fee)`, with `saturating_add`
  (the sender is not the beneficiary). -/
theorem transact_sender_pays (fuel : Nat) (w w' : World) (e : Evm.Env) (spec : Nat) (r : TxResult)
    (h : Evm.transact fuel w e spec = .ok (.executed r, w'))
    (hL : e.tx.gasLimit < U64) :
    ∃ (w1 : World) (accV : Journal.Acct) (code : List Nat) (ig fg k : Nat) (res : Interp.ChildResult) (w3 : World),
      loadSender w e.tx.caller = .ok (w1, accV, code) ∧
      FirstFrameResult fuel w e spec ig fg k res w3 ∧
      (accV.info.balance < W →
        e.tx.gasLimit * effPrice e spec + blobFeeOf e spec ≤ accV.info.balance ∧
        effPrice e spec * r.gasUsed + blobFeeOf e spec ≤ e.tx.gasLimit * effPrice e spec + blobFeeOf e spec ∧
        (∃ wd accD, deductCaller e (GasCalc.canon spec) (loadAccounts e (GasCalc.canon spec) w1) = .ok wd ∧
          wd.js.state e.tx.caller = some accD ∧
          accD.info.balance = accV.info.balance - (e.tx.gasLimit * effPrice e spec + blobFeeOf e spec)) ∧
        (e.tx.caller ≠ e.block.coinbase → ∃ (wx : World) (c : Bool) (accX accF : Journal.Acct),
          w3.loadAccount e.tx.caller = .ok (wx, c) ∧ wx.acct e.tx.caller = .ok accX ∧
          w'.js.state e.tx.caller = some accF ∧
          accF.info.balance = U256.saturatingAdd accX.info.balance
            (e.tx.gasLimit * effPrice e spec + blobFeeOf e spec -
              (effPrice e spec * r.gasUsed + blobFeeOf e spec)))) := by
  have hfa := frameAccounting fuel w e spec
  obtain ⟨w1, accV, code, ig, fg, k, res, w3, hl, hff, hrest⟩ := transact_payments fuel w w' e spec r h hL hfa
  refine ⟨w1, accV, code, ig, fg, k, res, w3, hl, hff, fun hW => ?_⟩
  obtain ⟨a, b, c, d, _⟩ := hrest hW
  exact ⟨a, b, c, d⟩

/-- COROLLARY (C09 `beneficiary_gets` on the RESULT of `Evm.transact`): the beneficiary's account in the final world is
the account `reward_beneficiary` loaded (`accB`) plus exactly `(effective price − base fee) · gas_used` from London on,
`effective price · gas_used` before — no 256-bit wrap in the product; the addition saturates -/
theorem transact_beneficiary_gets (fuel : Nat) (w w' : World) (e : Evm.Env) (spec : Nat) (r : TxResult)
    (h : Evm.transact fuel w e spec = .ok (.executed r, w'))
    (hL : e.tx.gasLimit < U64) :
    ∃ (w1 : World) (accV : Journal.Acct) (code : List Nat),
      loadSender w e.tx.caller = .ok (w1, accV, code) ∧
      (accV.info.balance < W →
        ∃ (wy : World) (accB accG : Journal.Acct), wy.acct e.block.coinbase = .ok accB ∧
          w'.js.state e.block.coinbase = some accG ∧
          accG.info.balance = U256.saturatingAdd accB.info.balance (tipPrice e spec * r.gasUsed)) := by
  have hfa := frameAccounting fuel w e spec
  obtain ⟨w1, accV, code, ig, fg, k, res, w3, hl, hff, hrest⟩ := transact_payments fuel w w' e spec r h hL hfa
  exact ⟨w1, accV, code, hl, fun hW => (hrest hW).2.2.2.2⟩

/-- COROLLARY (C09 `sender_is_beneficiary` on the RESULT of `Evm.transact`): when the sender is the block's
beneficiary, `reward_beneficiary` loads the very account `reimburse_caller` has just written: the account ends at what
the execution left on it, plus `(gas_limit · eff + blob_fee) − (eff · gas_used + blob_fee)`, plus
`(eff − base fee) · gas_used` (both `saturating_add`), and the reward is at most the gas fee paid -/
theorem transact_sender_is_beneficiary (fuel : Nat) (w w' : World) (e : Evm.Env) (spec : Nat) (r : TxResult)
    (h : Evm.transact fuel w e spec = .ok (.executed r, w')) (hL : e.tx.gasLimit < U64)
    (heq : e.tx.caller = e.block.coinbase) :
    ∃ (w1 : World) (accV : Journal.Acct) (code : List Nat) (ig fg k : Nat) (res : Interp.ChildResult) (w3 : World),
      loadSender w e.tx.caller = .ok (w1, accV, code) ∧
      FirstFrameResult fuel w e spec ig fg k res w3 ∧
      (accV.info.balance < W →
        tipPrice e spec * r.gasUsed ≤ effPrice e spec * r.gasUsed ∧
        ∃ (wx : World) (c : Bool) (accX accF : Journal.Acct),
          w3.loadAccount e.tx.caller = .ok (wx, c) ∧ wx.acct e.tx.caller = .ok accX ∧
          w'.js.state e.tx.caller = some accF ∧
          accF.info.balance = U256.saturatingAdd (U256.saturatingAdd accX.info.balance
            (e.tx.gasLimit * effPrice e spec + blobFeeOf e spec - (effPrice e spec * r.gasUsed + blobFeeOf e spec)))
            (tipPrice e spec * r.gasUsed)) :=
  Proofs.EvmLink.transact_sender_is_beneficiary fuel w w' e spec r h hL heq

example : ({ sampleEnv with block := { sampleEnv.block with coinbase := 0xaa } } : Evm.Env).tx.caller =
    ({ sampleEnv with block := { sampleEnv.block with coinbase := 0xaa } } : Evm.Env).block.coinbase := rfl

example : (10 : Nat)^18 < W := by rw [W_val]; decide

/-! ## 3. frame depth (C07)

The checkpoint discipline of `EvmFrame` / `EvmLoop` is re-proved directly on the whole-EVM frame machine (the
journal-level depth lemmas of C07 are reused; `make_call_frame` / `make_create_frame` are first cut into the stages
of `Model.Frame` — `makeCallFrame_staged`, `makeCreateFrame_staged`, equalities by `rfl`). Runs are stated WITHOUT fuel:
`Steps cfg n m` is the step relation of `run_the_loop` (`iterate` / `frameEnd`), and every completed `Evm.runLoop` run
is a `Steps` path (`runLoop_steps`). -/

open Revm.Model.Journal (incU64 decU64) in
/-- COROLLARY (C07 `frame_depth_neutral_call` on EvmFrame): an immediate result of `make_call_frame` leaves the journal
depth unchanged; an opened frame, once `call_return` runs on a state of the depth right after frame creation, returns
to the depth before the call — whatever the frame's result -/
theorem evm_frame_depth_neutral_call (cfg : Cfg) (w w1 : World) (i : Interp.CallInputs) (mem : Memory.SharedMemory)
    (fr : FrameOrResult Journal.Checkpoint) (h : makeCallFrame journalOps cfg w i mem = .ok (fr, w1)) :
    (∀ r, fr = .result r → w1.js.depth = w.js.depth) ∧
    (∀ f, fr = .frame f → ∀ (w2 w3 : World) (res res' : Interp.ChildResult),
      w2.js.depth = w1.js.depth → callReturn journalOps w2 f.checkpoint res = .ok (res', w3) →
      w3.js.depth = w.js.depth) := by
  obtain ⟨x, y⟩ := makeCallFrame_depth h
  refine ⟨fun r hr => (x r hr).1, fun f hf w2 w3 res res' h2 h3 => ?_⟩
  rw [callReturn_depth h3, h2, (y f hf).1, Proofs.Frame.dec_inc]

open Revm.Model.Journal (incU64 decU64) in
/-- COROLLARY (C07 `frame_depth_neutral_create` on EvmFrame): the same for `make_create_frame` + `create_return`, on
every path (depth, OutOfFunds, nonce overflow, precompile address, collision, balance overflow; result not ok, EF first
byte, size limit, code-deposit failure before / after Homestead, success) -/
theorem evm_frame_depth_neutral_create (cfg : Cfg) (w w1 : World) (i : Interp.CreateInputs)
    (mem : Memory.SharedMemory) (fr : FrameOrResult Journal.Checkpoint)
    (h : makeCreateFrame journalOps cfg w i mem = .ok (fr, w1)) :
    (∀ r, fr = .result r → w1.js.depth = w.js.depth) ∧
    (∀ f, fr = .frame f → ∀ (w2 w3 : World) (a : Nat) (res res' : Interp.ChildResult),
      w2.js.depth = w1.js.depth → createReturn journalOps cfg w2 f.checkpoint a res = .ok (res', w3) →
      w3.js.depth = w.js.depth) := by
  obtain ⟨x, y⟩ := makeCreateFrame_depth h
  refine ⟨fun r hr => (x r hr).1, fun f hf w2 w3 a res res' h2 h3 => ?_⟩
  rw [createReturn_depth h3, h2, (y f hf).1, Proofs.Frame.dec_inc]

/-- COROLLARY (C07 `host_op_depth_neutral` on EvmHost): no answer of the journal-backed `Host` moves the depth -/
theorem evm_host_depth_neutral (he : HostEnv) (w w1 : World) (op : Interp.HostOp) (resp : Interp.HostResp)
    (h : answer he w op = .ok (resp, w1)) : w1.js.depth = w.js.depth := answer_depth h

/-- COROLLARY (C07 `loop_depth_invariant_from` on EvmLoop): along ANY run of `run_the_loop` — any program, any number
of steps, no fuel in the statement — from a state with `journal depth = frame-stack length`, every state passed
satisfies it (`1 ≤ length ≤ 1025`), and the depth is 0 once the first frame has returned -/
theorem evm_loop_depth_invariant (cfg : Cfg) (stack : List JFrame) (w : World) (n : Next Journal.Checkpoint)
    (hi : LoopInv stack w) (t : Steps cfg (.run stack w) n) : NextInv n :=
  steps_inv t (.run hi)

/-- every completed fuel-indexed run of `Evm.runLoop` is such a run, and ends at depth 0 -/
theorem evm_runLoop_ends_at_depth_zero (cfg : Cfg) (fuel : Nat) (stack : List JFrame) (w w' : World)
    (r : Interp.ChildResult) (hi : LoopInv stack w) (h : runLoop journalOps cfg fuel stack w = .ok (r, w')) :
    Steps cfg (.run stack w) (.done r w') ∧ w'.js.depth = 0 :=
  ⟨(runLoop_steps cfg fuel).1 _ _ _ _ h, runLoop_depth_zero hi h⟩

/-- COROLLARY (C07 `loop_depth_invariant` on a whole `Evm.transact`): from a journal at depth 0 (a fresh `Evm`), after
validation and `prepare` the first frame runs at depth 1 = one frame on the stack, every state the loop passes has
`depth = stack length`, and the first frame's result is delivered at depth 0 -/
theorem transact_depth_invariant (w w1 w2 : World) (e : Evm.Env) (spec ig fg k : Nat) (isCreate : Bool)
    (first : FrameOrResult Journal.Checkpoint) (h0 : w.js.depth = 0)
    (hp : Evm.preverify w e spec = .ok (some (w1, ig, fg)))
    (hpr : Evm.prepare journalOps e spec ig w1 = .ok (first, w2, isCreate, k)) :
    (∀ f, first = .frame f → ∀ n, Steps (e.toCfg spec) (.run [f] w2) n → NextInv n) ∧
    (∀ fuel res w3, Evm.runFirst journalOps (e.toCfg spec) fuel first w2 = .ok (res, w3) → w3.js.depth = 0) := by
  obtain ⟨_, _, _, _, acc, code, hl, _⟩ := preverify_some_inv w w1 e spec ig fg hp
  obtain ⟨cold, hh, hlc, _⟩ := loadSender_inv hl
  have h1 : w1.js.depth = 0 := by rw [w_loadCode_depth hlc, h0]
  obtain ⟨hf, hr⟩ := prepare_inv h1 hpr
  refine ⟨fun f hfr n t => steps_inv t (.run (hf f hfr)), fun fuel res w3 hrun => ?_⟩
  cases first with
  | frame f => exact runLoop_depth_zero (hf f rfl) hrun
  | result r =>
    simp only [runFirst, pure, Except.pure, Except.ok.injEq, Prod.mk.injEq] at hrun
    rw [← hrun.2]; exact hr r rfl

example : sampleWorld.js.depth = 0 := rfl

/-- the invariant is satisfiable: one frame on the stack, journal at depth 1 -/
example : ∃ (stack : List JFrame) (w : World), LoopInv stack w :=
  ⟨[{ kind := .call 0 0, checkpoint := { logI := 0, journalI := 1 },
      interp := Interp.IState.init [] [] 0 false 17 0 0 0 {} Memory.new }],
   { js := (Journal.checkpoint (Journal.JState.new 17 (fun _ => false))).1 }, rfl, by decide, by decide⟩

/-- COROLLARY (C07 `max_depth` on EvmLoop): in every loop state with `depth = stack length` — i.e. every state a
transaction reaches, by `transact_depth_invariant` — a CALL-family action is refused with `CallTooDeep` iff the calling
frame is exactly 1024 levels below the transaction frame; frames never sit deeper -/
theorem evm_max_depth (cfg : Cfg) (stack : List JFrame) (w w' : World) (i : Interp.CallInputs)
    (mem : Memory.SharedMemory) (fr : FrameOrResult Journal.Checkpoint) (hi : LoopInv stack w)
    (h : makeCallFrame journalOps cfg w i mem = .ok (fr, w')) :
    ((∃ r, fr = .result r ∧ r.result = .CallTooDeep) ↔ stack.length - 1 = CALL_STACK_LIMIT) ∧
    stack.length - 1 ≤ CALL_STACK_LIMIT := by
  obtain ⟨h1, h2, h3⟩ := hi
  obtain ⟨x, y⟩ := makeCallFrame_depth h
  refine ⟨⟨fun ⟨r, hr, hc⟩ => ?_, fun hl => ?_⟩, by omega⟩
  · have := ((x r hr).2).1 hc; omega
  · cases fr with
    | result r => exact ⟨r, rfl, ((x r rfl).2).2 (by omega)⟩
    | frame f => exact absurd (show w.js.depth > CALL_STACK_LIMIT by omega) (y f rfl).2

/-- the same for CREATE / CREATE2 (C07 `max_depth_create`) -/
theorem evm_max_depth_create (cfg : Cfg) (stack : List JFrame) (w w' : World) (i : Interp.CreateInputs)
    (mem : Memory.SharedMemory) (fr : FrameOrResult Journal.Checkpoint) (hi : LoopInv stack w)
    (h : makeCreateFrame journalOps cfg w i mem = .ok (fr, w')) :
    ((∃ r, fr = .result r ∧ r.result = .CallTooDeep) ↔ stack.length - 1 = CALL_STACK_LIMIT) := by
  obtain ⟨h1, h2, h3⟩ := hi
  obtain ⟨x, y⟩ := makeCreateFrame_depth h
  refine ⟨fun ⟨r, hr, hc⟩ => ?_, fun hl => ?_⟩
  · have := ((x r hr).2).1 hc; omega
  · cases fr with
    | result r => exact ⟨r, rfl, ((x r rfl).2).2 (by omega)⟩
    | frame f => exact absurd (show w.js.depth > CALL_STACK_LIMIT by omega) (y f rfl).2

/-! ## 4. the `Host` as a journal history; cold / warm (C34)

C06, C08, C10 and C34 are stated on histories of journal operations (`Spec.JournalAbs.run`). The `Host` of the
whole-EVM model is linked to them operation by operation. -/

open Revm.Spec.JournalAbs Revm.Spec.AccessHistory in
/-- LINK: **every answer of `Evm.answer` (the model of `impl Host for Context`) is a journal history**: the journal
after the answer is `JournalAbs.run` of `hostOps` (at most one operation) on the journal before it, over the same
database; and for the operations that report `is_cold`, the bits handed to the interpreter (`respBits`) are `coldBits`
of the operation — the bits C34 `is_cold_iff` is about -/
theorem evm_host_is_journal_history (he : HostEnv) (w w1 : World) (op : Interp.HostOp) (resp : Interp.HostResp)
    (h : answer he w op = .ok (resp, w1)) (cps : List Journal.Checkpoint) :
    run w.db { js := w.js, cps := cps } (hostOps w op) = some { js := w1.js, cps := cps } ∧ w1.db = w.db ∧
    (∀ o, o ∈ hostOps w op → exposes o = true → coldBits w.db w.js o = some (respBits op resp)) :=
  answer_trace h cps

open Revm.Spec.JournalAbs Revm.Spec.AccessHistory Revm.Model.Journal in
/-- COROLLARY (C34 `is_cold_iff` on EvmHost): when the world's journal is the journal of an admissible well-nested
history `ops` from the start of the transaction (`lockRun`), and the operation behind a `Host` question is admissible
there (`lockStep`), the `is_cold` bits the interpreter receives are exactly those of the access-set machine of
EIP-2929 / 2930 / 3651 / 7702 — cold ⇔ not in the accessed set -/
theorem evm_host_cold_bits_are_access_sets (hasStorage : Addr → Bool) (spec : Nat) (pre : Addr → Bool)
    (he : HostEnv) (w w1 : World) (op : Interp.HostOp) (resp : Interp.HostResp)
    (hdb : DbOk w.db hasStorage) (hwf : WF w.db (JState.new spec pre))
    (ops : List Op) (l l' : Lock) (o : Op)
    (hrun : lockRun w.db hasStorage (Lock.init spec pre) ops = some l) (hw : l.r.js = w.js)
    (h : answer he w op = .ok (resp, w1)) (ho : o ∈ hostOps w op) (hx : exposes o = true)
    (hstep : lockStep w.db hasStorage l o = some l') :
    ∃ r' st', step w.db l.r o = some r' ∧ specStep w.db l.r r' l.st o = some (st', respBits op resp) := by
  obtain ⟨r', st', bits, h1, h2, h3⟩ := Props.C34.is_cold_iff w.db hasStorage spec pre hdb hwf ops l l' o hrun hstep hx
  have h4 := (answer_trace h []).2.2 o ho hx
  rw [hw, h4] at h3
  cases h3
  exact ⟨r', st', h1, h2⟩

open Revm.Spec.JournalAbs Revm.Spec.AccessHistory Revm.Model.Journal in
/-- COROLLARY (C34 `load_account_cold_iff` on BALANCE / SELFBALANCE): the `is_cold` of the answer is true exactly when
the address is not in the accessed-address set of the specification -/
theorem evm_balance_cold_iff (hasStorage : Addr → Bool) (spec : Nat) (pre : Addr → Bool)
    (he : HostEnv) (w w1 : World) (a : Nat) (resp : Interp.HostResp)
    (hdb : DbOk w.db hasStorage) (hwf : WF w.db (JState.new spec pre))
    (ops : List Op) (l : Lock)
    (hrun : lockRun w.db hasStorage (Lock.init spec pre) ops = some l) (hw : l.r.js = w.js)
    (h : answer he w (.balance a) = .ok (resp, w1)) :
    (resp.isCold = true ↔ l.st.cur.addrs a = false) := by
  have h4 := (answer_trace h []).2.2 (.load a) (by simp [hostOps]) rfl
  simp only [coldBits, respBits, Option.map_eq_some_iff] at h4
  obtain ⟨⟨js', c⟩, h5, h6⟩ := h4
  simp only [List.cons.injEq, and_true] at h6
  rw [← h6]
  rw [← hw] at h5
  exact Props.C34.load_account_cold_iff w.db hasStorage spec pre hdb hwf ops l a js' c hrun h5

open Revm.Spec.JournalAbs Revm.Spec.AccessHistory Revm.Model.Journal in
/-- COROLLARY (C34 `sload_cold_iff` on SLOAD): cold ⇔ the slot is not in the accessed-storage-key set -/
theorem evm_sload_cold_iff (hasStorage : Addr → Bool) (spec : Nat) (pre : Addr → Bool)
    (he : HostEnv) (w w1 : World) (a k : Nat) (resp : Interp.HostResp)
    (hdb : DbOk w.db hasStorage) (hwf : WF w.db (JState.new spec pre))
    (ops : List Op) (l : Lock)
    (hrun : lockRun w.db hasStorage (Lock.init spec pre) ops = some l) (hw : l.r.js = w.js)
    (h : answer he w (.sload a k) = .ok (resp, w1)) :
    (resp.isCold = true ↔ l.st.cur.slots a k = false) := by
  have h4 := (answer_trace h []).2.2 (.sload a k) (by simp [hostOps]) rfl
  simp only [coldBits, respBits, Option.map_eq_some_iff] at h4
  obtain ⟨⟨js', v, c⟩, h5, h6⟩ := h4
  simp only [List.cons.injEq, and_true] at h6
  rw [← h6]
  rw [← hw] at h5
  exact Props.C34.sload_cold_iff w.db hasStorage spec pre hdb hwf ops l a k v js' c hrun h5

/-- the hypotheses are satisfiable: the empty history at the start of a transaction on the sample world -/
example : Spec.AccessHistory.lockRun sampleWorld.db (fun _ => false) (Spec.AccessHistory.Lock.init 17 (fun _ => false)) []
    = some (Spec.AccessHistory.Lock.init 17 (fun _ => false)) ∧
    (Spec.AccessHistory.Lock.init 17 (fun _ => false)).r.js = sampleWorld.js := ⟨rfl, rfl⟩

/-! ## 5. static mode (C10)

C10 proves the static guard on its own opcode-level model (`Static.stepStatic`, tied to the code by the generated
table) and the frame theorem on journal histories. Here the guard is proved of the interpreter `Evm.runLoop` runs
(`Model.Interp`, for every machine state), and joined with the `Host` link above. -/

/-- COROLLARY / LINK (C10 `static_step_no_mutation`, `static_step_actions`, `static_inherited` on `Interp.step`): in a
static frame — any code, pc, stack, memory, gas, fork — one interpreter step asks the host no mutating question
(SSTORE, TSTORE, LOG0–4, SELFDESTRUCT end in `StateChangeDuringStaticCall` before the host is reached), hands out no
CREATE / CREATE2, and every call it hands out, directly or after the host's answer, has `is_static = true` and moves
no value between two accounts (a CALL with value ends in `CallNotAllowedInsideStatic`) -/
theorem evm_static_step_no_mutation (s : Interp.IState) (hs : s.isStatic = true) :
    StaticOutcome (Interp.step s) := step_static s hs

/-- read out: the host question of a static step is never a mutation -/
theorem evm_static_host_op_not_mutating (s : Interp.IState) (hs : s.isStatic = true) (op : Interp.HostOp)
    (k : Interp.HostResp → Interp.Done) (h : Interp.step s = .host op k) : mutating op = false := by
  have := step_static s hs
  rw [h] at this
  cases this with
  | host hop _ => exact hop

/-- read out: an action of a static step (directly, or after any host answer) is a static call without value transfer
between two accounts — never a create -/
theorem evm_static_action_is_static_call (s s' : Interp.IState) (hs : s.isStatic = true) (a : Interp.Action) :
    (Interp.step s = .pure (.action a s') → ∃ i, a = .call i ∧ StaticCall i) ∧
    (∀ op k r, Interp.step s = .host op k → k r = .action a s' → ∃ i, a = .call i ∧ StaticCall i) := by
  have hst := step_static s hs
  constructor
  · intro h
    rw [h] at hst
    cases hst with
    | pure hd => cases hd with | call hi => exact ⟨_, rfl, hi⟩
  · intro op k r h hk
    rw [h] at hst
    cases hst with
    | host _ hk' =>
      have := hk' r
      rw [hk] at this
      cases this with | call hi => exact ⟨_, rfl, hi⟩

/-- a static machine state exists; STATICCALL's child is one -/
example : (Interp.IState.init [0x55] [] 100000 true 17 0 0 0 {} Memory.new).isStatic = true := rfl

/-- COROLLARY (C10 `static_inherited`, frame side): the frame `make_call_frame` opens runs with the `is_static` of the
call inputs — a static frame's children are static -/
theorem evm_static_inherited (cfg : Cfg) (w w' : World) (i : Interp.CallInputs) (mem : Memory.SharedMemory)
    (f : JFrame) (h : makeCallFrame journalOps cfg w i mem = .ok (.frame f, w')) :
    f.interp.isStatic = i.isStatic := makeCallFrame_isStatic h

/-- COROLLARY (C10 `static_frame_state_equal` on EvmHost + Interp): every `Host` answer given to a static frame leaves
the journaled world state (accounts, storage, transient storage, logs; not warm / cold, not touch marks) equal -/
theorem evm_static_host_world_equal (he : HostEnv) (w w1 : World) (s : Interp.IState) (op : Interp.HostOp)
    (k : Interp.HostResp → Interp.Done) (resp : Interp.HostResp)
    (hs : s.isStatic = true) (hstep : Interp.step s = .host op k) (h : answer he w op = .ok (resp, w1))
    (hbal : Static.BalOk w.db w.js) : Static.WorldEq w.db w1.js w.js :=
  static_host_world_equal he w w1 s op k resp hs hstep h hbal

/-- the full frame statement on the whole-EVM model: in every state `Evm.runLoop` passes while a static frame `f` is
still open (`StepsAbove`: more than `rest.length` frames on the stack), the world state equals the world state when
`f` started to run. PROVED below (`static_frame_state_equal`). -/
def FullStatement_static_frame_state_equal : Prop :=
  ∀ (cfg : Cfg) (f : JFrame) (rest : List JFrame) (w : World) (n : Next Journal.Checkpoint),
    f.interp.isStatic = true → LoopInv (f :: rest) w → Static.BalOk w.db w.js →
    StepsAbove cfg rest.length (.run (f :: rest) w) n →
    ∀ stack' w', n = .run stack' w' → Static.WorldEq w.db w'.js w.js

/-- LINK (C10 on EvmFrame): `make_call_frame` for a call a static frame hands out (`StaticCall`: static again, value 0
or a transfer of the frame to itself) keeps C10's invariant `Proofs.Static.Inv` — world state equal to the start, only
benign journal entries above the start level, every checkpoint handed out since inside that region (`SW`); a frame it
opens is static, a call frame, and its checkpoint is one of those handed out -/
theorem evm_static_make_call_frame (db : Journal.Db) (L : Nat) (s0 : Journal.JState) (hb0 : Static.BalOk db s0)
    (cps : List Journal.Checkpoint) (cfg : Cfg) (w w' : World) (i : Interp.CallInputs) (mem : Memory.SharedMemory)
    (fr : FrameOrResult Journal.Checkpoint) (h : SW db L s0 cps w) (hsc : StaticCall i)
    (hmk : makeCallFrame journalOps cfg w i mem = .ok (fr, w')) :
    ∃ cps', SW db L s0 cps' w' ∧ (∀ c ∈ cps, c ∈ cps') ∧ ∀ f, fr = .frame f →
      f.checkpoint ∈ cps' ∧ f.interp.isStatic = true ∧ ∃ rs re, f.kind = .call rs re :=
  sw_makeCallFrame hb0 h hsc hmk

/-- LINK (C10 on EvmFrame): `call_return` of a frame opened inside the static region (commit, or revert to its
checkpoint) keeps the invariant -/
theorem evm_static_call_return (db : Journal.Db) (L : Nat) (s0 : Journal.JState) (hb0 : Static.BalOk db s0)
    (cps : List Journal.Checkpoint) (w w' : World) (cp : Journal.Checkpoint) (r r' : Interp.ChildResult)
    (h : SW db L s0 cps w) (hcp : cp ∈ cps) (hr : callReturn journalOps w cp r = .ok (r', w')) :
    SW db L s0 cps w' :=
  sw_callReturn hb0 h hcp hr

/-- COROLLARY (C10 `static_frame_state_equal` for whole-EVM runs): **the world state inside a static frame never
changes.** For every configuration, every static frame `f` on any stack, every world with 256-bit balances: in every
state `run_the_loop` passes while `f` is still open — after any number of instructions of `f` and of the frames it
calls, at any nesting, including sub-calls that revert or fail with `StateChangeDuringStaticCall` — accounts (balance,
nonce, code), storage, transient storage and logs are those `f` started on. Parts: `is_static` is kept by every handler
(`evm_step_gas_accounting`: `Kept`), a static frame only hands out `StaticCall`s and non-mutating host requests
(`evm_static_step_no_mutation`), host answers / `make_call_frame` / `call_return` keep C10's invariant -/
theorem static_frame_state_equal : FullStatement_static_frame_state_equal :=
  fun cfg f rest w n hf _ hbal t => static_frame_state_equal_evm cfg f rest w n hf hbal t

/-- non-vacuity: the static frame of the section's example with nothing below it, zero steps and one step (`SSTORE` in
static mode halts the frame: the run ends, no state above the frame is left) -/
example : StepsAbove (sampleEnv.toCfg 17) 0
    (.run [{ kind := .call 0 0, checkpoint := (Journal.checkpoint sampleWorld.js).2,
             interp := Interp.IState.init [0x55] [] 100000 true 17 0 0 0 {} Memory.new }] sampleWorld)
    (.run [{ kind := .call 0 0, checkpoint := (Journal.checkpoint sampleWorld.js).2,
             interp := Interp.IState.init [0x55] [] 100000 true 17 0 0 0 {} Memory.new }] sampleWorld) :=
  .refl _

/-! ## 6. ether conservation (C08)

C08 proves conservation for journal histories (`step_inv`: every operation of `Spec.JournalAbs` keeps the ledger
invariant `BInv`) and for the fee legs around an execution that is only assumed to conserve (`tx_conserves`, hypothesis
`hexec`). Here the execution is the whole EVM: every `World` / `Host` operation of `EvmHost`, every stage of
`make_call_frame` / `make_create_frame` / `call_return` / `create_return` and every step of `run_the_loop` is ONE
operation of `Spec.JournalAbs` on the world's journal (or leaves balances and balance entries alone), so C08's `step_inv`
applies along any `Evm.runLoop` run (`Proofs.EvmLink.Pres`, `pres_answer`, `pres_steps`); `Evm.deductCaller` and the
balance part of `Evm.finish` ARE `TxFeeLegs.deductCaller` / `postExecution` (`deductCaller_feeLegs`, `finish_feeLegs`);
C08's hypotheses `Validated` and `GasOk` follow from C02 validation and from the gas loop invariant. -/

open Revm.Spec.Ether in
/-- LINK: the debit and the two credits of the whole-EVM model are the fee legs of C08, on the world's journal -/
theorem evm_fee_legs_eq_txfeelegs (e : Evm.Env) (spec fg r7 : Nat) (isCreate : Bool) (res : Interp.ChildResult)
    (w w' w3 w4 : World) (r : TxResult) :
    (Evm.deductCaller e spec w = .ok w' →
      TxFeeLegs.deductCaller w.db w.js spec (feeEnv e) = some w'.js ∧ w'.db = w.db) ∧
    (Evm.finish e spec fg r7 isCreate res w3 = .ok (r, w4) →
      TxFeeLegs.postExecution w3.db w3.js spec (feeEnv e) true (Evm.finalGas e spec fg r7 res).remaining
        (Gas.spent (Evm.finalGas e spec fg r7 res)) (Gas.i64AsU64 (Evm.finalGas e spec fg r7 res).refunded)
        = some w4.js ∧ w4.db = w3.db) :=
  ⟨deductCaller_feeLegs, finish_feeLegs⟩

open Revm.Spec.Ether Revm.Proofs.Ether in
/-- LINK (C08 `step_inv` along the interpreter loop, no fuel in the statement): along ANY run of `run_the_loop`, if the
accounts present at the end lie in the duplicate-free list `L`, the ledger invariant of C08 — the balances over `L`
plus what the journal's self-destruct entries burnt is the base sum — is carried from the start to the end, and the
backing store's accounts are not written -/
theorem evm_loop_conserves_ether (L : List Nat) (B : Nat → Nat) (hn : L.Nodup) (hB : sumOver L B < W) (cfg : Cfg)
    (n m : Next Journal.Checkpoint) (t : Steps cfg n m) (hK : KeysIn L (nextWorld m))
    (h : BInv L B (absB (nextWorld n).db (nextWorld n).js)) :
    BInv L B (absB (nextWorld m).db (nextWorld m).js) ∧ (nextWorld m).db.basic = (nextWorld n).db.basic :=
  ⟨(pres_steps hn hB t).ei hK h, (pres_steps hn hB t).dbb⟩

open Revm.Spec.Ether Revm.Proofs.Ether in
/-- COROLLARY (C08 `tx_conserves` on `Evm.transact`): **the whole EVM conserves ether.** For every executed
transaction, from a journal without balance entries (`JB w.js = []`: the fresh journal `Evm::transact` starts on), with
every balance a 256-bit word, `L` a duplicate-free address list that contains every account present in the final
journal state, and the sum of the initial balances over `L` below 2^256 (C08's hypothesis):

  Σ_L balances(after) + (effective price − beneficiary's price) · gas_used + blob fee + burnt by self-destructs
    = Σ_L balances(before).

`burnt w'.js` is the ether that SELFDESTRUCTs naming themselves as target destroyed (C08 `burnt`); before London
`burntPerGas` is 0. `L` is any list covering the accounts present in the final journal state; `World.addrs` of the
final world is such a list (`transact_conserves_ether_addrs`). -/
theorem transact_conserves_ether (fuel : Nat) (w w' : World) (e : Evm.Env) (spec : Nat) (r : TxResult) (L : List Nat)
    (h : Evm.transact fuel w e spec = .ok (.executed r, w'))
    (hL : e.tx.gasLimit < U64) (hn : L.Nodup) (hK : KeysIn L w')
    (hok : BalOk w.db w.js) (hj : JB w.js = []) (hSum : total L w.db w.js < W) :
    total L w'.db w'.js + burntPerGas (GasCalc.canon spec) (feeEnv e) * r.gasUsed
      + dataFee (GasCalc.canon spec) (feeEnv e) + burnt w'.js = total L w.db w.js :=
  transact_conserves fuel w w' e spec r L h hL hn hK hok hj hSum

/-- LINK: **`World.addrs` covers the journal**: every `World` / `Host` operation notes the accounts it may add to the
journal's state map (each journal operation adds at most the accounts it names: `Proofs.EvmLink.Keys`), so if every
account present before `Evm.transact` is in `World.addrs`, every account present after it is -/
theorem evm_addrs_cover_journal (fuel : Nat) (w w' : World) (e : Evm.Env) (spec : Nat) (r : TxResult)
    (h : Evm.transact fuel w e spec = .ok (.executed r, w')) (hN : Noted w) : Noted w' :=
  transact_noted fuel w w' e spec r h hN

open Revm.Spec.Ether Revm.Proofs.Ether in
/-- COROLLARY: **ether conservation over the address list the model maintains** — `L` = `World.addrs` of the final
world without repetitions (`dedup`); on a world whose journal holds only noted accounts (a fresh journal holds none) -/
theorem transact_conserves_ether_addrs (fuel : Nat) (w w' : World) (e : Evm.Env) (spec : Nat) (r : TxResult)
    (h : Evm.transact fuel w e spec = .ok (.executed r, w'))
    (hL : e.tx.gasLimit < U64) (hN : Noted w)
    (hok : BalOk w.db w.js) (hj : JB w.js = []) (hSum : total (dedup w'.addrs) w.db w.js < W) :
    total (dedup w'.addrs) w'.db w'.js + burntPerGas (GasCalc.canon spec) (feeEnv e) * r.gasUsed
      + dataFee (GasCalc.canon spec) (feeEnv e) + burnt w'.js = total (dedup w'.addrs) w.db w.js :=
  transact_conserves_addrs fuel w w' e spec r h hL hN hok hj hSum

example : Noted sampleWorld := fun _ ha => absurd rfl ha

open Revm.Spec.Ether in
/-- the hypotheses on the initial world hold for the sample world (fresh journal), and the ledger equation of the
sample transfer (21000 gas at price 10 with base fee 7: 147000 wei burnt) evaluates -/
example : JB sampleWorld.js = [] := rfl

open Revm.Spec.Ether in
/-- the ledger equation on a completed run, as a check -/
def ledgerCheck (fuel : Nat) (w : World) (e : Evm.Env) (spec : Nat) (L : List Nat) (perGasBurn : Nat) : Bool :=
  match Evm.transact fuel w e spec with
  | .ok (.executed r, w') =>
    decide (total L w'.db w'.js + burntPerGas spec (feeEnv e) * r.gasUsed + dataFee spec (feeEnv e) + burnt w'.js
        = total L w.db w.js) &&
      decide (burntPerGas spec (feeEnv e) * r.gasUsed = perGasBurn)
  | _ => false

example : ledgerCheck 10 sampleWorld sampleEnv 17 [0xaa, 0xbb, 0] 147000 = true := by decide +kernel

/-- the address list of the sample run: sender, recipient, beneficiary -/
example : (match Evm.transact 10 sampleWorld sampleEnv 17 with
    | .ok (_, w') => dedup w'.addrs
    | _ => []) = [0, 0xbb, 0xaa] := by decide +kernel

/-! ## 7. termination

The fuel of `Evm.runLoop` is an artefact of the model; here it is bounded by the gas. The generic reduction is C01's
(`Proofs/EvmTerm.lean`, `runLoop_fuel`: an iteration that lowers a measure, or stops with an error other than "out of
fuel"). The measure is `2 · Σ gas remaining on the meters of the stack + number of frames`. It falls with every
iteration, in ANY state and with no invariant, because `record_cost` either fails or lowers `remaining` by exactly the
cost, and — the strict version of the gas sweep of section 2 (`Proofs/EvmLinkStrict*.lean`) — every instruction that
lets its frame continue records a cost of at least 1 (static costs, and the dynamic ones: `Proofs/EvmLinkCostPos.lean`),
every action pays the child's gas limit and at least 1 more, and a returning frame hands back at most what it has
left. Nothing but the loop itself answers "out of fuel" (`Proofs/EvmLinkNoFuel.lean`). -/

/-- LINK (C25 `gas_decreases`, for every frame of the whole EVM and without the invariant of C25): one interpreter step
in ANY state — an instruction after which the frame continues leaves at least one unit of gas less on the meter; an
action (CALL family, CREATE, EOFCREATE, EXT*CALL) has paid the child's gas limit and one more -/
theorem evm_step_gas_strict (s : Interp.IState) : SOutcome s (Interp.step s) := step_strict s

/-- LINK: every iteration of `run_the_loop` lowers `2 · Σ gas remaining + number of frames` -/
theorem evm_iterate_measure (cfg : Cfg) (stack : List JFrame) (w : World) (n : Next Journal.Checkpoint)
    (h : iterate journalOps cfg stack w = .ok n) : mu n < mu (.run stack w) := iterate_mu h

/-- COROLLARY: **`run_the_loop` terminates** — for every stack of frames in any state, with more fuel than
`2 · Σ gas remaining + number of frames` the loop does not run out of fuel -/
theorem evm_runLoop_terminates (cfg : Cfg) (fuel : Nat) (stack : List JFrame) (w : World)
    (h : 2 * gsum stack + stack.length < fuel) : runLoop journalOps cfg fuel stack w ≠ .error .outOfFuel :=
  runLoop_terminates cfg fuel stack w h

/-- COROLLARY (the termination part of C01 `FullStatement_transact_total`, with the fuel bound stated there):
**`Evm.transact` terminates.** For EVERY world, environment, fork — no hypothesis, not even `gas_limit < 2^64` —
`2 · gas_limit + 2` units of fuel suffice: the answer is never "out of fuel". (It is a result, or one of the model-level
errors — panic, fatal database error, missing oracle answer — none of which depends on the fuel; that those do not
occur on a well-formed world is the other part of `FullStatement_transact_total` and is not claimed here.) -/
theorem transact_terminates :
    ∃ bound : Nat → Nat, (∀ g, bound g = 2 * g + 2) ∧
      ∀ (fuel : Nat) (w : World) (e : Evm.Env) (spec : Nat), bound e.tx.gasLimit ≤ fuel →
        Evm.transact fuel w e spec ≠ .error .outOfFuel :=
  ⟨fun g => 2 * g + 2, fun _ => rfl, fun fuel w e spec hf => transact_terminates' fuel w e spec hf⟩

/-- the fuel bound is reached by no run of the sample transaction, and the strict step on the sample frame -/
example : 2 * sampleEnv.tx.gasLimit + 2 = 42002 := rfl
example : ∃ r w', Evm.transact 42002 sampleWorld sampleEnv 17 = .ok (.executed r, w') :=
  exists_of_isExecuted (by decide +kernel)

/-! ## 8. panic-freedom of the journal and frame machine (C07 `*_total` on EvmHost / EvmFrame / EvmLoop / EvmTx)

`WOk w` = C07's `Good` journal (entries refer to present accounts / slots, at least the transaction level, cached
balances are words) and 256-bit balances in the database. Failures are classified: `Soft` — not Rust panics of the
journal / frame / interpreter code: the code store does not know a hash (`code_by_hash`: a database miss), an executable
precompile panics (C23: MODEXP on a huge length and gas limit does, so unconditional panic-freedom is FALSE), a missing
oracle answer, a fatal database error; `Resid` — NOT excluded here: interpreter faults (`interpreter: …`,
`insert outcome: …`, `free_context`, an EOFCREATE action), and the fuel. No frame ends with an internal result flag
(`RGood`: the strict gas sweep also carries the `InstructionResult` of every halt), so `output` never panics. `sload` / `sstore` /
`selfdestruct` on a vacant account cannot happen: the request carries the frame's own address, which is loaded. The two environment panics (`already checked`, `initcode_cost`) are
impossible for EVERY environment (`tv_validateEnv_ne_panic`, `initialTxGas_ne_none`). Everything else —
every `unwrap` of the journal and of the frame machine: `load_account`, `load_code`, `load_account_delegated`, `touch`,
`transfer`, `checkpoint_revert`, `inc_nonce`, `create_account_checkpoint`, `set_code`, `tstore`, `account not loaded`,
`code not cached`, `empty call stack`, `already checked`, `initcode_cost`, `sload`, `sstore`, `selfdestruct`,
`unexpected internal return flag` — is proved impossible. -/

open Revm.Proofs.Frame (Good DbBal) in
/-- LINK (C07 `hostStep_total` on EvmHost): every `Host` answer on a well-formed world, with the account whose storage is
accessed loaded, is a value on a well-formed world with the same number of journal levels — or a soft failure -/
theorem evm_host_total (w : World) (h : WOk w) (he : HostEnv) (op : Interp.HostOp) (hok : HOk w.js op) :
    Tot (answer he w op) (fun r => WS w r.2) := tot_answer h he op hok

/-- LINK (C07 `makeCallFrame_total`, `makeCreateFrame_total`, `callReturn_total`, `createReturn_total` on EvmFrame):
the frame functions are total on a well-formed world; the checkpoint of a frame they open lies strictly inside the
journal; a return needs the frame's checkpoint inside the journal (and the created account loaded) -/
theorem evm_frame_functions_total (w : World) (h : WOk w) (cfg : Cfg) (mem : Memory.SharedMemory) :
    (∀ i : Interp.CallInputs, Tot (makeCallFrame journalOps cfg w i mem) (fun r => FOut w r.2 r.1)) ∧
    (∀ i : Interp.CreateInputs, Tot (makeCreateFrame journalOps cfg w i mem) (fun r => FOut w r.2 r.1)) ∧
    (∀ (cp : Journal.Checkpoint) (r : Interp.ChildResult), 1 ≤ cp.journalI → cp.journalI < w.js.journal.length →
      Tot (callReturn journalOps w cp r) (fun p => WOk p.2)) ∧
    (∀ (cp : Journal.Checkpoint) (a : Nat) (r : Interp.ChildResult), 1 ≤ cp.journalI →
      cp.journalI < w.js.journal.length → (w.js.state a).isSome →
      Tot (createReturn journalOps cfg w cp a r) (fun p => WOk p.2)) :=
  ⟨fun i => tot_mono (tot_makeCallFrame h cfg i mem) (fun _ hr => hr.1),
   fun i => tot_mono (tot_makeCreateFrame h cfg i mem) (fun _ hr => hr.1),
   fun cp r h1 h2 => tot_mono (tot_callReturn h cp r h1 h2) (fun _ hr => hr.1),
   fun cp a r h1 h2 h3 => tot_mono (tot_createReturn h cfg cp a r h1 h2 h3) (fun _ hr => hr.1)⟩

/-- LINK (C07 `run_total` on EvmLoop): from a stack whose checkpoints are nested inside the journal of a well-formed
world (`LI`) and whose targets are loaded (L3 `EvmInstLoaded.Inv`), `run_the_loop` — for every fuel — ends in a result on a well-formed world, a soft failure or a residual
failure -/
theorem evm_runLoop_total (cfg : Cfg) (fuel : Nat) (stack : List JFrame) (w : World) (hne : stack ≠ [])
    (h : LI stack w) (hi : Revm.Proofs.EvmInstLoaded.Inv stack w) :
    Tot2 (runLoop journalOps cfg fuel stack w) (fun p => WOk p.2 ∧ RGood p.1.result) :=
  (tot2_runLoop cfg fuel).1 stack w hne h hi

/-- LINK: the `HostOp` an interpreter step emits for SLOAD / SSTORE / SELFDESTRUCT carries the frame's own address
(with L3's loop invariant `EvmInstLoaded.Inv` — every open frame's target is in the journal — the three journal
operations never meet a vacant account) -/
theorem evm_storage_requests_own_address (s : Interp.IState) (op : Interp.HostOp) (k : Interp.HostResp → Interp.Done)
    (h : Interp.step s = .host op k) : OpT s.target op := step_addr s h

/-- COROLLARY (`transact_total`, the part that is proved): on a well-formed world, for every environment and fork,
with `2 · gas_limit + 2` units of fuel or more, `Evm.transact` returns a result (rejected or executed) on a well-formed
world — or fails softly (`Soft`), or with a residual failure (`Resid`) that is not "out of fuel" -/
theorem transact_total_partial (fuel : Nat) (w : World) (e : Evm.Env) (spec : Nat) (h : WOk w)
    (hf : 2 * e.tx.gasLimit + 2 ≤ fuel) :
    (∃ o w', Evm.transact fuel w e spec = .ok (o, w') ∧ WOk w') ∨
    (∃ err, Evm.transact fuel w e spec = .error err ∧ (Soft err ∨ Resid err) ∧ err ≠ .outOfFuel) := by
  have h1 := transact_tot2 fuel w e spec h
  have h2 := transact_terminates' fuel w e spec hf
  cases hx : Evm.transact fuel w e spec with
  | ok p => rw [hx] at h1; exact Or.inl ⟨p.1, p.2, rfl, h1⟩
  | error err =>
    rw [hx] at h1
    exact Or.inr ⟨err, rfl, h1, fun he => h2 (by rw [hx, he])⟩

/-- in particular: a panic `Evm.transact` returns on a well-formed world carries one of the residual messages (or is
the code-store miss / the precompile panic) — never a journal or frame-machine `unwrap` -/
theorem transact_no_journal_panic (fuel : Nat) (w : World) (e : Evm.Env) (spec : Nat) (h : WOk w) (m : String)
    (hx : Evm.transact fuel w e spec = .error (.panic m)) :
    Soft (.panic m) ∨ Resid (.panic m) := by
  have h1 := transact_tot2 fuel w e spec h
  rw [hx] at h1
  exact h1

/-- the full statement this section works towards: no residual panic either, i.e. outcomes are only results and soft
failures. NOT proved: what is missing is (1) C25's per-frame invariant (`init_inv` for the frames `makeFrame` creates —
code and input within `isize::MAX`, fresh memory context below 2^62 — `step_good` with `RespOk` for every `Host` answer
and `ChildOk` for every delivered result, `insert_*_outcome` on the memory the child gives back), which removes
`interpreter: …`, `insert outcome: …`, `free_context` and the EOFCREATE action (the internal result flags are
excluded: `RGood`). Items (2)
(storage requests only for the frame's own loaded address) and (3) (environment) of the earlier list are closed. -/
def FullStatement_transact_total_link : Prop :=
  ∀ (fuel : Nat) (w : World) (e : Evm.Env) (spec : Nat), WOk w → 2 * e.tx.gasLimit + 2 ≤ fuel →
    (∃ r, Evm.transact fuel w e spec = .ok r) ∨ (∃ err, Evm.transact fuel w e spec = .error err ∧ Soft err)

/-- COROLLARY, in the shape of C01 `FullStatement_transact_total`: on the fresh world of a pre-state with 256-bit
balances, with the fuel bound stated there, the answer is a result, or an error that is soft (code-store miss,
precompile panic, oracle miss, fatal) or one of the four residual interpreter-side panics — and never "out of fuel".
What separates this from `FullStatement_transact_total`: its `.error _ => False` for panics needs the five residual
messages excluded (C25's invariant through the loop; the EOFCREATE action is an artefact of the legacy-only model) and cannot hold for the precompile panic (C23) nor, without a
consistent code store, for `code_by_hash`. -/
theorem transact_total_fresh_partial (spec : Nat) (pre : List PreAcct) (dbHasStorage : Bool)
    (oracle : List PcAnswer) (e : Evm.Env) (hbal : ∀ p ∈ pre, p.balance < W) :
    match Evm.transact (2 * e.tx.gasLimit + 2) (Spec.Evm.freshWorld spec pre dbHasStorage oracle) e spec with
    | .ok _ => True
    | .error err => (Soft err ∨ Resid err) ∧ err ≠ .outOfFuel := by
  have hw : WOk (Spec.Evm.freshWorld spec pre dbHasStorage oracle) :=
    wok_fresh _ (GasCalc.canon spec) (fun _ => false) rfl hbal
  rcases transact_total_partial (2 * e.tx.gasLimit + 2) _ e spec hw (Nat.le_refl _) with ⟨o, w', h, _⟩ | ⟨err, h, h1, h2⟩
  · rw [h]; trivial
  · rw [h]; exact ⟨h1, h2⟩

/-! ### ingredients for the residual interpreter-side panics (C25's per-frame invariant), proved but not yet threaded

`init_inv` for the states `makeFrame` creates and `RespOk` for the answers of EvmHost. Still to do: the code-store size
invariant along the run, the bound on the shared memory (2^62) per depth, `ChildOk` (output length) for delivered
results and the memory-context facts of `insert_*_outcome` through `runLoop`. -/

/-- LINK (C25 `init_inv` without its `Bytes` hypothesis): the initial interpreter state on ANY code satisfies C25's
invariant — the jump analysis marks a position only where the opcode is JUMPDEST, so never in the padding -/
theorem evm_init_inv_any_code (code input : List Nat) (gasLimit : Nat) (isStatic : Bool)
    (spec target caller callValue : Nat) (env : Interp.Env) (mem : Memory.SharedMemory)
    (hcl : code.length ≤ Memory.ISIZE_MAX) (hil : input.length ≤ Memory.ISIZE_MAX) (hgas : gasLimit < U64)
    (henv : Revm.Proofs.Interp.EnvOk spec env) (hmem : Revm.Proofs.Interp.FreshMem mem) :
    Revm.Proofs.Interp.Inv (Interp.IState.init code input gasLimit isStatic spec target caller callValue env mem) :=
  (init_inv' code input gasLimit isStatic spec target caller callValue env mem hcl hil hgas henv hmem).1

/-- LINK: the frame `make_create_frame` opens satisfies C25's invariant, with measure = its gas limit -/
theorem evm_create_frame_init_inv (cfg : Cfg) (w w' : World) (i : Interp.CreateInputs) (mem : Memory.SharedMemory)
    (f : Frame Journal.Checkpoint) (h : makeCreateFrame journalOps cfg w i mem = .ok (.frame f, w'))
    (hcl : i.initCode.length ≤ Memory.ISIZE_MAX) (hg : i.gasLimit < U64)
    (henv : Revm.Proofs.Interp.EnvOk cfg.spec cfg.env) (hm : Revm.Proofs.Memory.WF mem)
    (hl : mem.buffer.length ≤ 2^62) :
    Revm.Proofs.Interp.Inv f.interp ∧ Revm.Proofs.Interp.measure f.interp = i.gasLimit :=
  makeCreateFrame_init_inv h hcl hg henv hm hl

/-- LINK (C25 `RespOk` for EvmHost): with a code store whose entries are at most `isize::MAX` bytes, every `Host`
answer is acceptable to the interpreter -/
theorem evm_host_respOk (he : HostEnv) (w w1 : World) (op : Interp.HostOp) (resp : Interp.HostResp)
    (h : answer he w op = .ok (resp, w1))
    (hc : ∀ (wx : World) (hh : Nat) (bytes : List Nat), wx.codes = w.codes → wx.codeOf hh = some bytes →
      bytes.length ≤ Memory.ISIZE_MAX) : Revm.Proofs.Interp.RespOk resp :=
  answer_respOk h hc (fun _ _ _ hl => w_loadCode_codes hl)

/-- non-vacuity: the sample world is well formed -/
example : WOk sampleWorld := wok_fresh sampleWorld 17 (fun _ => false) rfl (by
  intro p hp
  simp only [sampleWorld, List.mem_singleton] at hp
  subst hp
  show (10 : Nat)^18 < W
  rw [W_val]; decide)

/-! ### C25's per-frame invariant through `run_the_loop`: the interpreter-side panics are excluded

`Proofs/EvmLinkInterp*.lean`: the loop invariant `LI` is extended by `SI` — every frame on the stack satisfies C25's
`Inv`; a frame's memory is a context opened on top of the memory its parent had when it handed out the action, and the
return window of a waiting CALL lies in the parent's memory; the checkpoint of the frame at height `k` is at most
`k · 2^43` (the memory cost of a frame is not saturated — the measures of all frames add up to at most `u64::MAX - 1`,
since an action hands the child gas the parent paid for — so its context is at most 2^43 bytes, and there are at most
1025 frames: the shared buffer stays below 2^62); every code in the store and every recorded precompile output is a
Rust `Bytes` (at most `isize::MAX` bytes). With it no `Interp.step` faults (C25 `execInstr_good`), `insert_*_outcome`
never faults (C25 `insertCall_sat` / `insertCreate_sat`, on the memory `free_context` gives back: C11's
`insertCallOutcome_mem`), `free_context` never fails. -/

/-- the residual class that remains inside the loop: the fuel. Legacy code never hands out the EOFCREATE action
(EOFCREATE stops at its `require_eof!`: `oa_eofcreateI`), so the EOFCREATE panic of the legacy-only model is gone too. -/
theorem resid3_iff (e : Err) : Resid3 e ↔ e = .outOfFuel := Iff.rfl

/-- **`transact_total` on typed inputs** (= `FullStatement_transact_total_link` restricted to Rust values): on a
well-formed world between two transactions whose code store and precompile oracle hold Rust `Bytes` (`WTyped`), for
an environment whose calldata is a `Bytes` and whose gas limit is a `u64` below `u64::MAX` (`ETyped`), for every fork,
with `2 · gas_limit + 2` units of fuel or more, `Evm.transact` returns a result on a well-formed world, or fails softly
(`Soft`: code-store miss, precompile panic, oracle miss, fatal database error — none of them a panic of the journal,
the frame machine or the interpreter). NEVER `interpreter: …`, `insert outcome: …`, `free_context`, the EOFCREATE
action, nor "out of fuel": the whole residual class `Resid` of `transact_total_partial` is excluded. -/
theorem transact_total_partial' (fuel : Nat) (w : World) (e : Evm.Env)
    (spec : Nat) (h : WOk w) (hw : WTyped w) (he : ETyped e) (hf : 2 * e.tx.gasLimit + 2 ≤ fuel) :
    (∃ o w', Evm.transact fuel w e spec = .ok (o, w') ∧ WOk w') ∨
    (∃ err, Evm.transact fuel w e spec = .error err ∧ Soft err) := by
  have h1 := transact_tot3 pcOut outB inB fuel w e spec h hw he
  have h2 := transact_terminates' fuel w e spec hf
  cases hx : Evm.transact fuel w e spec with
  | ok p => rw [hx] at h1; exact Or.inl ⟨p.1, p.2, rfl, h1⟩
  | error err =>
    rw [hx] at h1
    refine Or.inr ⟨err, rfl, ?_⟩
    rcases h1 with h1 | h1
    · exact h1
    · exact absurd (by rw [hx, h1]) h2

/-- the hypotheses `WTyped` / `ETyped` say that the inputs are Rust values; what `FullStatement_transact_total_link`
(no such hypothesis) would need on top: nothing for a `World` / `Env` that comes from the Rust types (`Bytes` is at
most `isize::MAX` long, `gas_limit : u64`), except the single value `gas_limit = u64::MAX`, which the invariant
"measure ≤ u64::MAX - 1" of the loop excludes (C25's `Inv` allows it only with an empty stack). -/
theorem transact_total_typed (fuel : Nat) (w : World) (e : Evm.Env) (spec : Nat) (h : WOk w) (hw : WTyped w)
    (he : ETyped e) (hf : 2 * e.tx.gasLimit + 2 ≤ fuel) :
    (∃ r, Evm.transact fuel w e spec = .ok r) ∨ (∃ err, Evm.transact fuel w e spec = .error err ∧ Soft err) := by
  rcases transact_total_partial' fuel w e spec h hw he hf with ⟨o, w', hx, _⟩ | hx
  · exact Or.inl ⟨_, hx⟩
  · exact Or.inr hx

/-- the fresh world of a pre-state whose codes and recorded precompile outputs are Rust `Bytes` is typed -/
theorem wtyped_fresh (spec : Nat) (pre : List PreAcct) (dbHasStorage : Bool) (oracle : List PcAnswer)
    (hcode : ∀ p ∈ pre, p.code.length ≤ Memory.ISIZE_MAX) (hpc : ∀ a ∈ oracle, a.out.length ≤ Memory.ISIZE_MAX) :
    WTyped (Spec.Evm.freshWorld spec pre dbHasStorage oracle) := by
  refine ⟨⟨fun q hq => ?_, hpc⟩, rfl⟩
  obtain ⟨p, hp, hq⟩ := List.mem_filterMap.mp hq
  split at hq
  · cases hq
  · cases hq; exact hcode p hp

/-- COROLLARY, in the shape of C01 `FullStatement_transact_total`: on the fresh world of a pre-state made of Rust values
(256-bit balances, codes and recorded precompile outputs `Bytes`), for a transaction made of Rust values (calldata a
`Bytes`, `gas_limit < u64::MAX`), with the fuel bound stated there, the answer is a result or a SOFT error (code-store
miss, precompile panic, oracle miss, fatal database error) — never a panic of the journal, the frame machine or the
interpreter, never "out of fuel". What still separates this from `FullStatement_transact_total`: the precompile panic
(C23: MODEXP on a huge length does panic) and `code_by_hash` on an inconsistent code store, which are true of the code. -/
theorem transact_total_fresh' (spec : Nat) (pre : List PreAcct) (dbHasStorage : Bool)
    (oracle : List PcAnswer) (e : Evm.Env) (hbal : ∀ p ∈ pre, p.balance < W)
    (hcode : ∀ p ∈ pre, p.code.length ≤ Memory.ISIZE_MAX) (hpc : ∀ a ∈ oracle, a.out.length ≤ Memory.ISIZE_MAX)
    (he : ETyped e) :
    match Evm.transact (2 * e.tx.gasLimit + 2) (Spec.Evm.freshWorld spec pre dbHasStorage oracle) e spec with
    | .ok _ => True
    | .error err => Soft err := by
  have hw : WOk (Spec.Evm.freshWorld spec pre dbHasStorage oracle) :=
    wok_fresh _ (GasCalc.canon spec) (fun _ => false) rfl hbal
  rcases transact_total_partial' (2 * e.tx.gasLimit + 2) _ e spec hw
    (wtyped_fresh spec pre dbHasStorage oracle hcode hpc) he (Nat.le_refl _) with ⟨o, w', h, _⟩ | ⟨err, h, h1⟩
  · rw [h]; trivial
  · rw [h]; exact h1

/-- non-vacuity: the sample world and environment are typed -/
example : WTyped sampleWorld where
  store := by
    constructor
    · intro p hp; cases hp
    · intro p hp; cases hp
  depth := rfl
example : ETyped sampleEnv := ⟨Nat.zero_le _, by show 21000 ≤ U64 - 2; rw [U64_val]; decide⟩

end Revm.Props.C01Link
