import Revm.Proofs.Bytecode
/-! C27 — stored bytecode keeps its original bytes and hash.

`Model.Bytecode` follows `bytecode.rs`, `bytecode/legacy.rs`, `eip7702/bytecode.rs` and
`analysis.rs::to_analysed`. Every theorem holds for an **arbitrary** EOF decoder `dec` (the codec is
property C26; of `Eof::decode` only `Ok(Self { header, body, raw })` is used) and an **arbitrary**
`keccak` (keccak256 is trusted; the correspondence stream compares `hash_slow()` with alloy's
keccak256 of the input bytes). Bytes are `List Nat`; addresses are lists of length 20. -/
namespace Revm.Props.C27
open Revm.Model.Bytecode Revm.Proofs.Bytecode

variable {ε : Type}

/-! ## constructors report exactly the bytes they were built from -/

/-- `new_raw_checked(bs) = Ok(bc)` ⇒ `bc.original_bytes() = bs` — legacy, EF00 and EF01 prefixes -/
theorem original_bytes_eq (dec : List Nat → Except EofErr ε) (bs : List Nat) (bc : Bytecode ε)
    (h : Bytecode.newRawChecked dec bs = .ok bc) : bc.originalBytes = .ok bs :=
  newRawChecked_original dec bs bc h

example : Bytecode.newRawChecked (fun _ => (.ok () : Except EofErr Unit)) [0xef, 0x00, 0x01, 0x07]
    = .ok (.eof ⟨(), [0xef, 0x00, 0x01, 0x07]⟩) := rfl
example : ∃ bc, Bytecode.newRawChecked (fun _ => (.error "MissingInput" : Except EofErr Unit)) [0x60, 0x00, 0x5b]
    = .ok bc := ⟨_, rfl⟩

/-- `new_raw(bs)` returns the same value as `new_raw_checked` and panics exactly when that is an error -/
theorem new_raw_eq (dec : List Nat → Except EofErr ε) (bs : List Nat) :
    Bytecode.newRaw dec bs =
      (match Bytecode.newRawChecked dec bs with | .ok b => .ok b | .error _ => .panic) :=
  newRaw_eq dec bs

theorem original_bytes_eq_new_raw (dec : List Nat → Except EofErr ε) (bs : List Nat) (bc : Bytecode ε)
    (h : Bytecode.newRaw dec bs = .ok bc) : bc.originalBytes = .ok bs := by
  unfold Bytecode.newRaw at h
  cases hc : Bytecode.newRawChecked dec bs with
  | error e => simp [hc] at h
  | ok b => simp only [hc, Res.ok.injEq] at h; subst h; exact newRawChecked_original dec bs b hc

example : ∃ bc, Bytecode.newRaw (fun _ => (.ok () : Except EofErr Unit)) [0x00] = .ok bc := ⟨_, rfl⟩

/-- `new_legacy(bs).original_bytes() = bs` whatever the prefix -/
theorem original_bytes_eq_legacy (bs : List Nat) :
    (Bytecode.newLegacy bs : Bytecode ε).originalBytes = .ok bs := rfl

/-- which variant `new_raw_checked` builds, and every error it can return: the first two bytes
`ef00` select the EOF decoder, `ef01` the EIP-7702 decoder, anything else (also fewer than two bytes)
is raw legacy code and never fails -/
theorem classification (dec : List Nat → Except EofErr ε) (bs : List Nat) :
    Bytecode.newRawChecked dec bs =
      if bs.take 2 = [0xef, 0x00] then
        (match dec bs with
         | .ok p => .ok (.eof ⟨p, bs⟩)
         | .error e => .error (.eof e))
      else if bs.take 2 = [0xef, 0x01] then
        (match Eip7702Bytecode.newRaw bs with
         | .ok e => .ok (.eip7702 e)
         | .error e => .error (.eip7702 e))
      else .ok (.legacyRaw bs) :=
  newRawChecked_kind dec bs

/-! ## length, emptiness, hash -/

/-- `len()` is the number of bytes given, `is_empty()` says whether there were none -/
theorem len_eq (dec : List Nat → Except EofErr ε) (bs : List Nat) (bc : Bytecode ε)
    (h : Bytecode.newRawChecked dec bs = .ok bc) :
    bc.len = .ok bs.length ∧ bc.isEmpty = .ok (bs.length == 0) :=
  len_of_original bc bs (newRawChecked_original dec bs bc h)

/-- `hash_slow()` is keccak256 of the bytes given, or `KECCAK_EMPTY` when there were none -/
theorem hash_eq (keccak : List Nat → Nat) (dec : List Nat → Except EofErr ε) (bs : List Nat) (bc : Bytecode ε)
    (h : Bytecode.newRawChecked dec bs = .ok bc) :
    bc.hashSlow keccak = .ok (if bs = [] then KECCAK_EMPTY else keccak bs) :=
  hash_of_original keccak bc bs (newRawChecked_original dec bs bc h)

example : Bytecode.newRawChecked (fun _ => (.ok () : Except EofErr Unit)) [] = .ok (.legacyRaw []) := rfl

/-- the same for any bytecode value whose `original_bytes()` is `bs` (e.g. after analysis) -/
theorem len_hash_of_original (keccak : List Nat → Nat) (bc : Bytecode ε) (bs : List Nat)
    (h : bc.originalBytes = .ok bs) :
    bc.len = .ok bs.length ∧ bc.isEmpty = .ok (bs.length == 0) ∧
    bc.hashSlow keccak = .ok (if bs = [] then KECCAK_EMPTY else keccak bs) :=
  ⟨(len_of_original bc bs h).1, (len_of_original bc bs h).2, hash_of_original keccak bc bs h⟩

example : (Bytecode.newLegacy [1, 2] : Bytecode Unit).originalBytes = .ok [1, 2] := rfl

/-- `Bytecode::new()` (default): no original bytes, length 0, empty-code hash, one STOP byte to run -/
theorem default_bytecode (keccak : List Nat → Nat) :
    (Bytecode.new : Bytecode ε).originalBytes = .ok [] ∧ (Bytecode.new : Bytecode ε).len = .ok 0 ∧
    (Bytecode.new : Bytecode ε).hashSlow keccak = .ok KECCAK_EMPTY ∧
    (Bytecode.new : Bytecode ε).bytes = .ok [0] :=
  ⟨rfl, rfl, rfl, rfl⟩

/-! ## jump analysis never changes the original bytes -/

/-- for **every** bytecode value (raw, already analysed, EOF, 7702): `to_analysed` leaves
`original_bytes()`, `len()`, `is_empty()` and `hash_slow()` unchanged -/
theorem analysis_preserves_original (keccak : List Nat → Nat) (bc : Bytecode ε) :
    (toAnalysed bc).originalBytes = bc.originalBytes ∧ (toAnalysed bc).len = bc.len ∧
    (toAnalysed bc).isEmpty = bc.isEmpty ∧ (toAnalysed bc).hashSlow keccak = bc.hashSlow keccak := by
  have h := toAnalysed_original bc
  simp only [Bytecode.len, Bytecode.isEmpty, Bytecode.hashSlow, h, and_self]

/-- analysing raw legacy code: the executed bytes are the original bytes followed by exactly 33 zero
bytes, `original_bytes()` strips them again, the jump table has one bit per padded byte, and the
result is execution-ready -/
theorem analysis_padding (bs : List Nat) :
    (toAnalysed (Bytecode.newLegacy bs : Bytecode ε)).bytes = .ok (bs ++ List.replicate 33 0) ∧
    (toAnalysed (Bytecode.newLegacy bs : Bytecode ε)).originalBytes = .ok bs ∧
    ((toAnalysed (Bytecode.newLegacy bs : Bytecode ε)).legacyJumpTable.map List.length) = some (bs.length + 33) ∧
    (toAnalysed (Bytecode.newLegacy bs : Bytecode ε)).isExecutionReady = true := by
  refine ⟨rfl, toAnalysed_original _, ?_, rfl⟩
  simp [toAnalysed, Bytecode.newLegacy, Bytecode.legacyJumpTable, analyze_length]

/-- analysing twice is analysing once -/
theorem analysis_idempotent (bc : Bytecode ε) : toAnalysed (toAnalysed bc) = toAnalysed bc :=
  toAnalysed_idem bc

/-- a hand-built `LegacyAnalyzedBytecode::new(bytes, original_len, _)` (public constructor, not built
from code bytes) reports the first `original_len` bytes, and its accessors panic iff `original_len`
exceeds the stored length -/
theorem analyzed_accessor_panics_iff (a : LegacyAnalyzed) :
    (a.originalBytes = .panic ↔ a.bytecode.length < a.originalLen) ∧
    (a.originalLen ≤ a.bytecode.length → a.originalBytes = .ok (a.bytecode.take a.originalLen)) := by
  unfold LegacyAnalyzed.originalBytes
  by_cases h : a.originalLen ≤ a.bytecode.length
  · simp [h]
  · simp [h]; omega

/-! ## EIP-7702 delegation designator -/

/-- for every 20-byte address: `new(a)` is the 23 bytes `ef 01 00 ‖ a`, decodes back to the same
value, and reports `a` -/
theorem eip7702_roundtrip (a : List Nat) (ha : a.length = 20) :
    (Eip7702Bytecode.new a).raw.length = 23 ∧
    (Eip7702Bytecode.new a).raw = 0xef :: 0x01 :: 0x00 :: a ∧
    Eip7702Bytecode.newRaw (Eip7702Bytecode.new a).raw = .ok (Eip7702Bytecode.new a) ∧
    (Eip7702Bytecode.new a).address = a :=
  ⟨new_raw_len a ha, new_raw_bytes a, newRaw_new a ha, rfl⟩

example : (List.replicate 20 0xaa).length = 20 := rfl

/-- every designator that decodes re-encodes to the same 23 bytes: `new(decode(raw).address) = decode(raw)`
and its raw bytes are `raw` -/
theorem eip7702_decode_reencode (raw : List Nat) (e : Eip7702Bytecode)
    (h : Eip7702Bytecode.newRaw raw = .ok e) :
    raw.length = 23 ∧ e.raw = raw ∧ e.address.length = 20 ∧ e.version = 0 ∧
    Eip7702Bytecode.new e.address = e ∧ (Eip7702Bytecode.new e.address).raw = raw := by
  obtain ⟨h1, h2, h3, h4, _⟩ := newRaw_ok raw e h
  have h5 := new_of_newRaw raw e h
  exact ⟨h1, h2, h4, h3, h5, by rw [h5]; exact h2⟩

example : Eip7702Bytecode.newRaw (0xef :: 0x01 :: 0x00 :: List.replicate 20 0x11)
    = .ok ⟨List.replicate 20 0x11, 0, 0xef :: 0x01 :: 0x00 :: List.replicate 20 0x11⟩ := rfl

/-- the three errors of `Eip7702Bytecode::new_raw`, exactly and in the order of the code -/
theorem eip7702_errors (raw : List Nat) :
    (Eip7702Bytecode.newRaw raw = .error .InvalidLength ↔ raw.length ≠ 23) ∧
    (Eip7702Bytecode.newRaw raw = .error .InvalidMagic ↔ raw.length = 23 ∧ raw.take 2 ≠ [0xef, 0x01]) ∧
    (Eip7702Bytecode.newRaw raw = .error .UnsupportedVersion ↔
      raw.length = 23 ∧ raw.take 2 = [0xef, 0x01] ∧ raw[2]? ≠ some 0) :=
  ⟨newRaw_err_length raw, newRaw_err_magic raw, newRaw_err_version raw⟩

/-- through `Bytecode`: the designator of a 20-byte address is classified as EIP-7702 and is the
value `new_eip7702(a)`; its original bytes are the 23 bytes -/
theorem eip7702_via_bytecode (dec : List Nat → Except EofErr ε) (a : List Nat) (ha : a.length = 20) :
    Bytecode.newRawChecked dec (Eip7702Bytecode.new a).raw = .ok (Bytecode.newEip7702 a) ∧
    (Bytecode.newEip7702 a : Bytecode ε).originalBytes = .ok (0xef :: 0x01 :: 0x00 :: a) := by
  refine ⟨?_, by rw [← new_raw_bytes]; rfl⟩
  rw [newRawChecked_kind, newRaw_new a ha, new_raw_bytes]
  simp [Bytecode.newEip7702]

end Revm.Props.C27
