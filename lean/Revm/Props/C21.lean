import Revm.Proofs.Collision
import Revm.Props.C20
/-! C21 — contract creation collides with any address that already has code, a nonce or storage.

`Model.Collision.makeCreateFrame` is the code path shared by create transactions, CREATE, CREATE2
and EOF creation once the address is known: `db.has_storage(address)` on the EVM's database (any
stack of the wrappers of C20), then `create_account_checkpoint`. `gasLost = some gasLimit` says the
whole gas passed to the creation is consumed; `target = t` says nothing changed at the target
(no `created` / `touched` mark, same balance and nonce).

Result. Code or nonce: collision for every database (full). Storage: collision whenever the
database answers `has_storage` faithfully (`HsFaithful`) — true of the underlying database itself
and of the forwarding wrappers, FALSE of `CacheDB`, `State`, `DatabaseComponents` (C20, situation
1), for which creation proceeds over existing storage (`…_counterexample`, witnessed on real create
transactions, CREATE and CREATE2 by the correspondence stream). EOF creation is covered by the
model (same function) but not exercised by the harness.

Warmth. `make_create_frame` drops the `is_cold` of `load_account` and asks `db.has_storage`
unconditionally; `makeCreateFrameJ` / `makeCreateFrameW` model the step on the journal's entry for
the target (absent; pre-loaded by the access list with or without storage keys; loaded by BALANCE /
EXTCODESIZE; loaded and touched by a CALL; left warm by an earlier failed CREATE2 with the same
salt; left cold by a reverted sub-call). `collision_independent_of_warmth`: result and gas lost are
the same for every way of becoming warm, `collision_reads_only_info_and_has_storage`: the entry's
`cold` flag, its loaded slots and `warm_preloaded_addresses` are never read. Nor is the account's
`LoadedAsNotExisting` flag (`collision_independent_of_not_existing_flag`): it is sticky, so after an
earlier creation in the same transaction it is still set; `second_creation_collides` /
`created_earlier_collides`: a creation onto an address created earlier in the transaction (alive or
self-destructed since) collides; `has_storage_without_account_collides`, and the control
`funded_empty_account_does_not_collide`. The correspondence
stream runs the real EVM with the target made warm in each of these ways. -/
namespace Revm.Props.C21
open Revm Revm.Model.Db Revm.Model.Collision Revm.Proofs.Collision

/-- code or non-zero nonce at the target: `CreateCollision`, all gas passed is consumed, target
unchanged — whatever database stack the EVM runs on, for every value, gas limit and fork -/
theorem create_collision_code_or_nonce (db : Db) (a : Addr) (t : Target) (value gasLimit : Nat) (sd : Bool)
    (h : t.codeHash ≠ KECCAK_EMPTY ∨ t.nonce ≠ 0) :
    makeCreateFrame db a t value gasLimit sd = ⟨.collision, t, some gasLimit⟩ :=
  collision_of_code_or_nonce db a t value gasLimit sd h

/-- the property under the explicit hypothesis that the database layer answers `has_storage`
faithfully: code, nonce or non-empty storage ⇒ collision, gas consumed, target unchanged -/
theorem create_collision_partial (db : Db) (a : Addr) (t : Target) (value gasLimit : Nat) (sd : Bool)
    (hf : HsFaithful db a)
    (h : t.codeHash ≠ KECCAK_EMPTY ∨ t.nonce ≠ 0 ∨ ∃ k, db.view.storage a k ≠ 0) :
    (makeCreateFrame db a t value gasLimit sd).result = .collision ∧
    (makeCreateFrame db a t value gasLimit sd).gasLost = some gasLimit ∧
    (makeCreateFrame db a t value gasLimit sd).target = t := by
  have : makeCreateFrame db a t value gasLimit sd = ⟨.collision, t, some gasLimit⟩ := by
    rcases h with h | h | h
    · exact collision_of_code_or_nonce db a t value gasLimit sd (Or.inl h)
    · exact collision_of_code_or_nonce db a t value gasLimit sd (Or.inr h)
    · exact collision_of_storage db a t value gasLimit sd hf h
  rw [this]; exact ⟨rfl, rfl, rfl⟩

/-- the layers that are faithful: a database implementing `has_storage`, `WrapDatabaseRef` over it,
and `&mut` / `Box` over anything faithful -/
theorem has_storage_faithful_layers (b : Base) (hb : HonestBase b) (a : Addr) :
    HsFaithful (.base b) a ∧ HsFaithful (.wrapRef (.base b)) a ∧ HsFaithful (.fwd (.base b)) a ∧
    HsFaithful (.fwd (.fwd (.base b))) a :=
  ⟨faithful_base b hb a, faithful_wrapRef_base b hb a, faithful_fwd _ a (faithful_base b hb a),
   faithful_fwd _ a (faithful_fwd _ a (faithful_base b hb a))⟩

/-! ## the decision does not depend on how (or whether) the target is already warm -/

/-- For every database stack, address, value, gas limit and fork, and every way `w` in which the
target can have entered the journal before the creation reaches it (first touch; tx access list with
any list of storage keys; BALANCE / EXTCODESIZE; a CALL that touched it; an earlier failed CREATE2
with the same salt; a reverted sub-call that left it cold in the map): the result (collision /
overflow / frame) and the gas taken from the creator are those of the cold first touch, and a
collision leaves the target exactly as the journal had it. -/
theorem collision_independent_of_warmth (db : Db) (a : Addr) (w : Warmth) (value gasLimit : Nat) (sd : Bool) :
    (makeCreateFrameW db a w value gasLimit sd).result = (makeCreateFrameW db a .coldFirstTouch value gasLimit sd).result ∧
    (makeCreateFrameW db a w value gasLimit sd).gasLost = (makeCreateFrameW db a .coldFirstTouch value gasLimit sd).gasLost ∧
    ((makeCreateFrameW db a w value gasLimit sd).result = .collision →
      (makeCreateFrameW db a w value gasLimit sd).target = loadedTarget db a w) := by
  rw [makeCreateFrameW_eq, makeCreateFrameW_eq]
  have hsame : SameInfo (loadedTarget db a w) (loadedTarget db a .coldFirstTouch) := by
    obtain ⟨h1, h2, h3⟩ := loadedTarget_sameInfo db a w
    obtain ⟨g1, g2, g3⟩ := loadedTarget_sameInfo db a .coldFirstTouch
    exact ⟨h1.trans g1.symm, h2.trans g2.symm, h3.trans g3.symm⟩
  obtain ⟨hr, hg⟩ := cac_congr _ _ hsame (hsOf db a) value gasLimit sd
  exact ⟨hr, hg, cac_collision_target _ _ _ _ _⟩

/-- On ANY journal entries `j1`, `j2` for the target holding the same account info — whatever their
`cold` flags, whatever slots the journal has loaded for them (none, zero-valued ones, the non-zero
one), whether or not the address is in `warm_preloaded_addresses`, and also against no entry at all
(`collision_no_entry`) — the decision and the gas lost are the same: only the account's code hash,
nonce, balance and the database's `has_storage` answer are read. -/
theorem collision_reads_only_info_and_has_storage (db : Db) (a : Addr) (j1 j2 : JAccount) (p1 p2 : Bool)
    (value gasLimit : Nat) (sd : Bool) (h : SameInfo j1.target j2.target) :
    (makeCreateFrameJ db a (some j1) p1 value gasLimit sd).result = (makeCreateFrameJ db a (some j2) p2 value gasLimit sd).result ∧
    (makeCreateFrameJ db a (some j1) p1 value gasLimit sd).gasLost = (makeCreateFrameJ db a (some j2) p2 value gasLimit sd).gasLost := by
  rw [makeCreateFrameJ_some, makeCreateFrameJ_some]
  exact cac_congr _ _ h _ _ _ _

theorem collision_no_entry (db : Db) (a : Addr) (j : JAccount) (p1 p2 : Bool)
    (value gasLimit : Nat) (sd : Bool) (h : SameInfo j.target (infoTarget db a)) :
    (makeCreateFrameJ db a (some j) p1 value gasLimit sd).result = (makeCreateFrameJ db a none p2 value gasLimit sd).result ∧
    (makeCreateFrameJ db a (some j) p1 value gasLimit sd).gasLost = (makeCreateFrameJ db a none p2 value gasLimit sd).gasLost := by
  rw [makeCreateFrameJ_some, makeCreateFrameJ_none]
  exact cac_congr _ _ h _ _ _ _

/-- the property for a target that is already warm, under the same hypothesis as
`create_collision_partial` (the database answers `has_storage` faithfully): code, nonce or
non-empty storage ⇒ collision, the whole gas passed consumed, target as the journal had it -/
theorem create_collision_warm_partial (db : Db) (a : Addr) (w : Warmth) (value gasLimit : Nat) (sd : Bool)
    (hf : HsFaithful db a)
    (h : (loadedTarget db a w).codeHash ≠ KECCAK_EMPTY ∨ (loadedTarget db a w).nonce ≠ 0 ∨ ∃ k, db.view.storage a k ≠ 0) :
    (makeCreateFrameW db a w value gasLimit sd).result = .collision ∧
    (makeCreateFrameW db a w value gasLimit sd).gasLost = some gasLimit ∧
    (makeCreateFrameW db a w value gasLimit sd).target = loadedTarget db a w := by
  rw [makeCreateFrameW_eq, ← makeCreateFrame_eq]
  exact create_collision_partial db a (loadedTarget db a w) value gasLimit sd hf h

/-! ## the decision does not depend on the `LoadedAsNotExisting` flag of the journal's account -/

/-- `create_account_checkpoint` tests `info.code_hash`, `info.nonce` and `address_has_storage` of the
journal's account and never its `LoadedAsNotExisting` status flag: for every database stack,
address, journal account `j`, value, gas limit and fork, setting the flag to either value gives the
same outcome (result, gas lost, target afterwards) — and the flag itself is carried through the
creation unchanged (it is sticky for the rest of the transaction), so it says nothing about
whether the address is vacant NOW. -/
theorem collision_independent_of_not_existing_flag (db : Db) (a : Addr) (j : JAccount) (f : Bool) (preloaded : Bool)
    (value gasLimit : Nat) (sd : Bool) (hs : Bool) :
    makeCreateFrameJ db a (some { j with notExisting := f }) preloaded value gasLimit sd =
      makeCreateFrameJ db a (some j) preloaded value gasLimit sd ∧
    (createAccountCheckpointJ { j with notExisting := f } hs value gasLimit sd).1 =
      (createAccountCheckpointJ j hs value gasLimit sd).1 ∧
    (createAccountCheckpointJ { j with notExisting := f } hs value gasLimit sd).2.notExisting = f :=
  ⟨makeCreateFrameJ_flag db a j f preloaded value gasLimit sd, rfl, rfl⟩

/-- A second creation onto the same address in one transaction collides (forks with EIP-161, i.e.
every fork that has CREATE2): if a creation on the journal account `j` made a frame, then whatever
code its init code deployed (`ch`, also none), whatever happened to the balance since (value
transfers, SELFDESTRUCT of the new contract, before or after Cancun), whatever the
`LoadedAsNotExisting` flag of the first load (`f`), and whatever the database says, the next
creation onto it is a `CreateCollision` that consumes the gas passed and leaves the account as it is. -/
theorem second_creation_collides (db db' : Db) (a : Addr) (j : JAccount) (value gasLimit : Nat)
    (h1 : (makeCreateFrame db a j.target value gasLimit true).result = .frame)
    (ch bal : Nat) (f : Bool) (value' gasLimit' : Nat) (preloaded : Bool) :
    let o1 := makeCreateFrame db a j.target value gasLimit true
    let t2 : Target := { o1.target with codeHash := ch, balance := bal }
    makeCreateFrameJ db' a (some { j with target := t2, notExisting := f }) preloaded value' gasLimit' true =
      ⟨.collision, t2, some gasLimit'⟩ := by
  intro o1 t2
  rw [makeCreateFrameJ_some]
  apply cac_nonce
  have : o1.target.nonce = 1 := by
    have h1' := h1
    rw [makeCreateFrame_eq] at h1'
    show (makeCreateFrame db a j.target value gasLimit true).target.nonce = 1
    rw [makeCreateFrame_eq]
    exact cac_frame_nonce _ _ _ _ h1'
  show o1.target.nonce ≠ 0
  omega

/-- the histories of the correspondence grid: created earlier (alive or self-destructed since) ⇒ the
creation in question collides, gas consumed, journal account unchanged -/
theorem created_earlier_collides (db : Db) (a : Addr) (ch : Nat) (value gasLimit : Nat) (destroyed : Bool)
    (h1 : (makeCreateFrameH db a (if destroyed then .createdDestroyed ch else .createdAlive ch) value gasLimit true).first = some .frame) :
    let r := makeCreateFrameH db a (if destroyed then .createdDestroyed ch else .createdAlive ch) value gasLimit true
    r.outcome = ⟨.collision, r.entry.target, some gasLimit⟩ := by
  cases destroyed
  · simp only [Bool.false_eq_true, if_false] at h1 ⊢
    simp only [makeCreateFrameH] at h1 ⊢
    have hf : (makeCreateFrame (loadAccount db a none false).1 a (loadAccount db a none false).2.1.target value gasLimit true).result = .frame := by
      simpa using h1
    simp only [hf, if_true]
    rw [makeCreateFrameJ_some]
    apply cac_nonce
    rw [makeCreateFrame_eq] at hf
    have := cac_frame_nonce _ _ _ _ hf
    simp only [afterCreation, makeCreateFrame_eq]
    omega
  · simp only [if_true] at h1 ⊢
    simp only [makeCreateFrameH] at h1 ⊢
    have hf : (makeCreateFrame (loadAccount db a none false).1 a (loadAccount db a none false).2.1.target value gasLimit true).result = .frame := by
      simpa using h1
    simp only [hf, if_true]
    rw [makeCreateFrameJ_some]
    apply cac_nonce
    rw [makeCreateFrame_eq] at hf
    have := cac_frame_nonce _ _ _ _ hf
    simp only [afterSelfdestruct, afterCreation, makeCreateFrame_eq]
    omega

/-- the converse control: an account with no code and nonce 0 whose database reports no storage —
e.g. one loaded as not existing by BALANCE and then funded by a value CALL — does NOT collide
(whatever its `LoadedAsNotExisting` flag), as long as the endowment does not overflow its balance -/
theorem funded_empty_account_does_not_collide (db : Db) (a : Addr) (j : JAccount) (preloaded : Bool)
    (value gasLimit : Nat) (sd : Bool)
    (hc : j.target.codeHash = KECCAK_EMPTY) (hn : j.target.nonce = 0) (hs : hsOf db a = false)
    (hb : j.target.balance + value < W) :
    (makeCreateFrameJ db a (some j) preloaded value gasLimit sd).result = .frame := by
  rw [makeCreateFrameJ_some, hs]
  exact cac_vacant _ hc hn _ _ _ hb

/-- a database that reports storage for an address whose `basic` is `None`: collision, although the
journal account is `LoadedAsNotExisting` with no code and nonce 0 -/
theorem has_storage_without_account_collides (db : Db) (a : Addr) (j : JAccount) (preloaded : Bool)
    (value gasLimit : Nat) (sd : Bool) (hs : hsOf db a = true) :
    makeCreateFrameJ db a (some j) preloaded value gasLimit sd = ⟨.collision, j.target, some gasLimit⟩ := by
  rw [makeCreateFrameJ_some, hs]
  exact cac_hs _ _ _ _

/-- collision happens for no other reason: exactly code, nonce, or the database's `has_storage` -/
theorem collision_iff (t : Target) (hs : Bool) (value gasLimit : Nat) (sd : Bool) :
    (createAccountCheckpoint t hs value gasLimit sd).result = .collision ↔
      (t.codeHash ≠ KECCAK_EMPTY ∨ t.nonce ≠ 0 ∨ hs = true) :=
  Proofs.Collision.collision_iff t hs value gasLimit sd

/-- databases built from a properly implemented one by the crate's wrappers -/
inductive OverHonest : Db → Prop
  | base (b : Base) (h : HonestBase b) : OverHonest (.base b)
  | cache (i : Db) (c : CacheDB) : OverHonest i → OverHonest (.cache i c)
  | state (i : Db) (s : StateDb) : OverHonest i → OverHonest (.state i s)
  | wrapRef (i : Db) : OverHonest i → OverHonest (.wrapRef i)
  | fwd (i : Db) : OverHonest i → OverHonest (.fwd i)
  | components (i : Db) : OverHonest i → OverHonest (.components i)

/-- The property at full strength ("regardless of which of the crate's database layers holds that
storage"). FALSE of the current code, see the counterexamples. -/
def CreateCollisionFullStatement : Prop :=
  ∀ (db : Db), OverHonest db → ∀ (a : Addr) (t : Target) (value gasLimit : Nat) (sd : Bool),
    (t.codeHash ≠ KECCAK_EMPTY ∨ t.nonce ≠ 0 ∨ ∃ k, db.view.storage a k ≠ 0) →
    makeCreateFrame db a t value gasLimit sd = ⟨.collision, t, some gasLimit⟩

/-! ## non-vacuity and counterexamples -/

open Revm.Props.C20 (exBase exData)

theorem exBase_honest : HonestBase exBase := by
  intro a
  by_cases ha : a = 1
  · subst ha; exact ⟨fun _ => ⟨7, by decide⟩, fun _ => by decide⟩
  · constructor
    · intro h; simp [exBase, ha] at h
    · intro ⟨k, hk⟩; simp [exBase, exData, ha] at hk

/-- an empty account (no code, nonce 0) whose only content is storage slot 7 = 9 -/
def exTarget : Target := { codeHash := KECCAK_EMPTY, nonce := 0, balance := 5 }

example : HsFaithful (.base exBase) 1 := faithful_base exBase exBase_honest 1
example : (makeCreateFrame (.base exBase) 1 exTarget 1 1000 true) = ⟨.collision, exTarget, some 1000⟩ := by decide
example : (makeCreateFrame (.wrapRef (.base exBase)) 1 exTarget 1 1000 true).result = .collision := by decide
example : (makeCreateFrame (.base exBase) 2 ⟨KECCAK_EMPTY, 0, 0, false, false⟩ 1 1000 true).result = .frame := by decide

/-- the storage-only target (slot 7 = 9 in the underlying database) collides however it became warm;
in particular when the journal loaded NO slot of it (access list without keys, BALANCE, CALL, retry)
or only a zero-valued one (key 3) -/
example : ∀ w ∈ [Warmth.coldFirstTouch, .accessList [], .accessList [3], .accessList [7], .accessList [3, 7, 3],
      .opcodeLoad, .called, .retried, .revertedCold],
    (makeCreateFrameW (.wrapRef (.base exBase)) 1 w 1 1000 true).result = .collision ∧
    (makeCreateFrameW (.wrapRef (.base exBase)) 1 w 1 1000 true).gasLost = some 1000 := by decide
example : ((journalEntry (.base exBase) 1 (.accessList [3, 7])).2.map (·.slots)) = some [(7, 9), (3, 0)] := by decide
example : (makeCreateFrameW (.base exBase) 2 .opcodeLoad 1 1000 true).result = .frame := by decide
example : (loadedTarget (.base exBase) 1 .called).touched = true ∧ (loadedTarget (.base exBase) 1 .retried).touched = false := by decide
example : SameInfo (loadedTarget (.base exBase) 1 .called) (infoTarget (.base exBase) 1) := ⟨rfl, rfl, rfl⟩

/-- histories on an address absent from the database (account 2 of `exBase`): the first creation
makes a frame, the entry keeps `LoadedAsNotExisting`, the second creation collides; funded by a
CALL it does not collide; a database with `has_storage` for an absent account collides -/
example :
    let r := makeCreateFrameH (.base exBase) 2 (.createdAlive 0x1234) 1 1000 true
    r.first = some .frame ∧ r.entry.notExisting = true ∧ r.entry.target.nonce = 1 ∧
    r.outcome.result = .collision ∧ r.outcome.gasLost = some 1000 ∧ r.outcome.target = r.entry.target := by decide
example :
    let r := makeCreateFrameH (.base exBase) 2 (.createdDestroyed 0x1234) 1 1000 true
    r.first = some .frame ∧ r.entry.notExisting = true ∧ r.entry.target.balance = 0 ∧ r.outcome.result = .collision := by decide
example :
    let r := makeCreateFrameH (.base exBase) 2 (.funded 1) 1 1000 true
    r.entry.notExisting = true ∧ r.entry.target.balance = 1 ∧ r.outcome.result = .frame ∧ r.outcome.target.balance = 2 := by decide
example :
    let b : Base := { exBase with hasStorage := fun a => a == 2 }
    let r := makeCreateFrameH (.base b) 2 .untouched 1 1000 true
    r.entry.notExisting = true ∧ r.outcome.result = .collision ∧ r.outcome.gasLost = some 1000 := by decide

/-- the same target behind `CacheDB`, `State`, `State` over `CacheDB` or `DatabaseComponents`:
the storage is there (slot 7 reads 9 through the layer) but creation proceeds — the account is
marked created, gets nonce 1 and the value, no gas is taken -/
theorem create_collision_storage_behind_wrappers_counterexample :
    (Db.cache (.base exBase) CacheDB.new).view.storage 1 7 = 9 ∧
    (makeCreateFrame (.cache (.base exBase) CacheDB.new) 1 exTarget 1 1000 true) =
      ⟨.frame, { exTarget with created := true, touched := true, balance := 6, nonce := 1 }, none⟩ ∧
    (makeCreateFrame (.state (.base exBase) StateDb.new) 1 exTarget 1 1000 true).result = .frame ∧
    (makeCreateFrame (.state (.cache (.base exBase) CacheDB.new) StateDb.new) 1 exTarget 1 1000 true).result = .frame ∧
    (makeCreateFrame (.components (.base exBase)) 1 exTarget 1 1000 true).result = .frame := by decide

/-- storage inserted into an `InMemoryDB` (`CacheDB<EmptyDB>`) itself -/
theorem create_collision_storage_inserted_counterexample :
    let e : Data := (Base.emptyDB (fun _ => 0)).toData
    let c := (CacheDB.new.insertAccountInfo 1 ⟨5, 0, KECCAK_EMPTY, none⟩).insertAccountStorage e 1 7 9
    (c.storage e 1 7).2 = 9 ∧
    (makeCreateFrame (.cache (.empty (fun _ => 0)) c) 1 exTarget 1 1000 true).result = .frame := by decide

theorem create_collision_full_statement_counterexample : ¬ CreateCollisionFullStatement := by
  intro h
  have := h (.cache (.base exBase) CacheDB.new) (.cache _ _ (.base _ exBase_honest)) 1 exTarget 1 1000 true
    (Or.inr (Or.inr ⟨7, by decide⟩))
  revert this
  decide

end Revm.Props.C21

