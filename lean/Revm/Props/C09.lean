import Revm.Proofs.TxGas
/-! C09 — gas used and fees of an executed transaction.

`Model.TxGas` follows `Evm::transact_preverified_inner` and the mainnet handler stages around the first
frame (`deduct_caller`, `gas_limit - initial_gas`, the EIP-7702 refund, `last_frame_return`, `refund`,
the EIP-7623 floor, `reimburse_caller`, `reward_beneficiary`, `output`). The FIRST FRAME'S RESULT
(`fr : FrameRes`: its `InstructionResult` and its `Gas`) is an arbitrary input; the only thing assumed
about it is what the frame machine guarantees, `remaining ≤ gas_limit − initial_gas` (the frame's own
meter was created with that limit and `remaining ≤ limit` is the C13 invariant). NOTHING is assumed
about the frame's refund counter in the bound theorems (any `i64`, even any integer).

Readings (DESIGN §8):
* "intrinsic gas ≤ gas used" is the bound on gas SPENT before refund (`spent_bounds`), and from Prague
  the floor on `gas_used` (`floor_le_used`); `gas_used` itself is net of refunds.
* "refund is zero on revert or halt", "a halted transaction uses its whole gas limit": TRUE of the
  frame's own refund counter, but the EIP-7702 authorization refund (12500 per existing authority) is
  recorded by `post_execution::refund` on every outcome, as EIP-7702 demands. The literal clauses are
  therefore proved under the explicit hypothesis "no 7702 refund" (`…_partial`), refuted without it
  (`…_counterexample`, the witness is a real transaction replayed by the check), and the exact
  behaviour is proved at full strength (`refund_on_revert_or_halt`, `halt_used_exact`).
* negative `i64` refund totals: the cap theorems hold for them as well; what the `as u64` cast does is
  characterised separately (`refund_negative_cast`). -/
namespace Revm.Props.C09
open Revm Revm.Model.Gas Revm.Model.TxGas
open Revm.Model.GasCalc (enabled)
open Revm.Model.GasCalc.SpecId (LONDON CANCUN PRAGUE)
open Revm.Proofs.TxGas (quot quot_eq remAfter Settled)

/-- what validation and the frame machine guarantee about the inputs of the pipeline -/
structure Admissible (e : Env) (initialGas floorGas : Nat) (fr : FrameRes) : Prop where
  /-- `tx.gas_limit` is a `u64` -/
  gasLimit_u64 : e.gasLimit < U64
  /-- `validate_initial_tx_gas`: `CallGasCostMoreThanGasLimit` otherwise -/
  initial_le : initialGas ≤ e.gasLimit
  /-- `validate_initial_tx_gas`: `GasFloorMoreThanGasLimit` from Prague; the floor is 0 before -/
  floor_le : floorGas ≤ e.gasLimit
  /-- THE FRAME MACHINE: the first frame got `gas_limit − initial_gas` and cannot give back more -/
  frame_remaining : fr.gas.remaining ≤ e.gasLimit - initialGas

/-- the meter after `last_frame_return` and `refund`: "gas spent" and "refund" of the property,
before the EIP-7623 floor may replace them -/
def afterRefund (e : Env) (k : Nat) (fr : FrameRes) : Gas :=
  refund e (lastFrameReturn e fr) (eip7702Refund k)

/-- the EIP-4844 fee charged by `deduct_caller_inner` -/
def blobFee (e : Env) : Nat := if enabled e.spec CANCUN = true then (calcDataFee e).getD 0 else 0

instance (e : Env) (i fl : Nat) (fr : FrameRes) : Decidable (Admissible e i fl fr) :=
  if h : e.gasLimit < U64 ∧ i ≤ e.gasLimit ∧ fl ≤ e.gasLimit ∧ fr.gas.remaining ≤ e.gasLimit - i
  then isTrue ⟨h.1, h.2.1, h.2.2.1, h.2.2.2⟩
  else isFalse (fun a => h ⟨a.gasLimit_u64, a.initial_le, a.floor_le, a.frame_remaining⟩)

theorem Admissible.rem_le {e : Env} {i fl : Nat} {fr : FrameRes} (h : Admissible e i fl fr) :
    fr.gas.remaining ≤ e.gasLimit := by
  have := h.frame_remaining; omega

/-- a plain London call: 100000 gas, intrinsic 21000, the frame hands 30000 back and recorded a refund -/
def sampleEnv : Env :=
  { spec := 12, gasLimit := 100000, gasPrice := 50, priorityFee := some 2, basefee := 7, blobPrice := none,
    nBlobs := 0, maxFeePerBlobGas := none, value := 3 }
def sampleFrame : FrameRes := { ir := .Stop, gas := { limit := 79000, remaining := 30000, refunded := 19200 } }
def sampleShape : TxShape := { isCreate := false, dataLen := 0, accessList := [], authLen := none }

example : Admissible sampleEnv 21000 0 sampleFrame := ⟨by decide, by decide, by decide, by decide⟩
example : (pipeline sampleEnv 0 0 sampleFrame).map (fun o => (o.gasUsed, o.gasRefunded, o.deducted, o.reimbursed, o.reward)) =
    some (56000, 14000, 900000, 396000, 112000) := by decide
example : validate sampleEnv sampleShape 21000 0 6000000 = none := by decide

/-! ## bounds -/

/-- intrinsic gas ≤ gas spent ≤ gas limit, for EVERY first-frame result (any class, any refund
counter, any EIP-7702 refund) -/
theorem spent_bounds (e : Env) (i fl k : Nat) (fr : FrameRes) (h : Admissible e i fl fr) :
    i ≤ spent (afterRefund e k fr) ∧ spent (afterRefund e k fr) ≤ e.gasLimit := by
  have sr := Proofs.TxGas.settled_refund e fr (eip7702Refund k) h.gasLimit_u64 h.rem_le
  have hn := (Proofs.TxGas.settled_numbers e _ h.gasLimit_u64 sr.1).1
  have hle := Proofs.TxGas.remAfter_le fr
  have h1 := h.frame_remaining
  have h2 := h.initial_le
  unfold afterRefund; rw [hn, sr.2]; omega

/-- what the EIP-7623 block does: nothing when `spent − refunded ≥ floor`; otherwise spent is
replaced by the floor and the refund by 0 -/
theorem spent_final (e : Env) (i fl k : Nat) (fr : FrameRes) (h : Admissible e i fl fr) :
    (spent (afterRefund e k fr) - gasRefunded (afterRefund e k fr) < fl →
      spent (finalGas e fl k fr) = fl ∧ gasRefunded (finalGas e fl k fr) = 0) ∧
    (¬ spent (afterRefund e k fr) - gasRefunded (afterRefund e k fr) < fl →
      finalGas e fl k fr = afterRefund e k fr) := by
  have hL := h.gasLimit_u64
  have hfl := h.floor_le
  have sr := Proofs.TxGas.settled_refund e fr (eip7702Refund k) hL h.rem_le
  have sa : Settled e (afterRefund e k fr) := sr.1
  have sf := Proofs.TxGas.settled_floor e (afterRefund e k fr) fl hL sa hfl
  have hn := Proofs.TxGas.settled_numbers e (afterRefund e k fr) hL sa
  have hfin : finalGas e fl k fr = floorAdjust (afterRefund e k fr) fl := rfl
  have hcond : spent (afterRefund e k fr) - gasRefunded (afterRefund e k fr) =
      e.gasLimit - (afterRefund e k fr).remaining - (afterRefund e k fr).refunded.toNat := by
    rw [hn.1, hn.2.1]
  rw [hcond, hfin]
  constructor
  · intro hc
    have sf2 := sf.2
    rw [if_pos hc] at sf2
    have hnf := Proofs.TxGas.settled_numbers e _ hL sf.1
    rw [hnf.1, hnf.2.1, sf2.1, sf2.2]
    exact ⟨Nat.sub_sub_self hfl, Int.toNat_zero⟩
  · intro hc
    have sf2 := sf.2
    rw [if_neg hc] at sf2
    exact sf2

/-- gas used ≤ gas limit -/
theorem used_le_limit (e : Env) (i fl k : Nat) (fr : FrameRes) (h : Admissible e i fl fr) :
    gasUsed (finalGas e fl k fr) ≤ e.gasLimit := by
  have s := Proofs.TxGas.settled_final e fl k fr h.gasLimit_u64 h.rem_le h.floor_le
  have hn := (Proofs.TxGas.settled_numbers e _ h.gasLimit_u64 s).2.2.2.2.1
  omega

/-- `gas_used = max (spent − refunded) floor` (EIP-7623), spent / refunded as after `refund` -/
theorem used_eq_max (e : Env) (i fl k : Nat) (fr : FrameRes) (h : Admissible e i fl fr) :
    gasUsed (finalGas e fl k fr) =
      max (spent (afterRefund e k fr) - gasRefunded (afterRefund e k fr)) fl := by
  have hL := h.gasLimit_u64
  have sr := Proofs.TxGas.settled_refund e fr (eip7702Refund k) hL h.rem_le
  have hn := Proofs.TxGas.settled_numbers e _ hL sr.1
  rw [Proofs.TxGas.gasUsed_final e fl k fr hL h.rem_le h.floor_le]
  unfold afterRefund
  rw [hn.1, hn.2.1, sr.2]

/-- from Prague (whenever a floor is passed): the calldata floor ≤ gas used -/
theorem floor_le_used (e : Env) (i fl k : Nat) (fr : FrameRes) (h : Admissible e i fl fr) :
    fl ≤ gasUsed (finalGas e fl k fr) := by
  rw [used_eq_max e i fl k fr h]; exact Nat.le_max_right _ _

/-- the refund never exceeds gas spent / 5 (London onwards) or / 2 (before): for EVERY frame result,
including arbitrary (negative, huge) refund counters -/
theorem refund_cap (e : Env) (i fl k : Nat) (fr : FrameRes) (h : Admissible e i fl fr) :
    gasRefunded (finalGas e fl k fr) ≤
      spent (finalGas e fl k fr) / (if enabled e.spec LONDON = true then 5 else 2) ∧
    gasRefunded (afterRefund e k fr) ≤
      spent (afterRefund e k fr) / (if enabled e.spec LONDON = true then 5 else 2) := by
  have hL := h.gasLimit_u64
  have s := Proofs.TxGas.settled_final e fl k fr hL h.rem_le h.floor_le
  have sr := Proofs.TxGas.settled_refund e fr (eip7702Refund k) hL h.rem_le
  have h1 := (Proofs.TxGas.settled_numbers e _ hL s).2.2.1
  have h2 := (Proofs.TxGas.settled_numbers e _ hL sr.1).2.2.1
  rw [quot_eq] at h1 h2
  exact ⟨h1, h2⟩

/-- the reported numbers add up: `gas_used + gas_refunded = spent` and nothing is lost or invented
between the three destinations of the gas limit -/
theorem used_plus_refunded (e : Env) (i fl k : Nat) (fr : FrameRes) (h : Admissible e i fl fr) :
    gasUsed (finalGas e fl k fr) + gasRefunded (finalGas e fl k fr) = spent (finalGas e fl k fr) ∧
    gasUsed (finalGas e fl k fr) + gasRefunded (finalGas e fl k fr) + (finalGas e fl k fr).remaining = e.gasLimit := by
  have hL := h.gasLimit_u64
  have s := Proofs.TxGas.settled_final e fl k fr hL h.rem_le h.floor_le
  have hn := Proofs.TxGas.settled_numbers e _ hL s
  have := s.rem_le
  refine ⟨?_, hn.2.2.2.2.1⟩
  rw [hn.1]; omega

example : Admissible sampleEnv 21000 0 sampleFrame ∧ spent (afterRefund sampleEnv 0 sampleFrame) = 70000 ∧
    gasUsed (finalGas sampleEnv 0 0 sampleFrame) = 56000 ∧ gasRefunded (finalGas sampleEnv 0 0 sampleFrame) = 14000 := by decide

/-- WITHOUT the frame-machine hypothesis the lower bound is lost: a frame that hands back one gas more
than it was given makes the transaction spend less than its intrinsic gas.
Request line: `txgas pipe c 186a0 32 2 7 - 0 - 3 5b8d80 5 c 0 0 - - 0 1 Stop 13499 0`. -/
theorem frame_hypothesis_counterexample :
    let fr : FrameRes := { ir := .Stop, gas := { limit := 79000, remaining := 79001, refunded := 0 } }
    ¬ Admissible sampleEnv 21000 0 fr ∧ spent (afterRefund sampleEnv 0 fr) = 20999 := by decide

/-! ## refund on revert / halt, halted transactions -/

/-- the reports `Revert` and `Halt` never come from an ok-class result -/
theorem revert_or_halt_not_ok (ir : IR) (h : ir.report = .revert ∨ ir.report = .halt) : ir.gasClass ≠ .ok := by
  cases ir <;> simp [IR.report, IR.gasClass] at h ⊢

/-- a `Halt` comes from the `_ => {}` arm of `last_frame_return`, except for the two revert-class
results that are reported as halts (`CallTooDeep`, `OutOfFunds`: "not gonna happen for first call") -/
theorem halt_class (ir : IR) (h : ir.report = .halt) :
    ir.gasClass = .other ∨ ir = .CallTooDeep ∨ ir = .OutOfFunds := by
  cases ir <;> simp [IR.report, IR.gasClass] at h ⊢

/-- FULL STRENGTH: on every revert / halt the frame's own refund counter is dropped and the refund is
exactly the EIP-7702 authorization refund, capped: `min (12500·k) (spent / q)` -/
theorem refund_on_revert_or_halt (e : Env) (i fl k : Nat) (fr : FrameRes) (h : Admissible e i fl fr)
    (hrep : fr.ir.report = .revert ∨ fr.ir.report = .halt) (hk : 12500 * k < 9223372036854775808) :
    gasRefunded (afterRefund e k fr) =
      min (12500 * k) (spent (afterRefund e k fr) / (if enabled e.spec LONDON = true then 5 else 2)) := by
  have hL := h.gasLimit_u64
  have hc := revert_or_halt_not_ok fr.ir hrep
  have sr := Proofs.TxGas.settled_refund e fr (eip7702Refund k) hL h.rem_le
  have hn := Proofs.TxGas.settled_numbers e _ hL sr.1
  have hr := Proofs.TxGas.refund_not_ok e fr k hL h.rem_le hc hk
  unfold afterRefund
  rw [hn.2.1, hn.1, sr.2, hr, ← quot_eq]
  generalize (e.gasLimit - remAfter fr) / quot e = d
  omega

/-- the literal clause "the refund is zero on revert or halt", under the hypothesis that there is no
EIP-7702 refund (`k = 0` refunded authorities) -/
theorem refund_zero_on_revert_or_halt_partial (e : Env) (i fl : Nat) (fr : FrameRes) (h : Admissible e i fl fr)
    (hrep : fr.ir.report = .revert ∨ fr.ir.report = .halt) :
    gasRefunded (afterRefund e 0 fr) = 0 ∧ gasRefunded (finalGas e fl 0 fr) = 0 := by
  have h0 := refund_on_revert_or_halt e i fl 0 fr h hrep (by omega)
  have h0' : gasRefunded (afterRefund e 0 fr) = 0 := by rw [h0]; simp
  have hsf := spent_final e i fl 0 fr h
  refine ⟨h0', ?_⟩
  by_cases hc : spent (afterRefund e 0 fr) - gasRefunded (afterRefund e 0 fr) < fl
  · exact (hsf.1 hc).2
  · rw [hsf.2 hc]; exact h0'

/-- the literal clause, without the hypothesis -/
def FullStatementRefundZero : Prop :=
  ∀ (e : Env) (i fl k : Nat) (fr : FrameRes), Admissible e i fl fr →
    (fr.ir.report = .revert ∨ fr.ir.report = .halt) → gasRefunded (finalGas e fl k fr) = 0

/-- FULL STRENGTH: a halted transaction (result in the `_` arm) uses
`max (gas_limit − min (12500·k) (gas_limit / q)) floor` -/
theorem halt_used_exact (e : Env) (i fl k : Nat) (fr : FrameRes) (h : Admissible e i fl fr)
    (hcls : fr.ir.gasClass = .other) (hk : 12500 * k < 9223372036854775808) :
    gasUsed (finalGas e fl k fr) =
      max (e.gasLimit - min (12500 * k) (e.gasLimit / (if enabled e.spec LONDON = true then 5 else 2))) fl := by
  have hL := h.gasLimit_u64
  have hc : fr.ir.gasClass ≠ .ok := by rw [hcls]; decide
  have hr := Proofs.TxGas.refund_not_ok e fr k hL h.rem_le hc hk
  have hrem : remAfter fr = 0 := by unfold Proofs.TxGas.remAfter; rw [hcls]
  rw [Proofs.TxGas.gasUsed_final e fl k fr hL h.rem_le h.floor_le, hr, hrem, ← quot_eq]
  generalize (e.gasLimit - 0) / quot e = d
  have : e.gasLimit - 0 = e.gasLimit := by omega
  have hd : (e.gasLimit - 0) / quot e = e.gasLimit / quot e := by rw [this]
  omega

/-- "a halted transaction uses its whole gas limit", under the hypotheses that there is no EIP-7702
refund and that the halt is not one of the two revert-class results `CallTooDeep` / `OutOfFunds`
(which a first frame cannot return: depth 0, and the validated balance covers the value) -/
theorem halt_uses_all_partial (e : Env) (i fl : Nat) (fr : FrameRes) (h : Admissible e i fl fr)
    (hrep : fr.ir.report = .halt) (hir : fr.ir ≠ .CallTooDeep ∧ fr.ir ≠ .OutOfFunds) :
    gasUsed (finalGas e fl 0 fr) = e.gasLimit := by
  have hcls : fr.ir.gasClass = .other := by
    rcases halt_class fr.ir hrep with h1 | h1 | h1
    · exact h1
    · exact absurd h1 hir.1
    · exact absurd h1 hir.2
  have := halt_used_exact e i fl 0 fr h hcls (by omega)
  have hfl := h.floor_le
  rw [this]; simp; omega

/-- the literal clause, without the hypotheses -/
def FullStatementHaltUsesAll : Prop :=
  ∀ (e : Env) (i fl k : Nat) (fr : FrameRes), Admissible e i fl fr → fr.ir.report = .halt →
    gasUsed (finalGas e fl k fr) = e.gasLimit

/-- Prague, one authorization of an existing account (intrinsic 21000 + 25000), 100000 gas, the target
executes INVALID -/
def witnessEnv : Env :=
  { spec := 18, gasLimit := 100000, gasPrice := 10, priorityFee := none, basefee := 7, blobPrice := some 1,
    nBlobs := 0, maxFeePerBlobGas := none, value := 0 }
def witnessFrame : FrameRes := { ir := .InvalidFEOpcode, gas := { limit := 54000, remaining := 54000, refunded := 0 } }

/-- the literal clauses FAIL for an EIP-7702 transaction with a refunded authority: the transaction
halts, yet 12500 gas are refunded and only 87500 of the 100000 gas are used. This is the behaviour
EIP-7702 specifies (the authorization refund is not tied to the outcome of the call).
Request line (a real transaction, replayed by the check; corpus/C09/txgas-7702-halt.case):
`txgas tx 12 186a0 a - 7 1 0 - 0 ffffffffffffffffffff 0 invalid 0 t - - 1,0 1 InvalidFEOpcode d2f0 0 1`
reply `halt used=155cc …`. -/
theorem halt_uses_all_counterexample :
    Admissible witnessEnv 46000 21000 witnessFrame ∧ witnessFrame.ir.report = .halt ∧
    gasUsed (finalGas witnessEnv 21000 1 witnessFrame) = 87500 ∧
    gasRefunded (finalGas witnessEnv 21000 1 witnessFrame) = 12500 ∧
    ¬ FullStatementHaltUsesAll ∧ ¬ FullStatementRefundZero := by
  have hA : Admissible witnessEnv 46000 21000 witnessFrame := ⟨by decide, by decide, by decide, by decide⟩
  have hu : gasUsed (finalGas witnessEnv 21000 1 witnessFrame) = 87500 := by decide
  have hr : gasRefunded (finalGas witnessEnv 21000 1 witnessFrame) = 12500 := by decide
  refine ⟨hA, rfl, hu, hr, ?_, ?_⟩
  · intro hall
    have := hall witnessEnv 46000 21000 1 witnessFrame hA rfl
    rw [hu] at this; exact absurd this (by decide)
  · intro hall
    have := hall witnessEnv 46000 21000 1 witnessFrame hA (Or.inr rfl)
    rw [hr] at this; exact absurd this (by decide)

/-- the same for a revert: spent 100000 − 53994 = 46006, refund 9201 = min 12500 (46006 / 5).
Request line: `txgas tx 12 186a0 a - 7 1 0 - 0 ffffffffffffffffffff 0 revert 0 t - - 1,0 1 Revert d2ea 0 1`,
reply `revert used=8fc5 …` (36805 = 46006 − 9201). -/
theorem refund_zero_counterexample :
    let fr : FrameRes := { ir := .Revert, gas := { limit := 54000, remaining := 53994, refunded := 0 } }
    Admissible witnessEnv 46000 21000 fr ∧ fr.ir.report = .revert ∧
    gasRefunded (finalGas witnessEnv 21000 1 fr) = 9201 ∧ gasUsed (finalGas witnessEnv 21000 1 fr) = 36805 := by
  decide

/-- a revert-class result reported as a halt gives the remaining gas back (only reachable when the
first frame itself returns `OutOfFunds` / `CallTooDeep`, which validation and depth 0 exclude).
Request line: `txgas pipe c 186a0 32 2 7 - 0 - 3 5b8d80 5 c 0 0 - - 0 1 OutOfFunds 7530 0`. -/
theorem halt_revert_class_counterexample :
    let fr : FrameRes := { ir := .OutOfFunds, gas := { limit := 79000, remaining := 30000, refunded := 0 } }
    Admissible sampleEnv 21000 0 fr ∧ fr.ir.report = .halt ∧ gasUsed (finalGas sampleEnv 0 0 fr) = 70000 := by
  decide

example : Admissible sampleEnv 21000 0 { sampleFrame with ir := .OutOfGas } ∧
    (IR.OutOfGas).report = .halt ∧ IR.OutOfGas ≠ .CallTooDeep ∧ IR.OutOfGas ≠ .OutOfFunds ∧
    gasUsed (finalGas sampleEnv 0 0 { sampleFrame with ir := .OutOfGas }) = 100000 := by decide

/-! ## the refund value on success -/

/-- success with a non-negative recorded total (frame counter + 7702 refund): the refund is that total
capped at `spent / q` -/
theorem refund_exact (e : Env) (i fl k : Nat) (fr : FrameRes) (h : Admissible e i fl fr)
    (hc : fr.ir.gasClass = .ok) (hk : 12500 * k < 9223372036854775808)
    (h0 : 0 ≤ fr.gas.refunded) (h1 : fr.gas.refunded + ((12500 * k : Nat) : Int) ≤ I64MAX) :
    gasRefunded (afterRefund e k fr) =
      min (fr.gas.refunded.toNat + 12500 * k)
        (spent (afterRefund e k fr) / (if enabled e.spec LONDON = true then 5 else 2)) := by
  have hL := h.gasLimit_u64
  have sr := Proofs.TxGas.settled_refund e fr (eip7702Refund k) hL h.rem_le
  have hn := Proofs.TxGas.settled_numbers e _ hL sr.1
  have hr := Proofs.TxGas.refund_ok_nonneg e fr k hL h.rem_le hc hk (by unfold I64MIN; omega) h1 (by omega)
  have hrem : remAfter fr = fr.gas.remaining := by unfold Proofs.TxGas.remAfter; rw [hc]
  unfold afterRefund
  rw [hn.2.1, hn.1, sr.2, hr, hrem, ← quot_eq]
  generalize (e.gasLimit - fr.gas.remaining) / quot e = d
  omega

/-- a NEGATIVE recorded total (excluded by EIP-2200 accounting) is cast `as u64` to a huge number and
loses the `min`: the refund is the FULL cap `spent / q` — still within the cap of `refund_cap` -/
theorem refund_negative_cast (e : Env) (i fl k : Nat) (fr : FrameRes) (h : Admissible e i fl fr)
    (hc : fr.ir.gasClass = .ok) (hk : 12500 * k < 9223372036854775808)
    (h0 : I64MIN ≤ fr.gas.refunded) (h1 : fr.gas.refunded ≤ I64MAX)
    (hneg : fr.gas.refunded + ((12500 * k : Nat) : Int) < 0) :
    gasRefunded (afterRefund e k fr) =
      spent (afterRefund e k fr) / (if enabled e.spec LONDON = true then 5 else 2) := by
  have hL := h.gasLimit_u64
  have sr := Proofs.TxGas.settled_refund e fr (eip7702Refund k) hL h.rem_le
  have hn := Proofs.TxGas.settled_numbers e _ hL sr.1
  have hr := Proofs.TxGas.refund_ok_negative e fr k hL h.rem_le hc hk h0 h1 hneg
  have hrem : remAfter fr = fr.gas.remaining := by unfold Proofs.TxGas.remAfter; rw [hc]
  unfold afterRefund
  rw [hn.2.1, hn.1, sr.2, hr, hrem, ← quot_eq]
  exact Int.toNat_natCast _

example : Admissible sampleEnv 21000 0 sampleFrame ∧ sampleFrame.ir.gasClass = .ok ∧
    gasRefunded (afterRefund sampleEnv 0 sampleFrame) = 14000 ∧
    gasRefunded (afterRefund sampleEnv 0 { sampleFrame with gas := { sampleFrame.gas with refunded := 4800 } }) = 4800 ∧
    gasRefunded (afterRefund sampleEnv 0 { sampleFrame with gas := { sampleFrame.gas with refunded := -1 } }) = 14000 := by
  decide

/-! ## payments -/

/-- validation (`validate_env`, `validate_tx_against_state` of the model) implies the arithmetic
facts the payment theorems need -/
theorem validated_facts (e : Env) (t : TxShape) (bal : Nat)
    (hv : validateEnv e t = none) (hs : validateAgainstState e bal = none) :
    e.gasLimit * e.gasPrice < W ∧
    e.gasLimit * e.gasPrice + e.value + blobFee e ≤ bal ∧
    (enabled e.spec LONDON = true → e.basefee ≤ effectiveGasPrice e) ∧
    (enabled e.spec CANCUN = true → ∃ f, calcDataFee e = some f) := by
  obtain ⟨c, hc, hle⟩ := Proofs.TxGas.validateAgainstState_none e bal hs
  obtain ⟨hmul, hceq, hcW⟩ := Proofs.TxGas.balanceCheck_some e c hc
  have hb := (Proofs.TxGas.validateEnv_none e t hv).2.1
  refine ⟨hmul, ?_, hb, ?_⟩
  · unfold blobFee
    by_cases hcan : enabled e.spec CANCUN = true
    · obtain ⟨f, hf, hfle⟩ := Proofs.TxGas.dataFee_covered e t hv hcan
      rw [if_pos hcan] at hceq ⊢
      rw [hf]; simp only [Option.getD_some]; omega
    · rw [if_neg hcan] at hceq ⊢; omega
  · intro hcan
    obtain ⟨f, hf, _⟩ := Proofs.TxGas.dataFee_covered e t hv hcan
    exact ⟨f, hf⟩

/-- THE SENDER PAYS exactly `effective gas price · gas used + blob fee`: for a validated transaction
`deduct_caller` takes `gas_limit · eff + blob_fee` without saturation and without clamping the
balance, `reimburse_caller` returns `eff · (remaining + refunded)` without 256-bit wrap, and the
difference is the fee; the sender's balance after both stages is `balance − fee` -/
theorem sender_pays (e : Env) (i fl k : Nat) (fr : FrameRes) (h : Admissible e i fl fr)
    (t : TxShape) (bal : Nat) (hbal : bal < W)
    (hv : validateEnv e t = none) (hs : validateAgainstState e bal = none)
    (o : Out) (hp : pipeline e fl k fr = some o) :
    o.deducted = e.gasLimit * effectiveGasPrice e + blobFee e ∧
    o.deducted ≤ bal ∧
    o.reimbursed = effectiveGasPrice e * (o.gas.remaining + o.gasRefunded) ∧
    o.deducted = o.reimbursed + (effectiveGasPrice e * o.gasUsed + blobFee e) ∧
    o.deducted - o.reimbursed = effectiveGasPrice e * o.gasUsed + blobFee e ∧
    ∀ cb rw, (balances o bal cb false rw).1 = bal - (effectiveGasPrice e * o.gasUsed + blobFee e) := by
  have hL := h.gasLimit_u64
  obtain ⟨hmul, hcover, _, hfee⟩ := validated_facts e t bal hv hs
  obtain ⟨hd, hg, hu, hrf, hre, _⟩ := Proofs.TxGas.pipeline_some e fl k fr o hp
  have s : Settled e o.gas := by rw [hg]; exact Proofs.TxGas.settled_final e fl k fr hL h.rem_le h.floor_le
  obtain ⟨hpr, _, hsplit⟩ := Proofs.TxGas.payments_exact e o.gas hL s hmul
  have heff := Proofs.TxGas.eff_le_gasPrice e
  have hle : e.gasLimit * effectiveGasPrice e ≤ e.gasLimit * e.gasPrice := Nat.mul_le_mul (Nat.le_refl _) heff
  have hdx := Proofs.TxGas.deduct_exact e o.deducted hd hmul (by
    intro hcan f hf
    have : blobFee e = f := by unfold blobFee; rw [if_pos hcan, hf]; rfl
    omega)
  have hded : o.deducted = e.gasLimit * effectiveGasPrice e + blobFee e := hdx
  rw [← hu, ← hrf] at hsplit
  rw [← hre, ← hrf] at hpr
  have hcomm : e.gasLimit * effectiveGasPrice e = effectiveGasPrice e * e.gasLimit := Nat.mul_comm _ _
  have hsum : o.deducted = o.reimbursed + (effectiveGasPrice e * o.gasUsed + blobFee e) := by
    rw [hded, hpr, hcomm, hsplit]; omega
  refine ⟨hded, by omega, hpr, hsum, by omega, ?_⟩
  intro cb rw
  have hs2 : U256.saturatingAdd (deductCaller bal o.deducted) o.reimbursed = bal - o.deducted + o.reimbursed := by
    unfold U256.saturatingAdd deductCaller U256.saturatingSub
    rw [if_pos (by omega)]
  show U256.saturatingAdd (deductCaller bal o.deducted) o.reimbursed = _
  rw [hs2]; omega

/-- AN ENABLED BENEFICIARY RECEIVES exactly `(effective price − base fee) · gas used` from London and
`effective price · gas used` before, without 256-bit wrap; its balance grows by exactly that unless it
would exceed 2^256 − 1 (then `saturating_add` clamps); a disabled reward handle leaves it unchanged -/
theorem beneficiary_gets (e : Env) (i fl k : Nat) (fr : FrameRes) (h : Admissible e i fl fr)
    (hmul : e.gasLimit * e.gasPrice < W) (o : Out) (hp : pipeline e fl k fr = some o) :
    o.reward =
      (if enabled e.spec LONDON = true then effectiveGasPrice e - e.basefee else effectiveGasPrice e) * o.gasUsed ∧
    (∀ bal cb, cb + o.reward < W → (balances o bal cb false true).2 = cb + o.reward) ∧
    (∀ bal cb, W ≤ cb + o.reward → (balances o bal cb false true).2 = W - 1) ∧
    (∀ bal cb, (balances o bal cb false false).2 = cb) := by
  have hL := h.gasLimit_u64
  obtain ⟨_, hg, hu, _, _, hrw⟩ := Proofs.TxGas.pipeline_some e fl k fr o hp
  have s : Settled e o.gas := by rw [hg]; exact Proofs.TxGas.settled_final e fl k fr hL h.rem_le h.floor_le
  obtain ⟨_, hrew, _⟩ := Proofs.TxGas.payments_exact e o.gas hL s hmul
  refine ⟨?_, ?_, ?_, ?_⟩
  · rw [hrw, hrew, hu, Proofs.TxGas.coinbasePrice_eq]
  · intro bal cb hlt
    show U256.saturatingAdd cb o.reward = _
    unfold U256.saturatingAdd; rw [if_pos hlt]
  · intro bal cb hge
    show U256.saturatingAdd cb o.reward = _
    unfold U256.saturatingAdd; rw [if_neg (by omega)]
  · intro bal cb; rfl

/-- the beneficiary is the sender itself: its balance ends at `balance − fee + reward`, again without
saturation -/
theorem sender_is_beneficiary (e : Env) (i fl k : Nat) (fr : FrameRes) (h : Admissible e i fl fr)
    (t : TxShape) (bal : Nat) (hbal : bal < W)
    (hv : validateEnv e t = none) (hs : validateAgainstState e bal = none)
    (o : Out) (hp : pipeline e fl k fr = some o) :
    o.reward ≤ effectiveGasPrice e * o.gasUsed ∧
    ∀ cb, (balances o bal cb true true).1 = bal - (effectiveGasPrice e * o.gasUsed + blobFee e) + o.reward ∧
      (balances o bal cb true true).2 = (balances o bal cb true true).1 := by
  obtain ⟨hmul, _, _, _⟩ := validated_facts e t bal hv hs
  obtain ⟨hded, hle, hre, hsum, hdiff, hb⟩ := sender_pays e i fl k fr h t bal hbal hv hs o hp
  have hrw := (beneficiary_gets e i fl k fr h hmul o hp).1
  have hcp : (if enabled e.spec LONDON = true then effectiveGasPrice e - e.basefee else effectiveGasPrice e)
      ≤ effectiveGasPrice e := by split <;> omega
  have hr : o.reward ≤ effectiveGasPrice e * o.gasUsed := by
    rw [hrw]; exact Nat.mul_le_mul hcp (Nat.le_refl _)
  refine ⟨hr, fun cb => ⟨?_, rfl⟩⟩
  have h2 := hb cb true
  have hs2 : (balances o bal cb false true).1 = U256.saturatingAdd (deductCaller bal o.deducted) o.reimbursed := rfl
  show U256.saturatingAdd (U256.saturatingAdd (deductCaller bal o.deducted) o.reimbursed) o.reward = _
  rw [← hs2, h2]
  unfold U256.saturatingAdd
  rw [if_pos (by omega)]

/-- London onwards, validated: what the sender pays is what the beneficiary gets plus the burnt base
fee plus the blob fee -/
theorem fee_split (e : Env) (i fl k : Nat) (fr : FrameRes) (h : Admissible e i fl fr)
    (t : TxShape) (bal : Nat) (hbal : bal < W)
    (hv : validateEnv e t = none) (hs : validateAgainstState e bal = none)
    (hl : enabled e.spec LONDON = true) (o : Out) (hp : pipeline e fl k fr = some o) :
    o.deducted - o.reimbursed = o.reward + e.basefee * o.gasUsed + blobFee e := by
  obtain ⟨hmul, _, hbf, _⟩ := validated_facts e t bal hv hs
  have hsp := (sender_pays e i fl k fr h t bal hbal hv hs o hp).2.2.2.2.1
  have hbg := (beneficiary_gets e i fl k fr h hmul o hp).1
  rw [if_pos hl] at hbg
  have hle := hbf hl
  have : effectiveGasPrice e * o.gasUsed =
      (effectiveGasPrice e - e.basefee) * o.gasUsed + e.basefee * o.gasUsed := by
    rw [← Nat.add_mul]; congr 1; omega
  rw [hsp, hbg, this]

example : Admissible sampleEnv 21000 0 sampleFrame ∧ validateEnv sampleEnv sampleShape = none ∧
    validateAgainstState sampleEnv 6000000 = none ∧ effectiveGasPrice sampleEnv = 9 ∧
    (pipeline sampleEnv 0 0 sampleFrame).map (fun o => (o.deducted - o.reimbursed, o.reward, balances o 6000000 5 false true)) =
      some (504000, 112000, (5496000, 112005)) := by decide

/-- exactly when the 256-bit wrapping multiplication of `reimburse_caller` is harmless -/
theorem reimburse_exact_iff (e : Env) (g : Gas) :
    reimburseAmount e g = effectiveGasPrice e * U64ops.wadd g.remaining (i64AsU64 g.refunded) ↔
      effectiveGasPrice e * U64ops.wadd g.remaining (i64AsU64 g.refunded) < W := by
  have hW := W_val
  unfold reimburseAmount U256.wmul
  exact Nat.mod_eq_iff_lt (by omega)

/-- where it bites (only without validation, e.g. balance check disabled): price 2^255, 4 gas all
handed back: `effective_gas_price * 4` wraps to 0 and the sender is reimbursed nothing, after
`deduct_caller` charged the saturated 2^256 − 1 -/
theorem reimburse_wrap_counterexample :
    let e : Env := { sampleEnv with gasLimit := 4, gasPrice := 2^255, priorityFee := none }
    ¬ (e.gasLimit * e.gasPrice < W) ∧ reimburseAmount e { limit := 4, remaining := 4, refunded := 0 } = 0 ∧
    deductAmount e = some (W - 1) := by
  decide

/-! ## from the validated transaction to the hypotheses -/

/-- a transaction that passes the model's validation with the initial gas computed by
`calculate_initial_tx_gas` (Model.GasCalc, C14), and a first frame that respects its gas limit,
satisfy `Admissible` -/
theorem validated_admissible (e : Env) (t : TxShape) (input : List Nat) (i fl bal : Nat) (fr : FrameRes)
    (hL : e.gasLimit < U64)
    (hcalc : Revm.Model.GasCalc.calculateInitialTxGas e.spec input t.isCreate t.accessList (t.authLen.getD 0) = some (i, fl))
    (hv : validate e t i fl bal = none)
    (hframe : fr.gas.remaining ≤ frameGasLimit e i) :
    Admissible e i fl fr ∧ frameGasLimit e i = e.gasLimit - i := by
  obtain ⟨_, h2, _⟩ := Proofs.TxGas.validate_none e t i fl bal hv
  obtain ⟨hi, hf⟩ := Proofs.TxGas.validateInitialGas_none e i fl h2
  have hfg : frameGasLimit e i = e.gasLimit - i := Proofs.Gas.wsub_of_le _ _ hL hi
  refine ⟨⟨hL, hi, ?_, by rw [← hfg]; exact hframe⟩, hfg⟩
  by_cases hp : enabled e.spec PRAGUE = true
  · exact hf hp
  · have : fl = 0 := Proofs.TxGas.floor_pre_prague e.spec input t.isCreate t.accessList _ i fl hcalc (by simpa using hp)
    omega

example : Revm.Model.GasCalc.calculateInitialTxGas 12 [] false [] 0 = some (21000, 0) ∧
    validate sampleEnv sampleShape 21000 0 6000000 = none ∧
    sampleFrame.gas.remaining ≤ frameGasLimit sampleEnv 21000 := by decide

end Revm.Props.C09
