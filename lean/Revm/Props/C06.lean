import Revm.Spec.JournalAbs
/-! C06 — reverting to a checkpoint restores exactly the state at that checkpoint. (work in progress:
first theorems; the refinement proof is being built in Revm.Proofs.Journal) -/
namespace Revm.Props.C06
open Revm Revm.Model.Journal Revm.Spec.JournalAbs

theorem eqv_refl (x : AbsAcct) : x.eqv x := ⟨rfl, rfl, rfl, rfl, rfl, rfl, rfl, rfl, fun _ => rfl⟩

/-- committing keeps every change: the observable state is untouched by `checkpoint_commit` -/
theorem commit_keeps (db : Db) (s : JState) : AbsEq db (commit s) s :=
  ⟨fun a => eqv_refl _, fun _ _ => rfl, rfl⟩

/-- taking a checkpoint changes nothing observable -/
theorem checkpoint_keeps (db : Db) (s : JState) : AbsEq db (checkpoint s).1 s :=
  ⟨fun a => eqv_refl _, fun _ _ => rfl, rfl⟩

end Revm.Props.C06
