import Revm.Spec.JournalAbs
import Revm.Proofs.JournalInv
import Revm.Proofs.JournalRefs
/-! C06 — reverting to a checkpoint restores exactly the state at that checkpoint.

`Model/Journal.lean` is the code-shaped model of `JournaledState` (every operation, every `JournalEntry`
undo, `unwrap` panics explicit); `Spec/JournalAbs.lean` says what is observable (`absAcct`, `AbsEq`: balances,
nonces, code hash, storage original/present values, transient storage, logs, created / selfdestructed /
touched / not-existing marks, warm/cold status of accounts and slots, with absent map entries read as the
database says and cold unless tx-level pre-warmed) and what a history is (`Op`, `step`, `run`).

Conditions of the statement, all explicit:
* `WF`: balances are 256-bit words (a `U256` in the Rust); for the total form `JRefs`: the journal refers only to
  accounts / slots present in the state map (true of a fresh `JournaledState`, preserved by every operation);
* `DbOk`: the database's `has_storage` answer is faithful (EIP-7610);
* `admissible`: `set_code` only on an account with empty code, `create_account_checkpoint` only on a target
  not yet marked created, with the faithful `has_storage` answer and a funded caller,
  `initial_account_load` (transaction-level pre-warming, deliberately not journaled) not after the checkpoint,
  and only checkpoints younger than the one under consideration are reverted in between;
* one consensus exception built into `absAcct`: the touched mark of 0x03 from Spurious Dragon on (DESIGN §8). -/
namespace Revm.Props.C06
open Revm Revm.Model.Journal Revm.Spec.JournalAbs

theorem eqv_refl (x : AbsAcct) : x.eqv x := ⟨rfl, rfl, rfl, rfl, rfl, rfl, rfl, rfl, fun _ => rfl⟩

/-- committing keeps every change: the observable state is untouched by `checkpoint_commit` -/
theorem commit_keeps (db : Db) (s : JState) : AbsEq db (commit s) s :=
  ⟨fun _ => eqv_refl _, fun _ _ => rfl, rfl⟩

/-- taking a checkpoint changes nothing observable -/
theorem checkpoint_keeps (db : Db) (s : JState) : AbsEq db (checkpoint s).1 s :=
  ⟨fun _ => eqv_refl _, fun _ _ => rfl, rfl⟩

/-- **Revert restores.** `rpre` is any well-formed state; `op` (a `checkpoint`, or a
`create_account_checkpoint` that succeeds) hands out the checkpoint `cp`; `ops` is ANY admissible history
after it — loads, transfers, nonce / code / storage / transient writes, logs, selfdestructs, creations,
nested checkpoints that are committed or reverted; then `checkpoint_revert cp` (if it does not panic)
yields a state observably equal to `rpre`: balances, nonces, code, storage, transient storage, logs,
touched / created / destroyed marks and warm/cold status (pre-warmed entries stay warm: `absAcct`
reads them from `preloaded`). -/
theorem revert_restores (db : Db) (hasStorage : Addr → Bool) (rpre r0 r : Run) (op : Op) (cp : Checkpoint)
    (ops : List Op) (s' : JState)
    (hdb : DbOk db hasStorage) (hwf : WF db rpre.js)
    (hadm0 : admissible db hasStorage 0 rpre op = true)
    (hstep : step db rpre op = some r0) (hcp : r0.cps = rpre.cps ++ [cp])
    (hadm : admissibleRun db hasStorage (rpre.cps.length + 1) r0 ops = true)
    (hrun : run db r0 ops = some r)
    (hrev : revert r.js cp = some s') : AbsEq db s' rpre.js :=
  Proofs.Journal.revert_restores_core hdb hwf hadm0 hstep hcp hadm hrun hrev

/-- **Revert restores, and never panics.** The same with the last hypothesis discharged: when the journal of the
starting state is non-empty and refers only to accounts / slots present in the state map (`JRefs`; true of
`JournaledState::new`, preserved by every operation), then after ANY admissible history the revert of the
checkpoint does not hit an `unwrap` on a vacant entry, and it restores the observable state. -/
theorem revert_restores_total (db : Db) (hasStorage : Addr → Bool) (rpre r0 r : Run) (op : Op) (cp : Checkpoint)
    (ops : List Op)
    (hdb : DbOk db hasStorage) (hwf : WF db rpre.js) (hrefs : JRefs rpre.js) (hne : rpre.js.journal ≠ [])
    (hadm0 : admissible db hasStorage 0 rpre op = true)
    (hstep : step db rpre op = some r0) (hcp : r0.cps = rpre.cps ++ [cp])
    (hadm : admissibleRun db hasStorage (rpre.cps.length + 1) r0 ops = true)
    (hrun : run db r0 ops = some r) :
    ∃ s', revert r.js cp = some s' ∧ AbsEq db s' rpre.js :=
  Proofs.Journal.revert_restores_total hdb hwf hrefs hne hadm0 hstep hcp hadm hrun

/-- a fresh `JournaledState` satisfies the journal well-formedness -/
theorem jrefs_new (spec : Nat) (pre : Addr → Bool) :
    JRefs (JState.new spec pre) ∧ (JState.new spec pre).journal ≠ [] :=
  ⟨JRefs.new spec pre, by simp [JState.new]⟩

/-- the same through the history interface: the checkpoint is still at its index after any history,
and the `revert i` step restores the state -/
theorem revert_restores_by_index (db : Db) (hasStorage : Addr → Bool) (rpre r0 r r' : Run) (op : Op)
    (cp : Checkpoint) (ops : List Op)
    (hdb : DbOk db hasStorage) (hwf : WF db rpre.js)
    (hadm0 : admissible db hasStorage 0 rpre op = true)
    (hstep : step db rpre op = some r0) (hcp : r0.cps = rpre.cps ++ [cp])
    (hadm : admissibleRun db hasStorage (rpre.cps.length + 1) r0 ops = true)
    (hrun : run db r0 ops = some r)
    (hrev : step db r (.revert rpre.cps.length) = some r') :
    r.cps[rpre.cps.length]? = some cp ∧ AbsEq db r'.js rpre.js := by
  obtain ⟨t, ht⟩ := Proofs.Journal.run_cps_prefix (db := db) ops hrun
  have hi : r.cps[rpre.cps.length]? = some cp := by rw [ht, hcp]; simp
  refine ⟨hi, ?_⟩
  simp only [step, hi, Option.map_eq_some_iff] at hrev
  obtain ⟨js', h1, rfl⟩ := hrev
  exact revert_restores db hasStorage rpre r0 r op cp ops js' hdb hwf hadm0 hstep hcp hadm hrun h1

/-- **A revert of an outer checkpoint also undoes committed inner ones.** Between the outer checkpoint and
its revert an inner checkpoint is taken, any admissible `inner` history runs, the inner checkpoint is
committed, any admissible `after` history runs: the outer revert still restores the outer state. -/
theorem outer_revert_undoes_inner_commit (db : Db) (hasStorage : Addr → Bool) (rpre r0 r : Run) (cp : Checkpoint)
    (before inner after : List Op) (s' : JState)
    (hdb : DbOk db hasStorage) (hwf : WF db rpre.js)
    (hstep : step db rpre .checkpoint = some r0) (hcp : r0.cps = rpre.cps ++ [cp])
    (hadm : admissibleRun db hasStorage (rpre.cps.length + 1) r0
      (before ++ [.checkpoint] ++ inner ++ [.commit] ++ after) = true)
    (hrun : run db r0 (before ++ [.checkpoint] ++ inner ++ [.commit] ++ after) = some r)
    (hrev : revert r.js cp = some s') : AbsEq db s' rpre.js :=
  revert_restores db hasStorage rpre r0 r .checkpoint cp _ s' hdb hwf rfl hstep hcp hadm hrun hrev

/-! ### the hypotheses are satisfiable: a concrete history with a committed inner checkpoint, a reverted
inner checkpoint, a creation, storage, transient storage and logs -/
section example_

def exDb : Db :=
  { basic := fun a => if a = 1 then some { balance := 1000, nonce := 7, codeHash := KECCAK_EMPTY, code := none }
                      else if a = 2 then some { balance := 5, nonce := 0, codeHash := 0x1234, code := none } else none
    storage := fun a k => if a = 2 ∧ k = 0 then 9 else 0
    delegate := fun _ => none }
def exHs : Addr → Bool := fun a => a = 2
def exPre : Run := { js := JState.new 17 (fun a => a = 9), cps := [] }
def exR0 : Run := { js := (checkpoint exPre.js).1, cps := [(checkpoint exPre.js).2] }
def exOps : List Op :=
  [.load 1, .load 2, .load 5, .transfer 1 2 30, .sload 2 0, .sstore 2 0 4, .tstore 2 1 8, .log 3,
   .checkpoint, .incNonce 1, .sstore 2 1 6, .create 1 5 false 10 17, .sload 5 3, .commit, .commit,
   .checkpoint, .selfdestruct 2 1, .log 4, .revert 3, .touch 3, .loadDelegated 9]

theorem exDb_ok : DbOk exDb exHs := by
  intro a h k; simp [exHs] at h; simp [exDb, h]

theorem exWF : WF exDb exPre.js := by
  intro a; simp only [absAcct, exPre, JState.new, exDb]
  by_cases h1 : a = 1
  · simp [h1]; rw [W_val]; decide
  · by_cases h2 : a = 2
    · simp [h2]; rw [W_val]; decide
    · simp [h1, h2, Info.default]; rw [W_val]; decide

theorem exAdm : admissibleRun exDb exHs 1 exR0 exOps = true := by decide
theorem exRun : (run exDb exR0 exOps).isSome = true := by decide

def exR : Run := (run exDb exR0 exOps).get exRun
theorem exRev : (revert exR.js (checkpoint exPre.js).2).isSome = true := by decide
def exS' : JState := (revert exR.js (checkpoint exPre.js).2).get exRev

/-- before the outer revert the history is visible (balance moved, storage written, inner checkpoint
committed, account 5 created): -/
theorem exVisible : (absAcct exDb exR.js 2).balance = 35 ∧ ((absAcct exDb exR.js 2).slot 0).present = 4 ∧
    (absAcct exDb exR.js 5).created = true ∧ (absAcct exDb exR.js 1).nonce = 8 ∧ exR.js.logs = [3] ∧
    tload exR.js 2 1 = 8 := by decide

/-- every hypothesis of `revert_restores` holds here, so the outer revert restores the initial state -/
example : AbsEq exDb exS' exPre.js :=
  revert_restores exDb exHs exPre exR0 exR .checkpoint (checkpoint exPre.js).2 exOps exS' exDb_ok exWF rfl rfl rfl
    exAdm (Option.some_get exRun).symm (Option.some_get exRev).symm

/-- the total form applies to the same history: the revert is not assumed to succeed -/
example : ∃ s', revert exR.js (checkpoint exPre.js).2 = some s' ∧ AbsEq exDb s' exPre.js :=
  revert_restores_total exDb exHs exPre exR0 exR .checkpoint (checkpoint exPre.js).2 exOps exDb_ok exWF
    (jrefs_new _ _).1 (jrefs_new _ _).2 rfl rfl rfl exAdm (Option.some_get exRun).symm

end example_

end Revm.Props.C06
