import Revm.Proofs.Stack
/-! C12 — the EVM stack is a bounded LIFO of 1024 256-bit words.

`Model.Stack` is the `Vec<U256>` of `interpreter/stack.rs` with the Rust's index arithmetic (index 0 =
bottom, last element = top); `Spec.Stack` is a list whose head is the top, with limit 1024.
`abs` reads the buffer from its end. Statements only; proofs live in `Revm.Proofs.Stack`.

Preconditions. `Op.pre` is the documented contract of the API: `dup n` needs `n > 0`, `swap n` /
`exchange n m` need `m > 0` (`assume!` in the Rust: a panic in debug builds, `unreachable_unchecked`
in release builds) and `n + m` must not wrap in `usize`. The opcode handlers of
`instructions/stack.rs` always satisfy it (`instr_args_pre`). `d.length ≤ 1024` is the invariant
itself (`len_le_1024`), it holds for `Stack::new()`.

Reading of "the last word right-padded with zeros" (DESIGN §8): numerically `push_slice` zero-EXTENDS
the short last chunk (`push_slice(&[0x2a])` pushes 42, as PUSH1 must and as the repo's unit test
asserts); the zeros are the trailing `u64` limbs of the word in ruint's little-endian limb array.
`push_slice_words` states the values exactly as the code produces them, and
`push_slice_not_byte_right_padded_counterexample` records that the byte-level reading of the sentence
(value of `chunk ++ zeros`) is not what the code does. -/
namespace Revm.Props.C12
open Revm Revm.Model.Stack
open Revm.Proofs.Stack (abs)

/-! ## every operation is the bounded-LIFO operation -/

/-- each of push, push_b256, pop, peek, dup, swap, exchange, set, push_slice, and the `pop!` /
`pop_top!` macros over the `pop_unsafe` family (length check, then `pop<k>_unsafe` /
`pop<k-1>_top_unsafe` and a store through the returned `&mut` top), run on the buffer `d`, returns
the Spec's result and leaves the buffer that reads (top first) as the Spec's new list -/
theorem step_refines (d : List Nat) (op : Op) (hd : d.length ≤ STACK_LIMIT) (hp : op.pre) :
    abs (step d op) = Spec.Stack.step d.reverse op := Proofs.Stack.step_refines d op hd hp
example : ([5, 6, 7] : List Nat).length ≤ STACK_LIMIT ∧ (Op.exchange 0 2).pre := by
  refine ⟨by decide, by decide, ?_⟩; rw [U64_val]; omega

/-- the same for any sequence of calls from any stack within the limit (in particular from
`Stack::new()`): same final stack, same list of results -/
theorem run_refines (d : List Nat) (ops : List Op) (hd : d.length ≤ STACK_LIMIT) (hp : ∀ op ∈ ops, op.pre) :
    ((run d ops).1.reverse, (run d ops).2) = Spec.Stack.run d.reverse ops :=
  Proofs.Stack.run_refines ops d hd hp
example : (new).length ≤ STACK_LIMIT ∧ ∀ op ∈ [Op.push 1, Op.dup 1, Op.pop, Op.pushSlice [1, 2]], op.pre := by
  refine ⟨by decide, ?_⟩; intro op h; simp at h; rcases h with rfl | rfl | rfl | rfl <;> simp [Op.pre]

/-! ## errors -/

/-- an operation that reports StackOverflow / StackUnderflow leaves the stack unchanged
(no hypothesis: any buffer, any arguments) -/
theorem error_leaves_unchanged (d : List Nat) (op : Op) (e : Err) (h : (step d op).2 = .err e) :
    (step d op).1 = d :=
  Proofs.Stack.step_fail_unchanged d op (by rw [h]; rfl)
example : (step [1] (.dup 2)).2 = .err .StackUnderflow := by decide
example : (step [] .pop).2 = .err .StackUnderflow := by decide

/-- more generally, anything that is not a success (error, or outside the preconditions the
model's `panic` / `ub`) leaves it unchanged -/
theorem failure_leaves_unchanged (d : List Nat) (op : Op) (h : (step d op).2.failed = true) :
    (step d op).1 = d := Proofs.Stack.step_fail_unchanged d op h
example : (step [1, 2] (.popN 3)).2.failed = true := by decide

/-- with the preconditions, the bounds-checked indexing never panics and the raw-pointer copies of
`dup` / `exchange` / `push_slice` stay inside the initialised part of the buffer -/
theorem no_panic_no_ub (d : List Nat) (ops : List Op) (hd : d.length ≤ STACK_LIMIT)
    (hp : ∀ op ∈ ops, op.pre) : ∀ o ∈ (run d ops).2, o ≠ .panic ∧ o ≠ .ub :=
  Proofs.Stack.run_no_panic_ub ops d hd hp

/-- the opcode handlers (`pop`, `push0`, `push<N>`, `dup<N>`, `swap<N>`, `dupn`, `swapn`, `exchange`)
only make calls that satisfy the preconditions -/
theorem instr_args_pre (opcode : Nat) (imm : List Nat) (op : Op) (hi : ∀ b ∈ imm, b < 256)
    (h : instrOp opcode imm = some op) : op.pre := Proofs.Stack.instrOp_pre opcode imm op hi h
example : instrOp 0xe8 [0x2f] = some (.exchange 3 16) := by decide

/-! ## the bound -/

/-- after any sequence of calls the stack holds at most 1024 words -/
theorem len_le_1024 (d : List Nat) (ops : List Op) (hd : d.length ≤ STACK_LIMIT) (hp : ∀ op ∈ ops, op.pre) :
    (run d ops).1.length ≤ 1024 := Proofs.Stack.run_len_le ops d hd hp

theorem len_le_1024_from_new (ops : List Op) (hp : ∀ op ∈ ops, op.pre) :
    (run new ops).1.length ≤ 1024 := Proofs.Stack.run_len_le ops new (by decide) hp

/-- and every word on it is a 256-bit word, when the pushed payloads are -/
theorem words_lt_W (d : List Nat) (ops : List Op) (hd : d.length ≤ STACK_LIMIT) (hw : ∀ w ∈ d, w < W)
    (hp : ∀ op ∈ ops, op.pre ∧ op.wf) : ∀ w ∈ (run d ops).1, w < W :=
  Proofs.Stack.run_words_lt ops d hd hw hp
example : (Op.pushSlice [255, 0, 1]).pre ∧ (Op.pushSlice [255, 0, 1]).wf := by
  refine ⟨trivial, ?_⟩; intro b h; simp at h; omega

/-! ## last in, first out (stated on the code-shaped model itself) -/

theorem pop_push (d : List Nat) (v : Nat) (h : d.length < STACK_LIMIT) :
    pop (push d v).1 = (d, .ok v) := Proofs.Stack.pop_push d v h
theorem peek_push (d : List Nat) (v : Nat) (h : d.length < STACK_LIMIT) :
    peek (push d v).1 0 = ((push d v).1, .ok v) := Proofs.Stack.peek_push d v h
theorem push_pop (d : List Nat) (v : Nat) (hd : d.length ≤ STACK_LIMIT) (h : (pop d).2 = .ok v) :
    push (pop d).1 v = (d, .ok ()) := Proofs.Stack.push_pop d v hd h
example : (pop [3, 4]).2 = .ok 4 := by decide

/-- the unchecked pops behind `pop!` with `k` names, whenever the macro's length check passed: the
`k` top words, first popped first, and the rest of the buffer -/
theorem pop_unchecked_family (d : List Nat) (k : Nat) (h : k ≤ d.length) :
    popNUnsafe k d = ((d.reverse.drop k).reverse, .ok (d.reverse.take k)) := by
  have := Proofs.Stack.popNUnsafe_rev k d.reverse (by simpa using h)
  rwa [List.reverse_reverse] at this
example : popNUnsafe 2 [1, 2, 3] = ([1], .ok [3, 2]) := by decide

/-! ## push_slice -/

/-- `push_slice` is all-or-nothing; on success it appends one word per 32-byte chunk, in order (the
first chunk deepest, the last chunk on top), each word being the big-endian value
`Σ bᵢ·256^(k-1-i)` of its `k ≤ 32` bytes — for the short last chunk that is a zero-extension
(left-padding as bytes), see the header. The limb-level writes of the Rust (`rchunks_exact(8)`,
`tmp`, `write_bytes(0, 4 - m)`) are in `Model.Stack.pushSlice`; this is their closed form. -/
theorem push_slice_words (d bs : List Nat) (hd : d.length ≤ STACK_LIMIT) :
    pushSlice d bs =
      if d.length + Spec.Stack.ceil32 bs.length > STACK_LIMIT then (d, .err .StackOverflow)
      else (d ++ (Spec.Stack.chunks32 bs).map Spec.Stack.beNat, .ok ()) :=
  Proofs.Stack.pushSlice_eq d bs hd

/-- it pushes `⌈len / 32⌉` words -/
theorem push_slice_count (bs : List Nat) :
    (Spec.Stack.chunks32 bs).length = (bs.length + 31) / 32 := Proofs.Stack.chunks32_length _ bs rfl

/-- the `i`-th pushed word comes from bytes `32 i ..< min (32 i + 32) len` -/
theorem push_slice_chunk (bs : List Nat) (i : Nat) :
    (Spec.Stack.chunks32 bs)[i]? =
      if 32 * i < bs.length then some ((bs.drop (32 * i)).take 32) else none :=
  Proofs.Stack.chunks32_get i bs

/-- overflow is reported iff `len + ⌈n / 32⌉ > 1024` -/
theorem push_slice_overflow_iff (d bs : List Nat) (hd : d.length ≤ STACK_LIMIT) :
    (pushSlice d bs).2 = .err .StackOverflow ↔ d.length + (bs.length + 31) / 32 > 1024 :=
  Proofs.Stack.pushSlice_overflow_iff d bs hd

/-- concrete values: a 1-byte slice, and a 33-byte slice (one full word, then a 1-byte chunk) -/
theorem push_slice_short_chunk_zero_extended :
    pushSlice [] [0x2a] = ([42], .ok ()) ∧
    pushSlice [7] (List.replicate 31 0 ++ [1] ++ [0xab]) = ([7, 1, 0xab], .ok ()) :=
  ⟨Proofs.Stack.pushSlice_2a, Proofs.Stack.pushSlice_33⟩

/-- the byte-level reading of "last word right-padded with zeros" (the value of the 32 bytes
`chunk ++ 0…0`, here `0x2a·256^31`) is NOT what `push_slice` pushes. This is the wording issue of
DESIGN §8, not a defect: the Ethereum specification requires PUSH1 0x2a to push 42. -/
theorem push_slice_not_byte_right_padded_counterexample :
    (pushSlice [] [0x2a]).1 ≠ [Spec.Stack.beNat ([0x2a] ++ List.replicate 31 0)] := by
  rw [Proofs.Stack.pushSlice_2a]; decide

end Revm.Props.C12
