import Revm.Proofs.SelfdestructNotify
import Revm.Proofs.InspectorHooks
/-! C30 — self-destruct notifications.

"Every SELFDESTRUCT that completes is reported to the inspector exactly once, naming the executing
contract, the beneficiary popped from the stack, and the balance that left the contract; no self-destruct
notification is emitted for any other event."

`Model.SelfdestructNotify.wrapped` is the SELFDESTRUCT entry of the inspector's instruction table as
repaired by /repo commit 93c09012: remember the length of the innermost journal level, run the
(step-wrapped) instruction `instructions::host::selfdestruct` over `Model.Journal.selfdestruct`, and only
if `instruction_result == SelfDestruct` report the newest `AccountDestroyed` / `BalanceTransfer` among the
entries appended since, or `(contract, contract, 0)` when there is none. All theorems are for ALL
databases, journal states (any accounts, any earlier entries on any level), stacks, gas values and forks.

"Completes" = the instruction ends with `InstructionResult::SelfDestruct` (not: static call, empty
stack, failing database, out of gas — the latter AFTER the balance moved; the frame then reverts).
"The balance that left the contract" = its balance before minus its balance after in the journal:
the whole balance, except after Cancun for a contract not created in this transaction that names itself
(nothing moves, reported value 0). "Exactly once": `wrapped` yields at most one callback per dispatched
SELFDESTRUCT by construction and `selfdestruct_notified_once` shows it yields one; that no other opcode or
event produces the callback is `selfdestruct_callbacks_exact` (over the hooks machine of C29).

Assumptions: the executing contract is in the journal (`s.state contract = some _`; revm loads it before
any of its code runs); the inspector's own `step`/`step_end` leave `interp.instruction_result` alone for
the positive statement (an inspector that writes `SelfDestruct` there itself would cause a callback;
`no_spurious_notification` and `notified_iff_result` hold for every inspector). The former wrapper logic
is kept as `wrappedOld`; the `_regression` theorems exhibit histories on which it reports wrongly. -/
namespace Revm.Props.C30
open Revm Revm.Model.Journal Revm.Model.SelfdestructNotify Revm.Proofs.SelfdestructNotify
open Revm.Model.InspectorHooks Revm.Spec.InspectorHooks

/-- a completed SELFDESTRUCT is reported, with the executing contract, the address popped from the stack
and the balance that left the contract -/
theorem selfdestruct_notified_once (db : Db) (dbFails : Bool) (it it' : Interp) (s s' : JState)
    (n : Option (Addr × Addr × Nat)) (acc : Acct)
    (hc : it.result = .continue_)
    (hrun : wrapped db dbFails {} it s = some (it', s', n))
    (hloaded : s.state it.contract = some acc)
    (hdone : it'.result = .selfDestruct) :
    ∃ top rest, it.stack = top :: rest ∧
      n = some (it.contract, top % ADDR, movedValue acc s.spec it.contract (top % ADDR)) := by
  rw [wrapped_observing hc] at hrun
  cases hi : selfdestructInsn db dbFails it s with
  | none => simp [hi] at hrun
  | some p =>
    obtain ⟨it2, s2⟩ := p
    simp only [hi] at hrun
    split at hrun
    · simp at hrun; obtain ⟨rfl, _, _⟩ := hrun; contradiction
    · simp at hrun
      obtain ⟨rfl, rfl, rfl⟩ := hrun
      obtain ⟨top, rest, r, hst, _, hj, _, _⟩ := insn_completed hi hdone
      obtain ⟨es, hext, hfind, _⟩ := selfdestruct_char hj hloaded
      refine ⟨top, rest, hst, ?_⟩
      rw [newEntryNote_of_ext hext, hfind, expectedNote_getD]

/-- the reported value is the balance that left the contract: balance before = balance after + value -/
theorem value_is_balance_that_left (db : Db) (dbFails : Bool) (it it' : Interp) (s s' : JState)
    (a t v : Nat) (acc : Acct)
    (hc : it.result = .continue_)
    (hrun : wrapped db dbFails {} it s = some (it', s', some (a, t, v)))
    (hloaded : s.state it.contract = some acc) :
    a = it.contract ∧ balanceOf s it.contract = balanceOf s' it.contract + v := by
  have hrun0 := hrun
  rw [wrapped_observing hc] at hrun
  cases hi : selfdestructInsn db dbFails it s with
  | none => simp [hi] at hrun
  | some p =>
    obtain ⟨it2, s2⟩ := p
    simp only [hi] at hrun
    split at hrun
    · simp at hrun
    · rename_i hres
      simp at hres
      simp at hrun
      obtain ⟨rfl, rfl, hn⟩ := hrun
      obtain ⟨top, rest, r, hst, _, hj, _, _⟩ := insn_completed hi hres
      obtain ⟨es, hext, hfind, hbal⟩ := selfdestruct_char hj hloaded
      rw [newEntryNote_of_ext hext, hfind, expectedNote_getD] at hn
      simp at hn
      obtain ⟨rfl, rfl, rfl⟩ := hn
      refine ⟨rfl, ?_⟩
      rw [hbal]
      have := moved_add_kept acc s.spec it.contract (top % ADDR)
      simp only [balanceOf, hloaded]
      omega

/-- whatever the inspector does: a callback is made iff the instruction ended with `SelfDestruct` -/
theorem notified_iff_result (db : Db) (dbFails : Bool) (ia : InspAct) (it it' : Interp) (s s' : JState)
    (n : Option (Addr × Addr × Nat)) (hrun : wrapped db dbFails ia it s = some (it', s', n)) :
    n.isSome = true ↔ it'.result = .selfDestruct := by
  unfold wrapped at hrun
  cases hs : stepWrapped db dbFails ia it s with
  | none => simp [hs] at hrun
  | some p =>
    obtain ⟨it2, s2⟩ := p
    simp only [hs] at hrun
    split at hrun
    · rename_i hne
      simp at hrun; obtain ⟨rfl, _, rfl⟩ := hrun
      simp at hne; simp [hne]
    · rename_i hne
      simp at hrun; obtain ⟨rfl, _, rfl⟩ := hrun
      simp at hne; simp [hne]

/-- no notification for a SELFDESTRUCT that does not complete — for every inspector -/
theorem no_spurious_notification (db : Db) (dbFails : Bool) (ia : InspAct) (it it' : Interp) (s s' : JState)
    (n : Option (Addr × Addr × Nat)) (hrun : wrapped db dbFails ia it s = some (it', s', n))
    (hfail : it'.result ≠ .selfDestruct) : n = none := by
  have := notified_iff_result db dbFails ia it it' s s' n hrun
  cases n with
  | none => rfl
  | some x => exact absurd (this.1 rfl) hfail

/-- static call: `StateChangeDuringStaticCall`, nothing changed, nothing reported — whatever entries
(e.g. the `BalanceTransfer` of a value-bearing call) the journal holds -/
theorem static_not_notified (db : Db) (dbFails : Bool) (it : Interp) (s : JState)
    (hc : it.result = .continue_) (hs : it.isStatic = true) :
    wrapped db dbFails {} it s = some ({ it with result := .stateChangeDuringStaticCall }, s, none) := by
  rw [wrapped_observing hc]; simp [selfdestructInsn, hs]

/-- empty stack: `StackUnderflow`, nothing changed, nothing reported -/
theorem underflow_not_notified (db : Db) (dbFails : Bool) (it : Interp) (s : JState)
    (hc : it.result = .continue_) (hs : it.isStatic = false) (hst : it.stack = []) :
    wrapped db dbFails {} it s = some ({ it with result := .stackUnderflow }, s, none) := by
  rw [wrapped_observing hc]; simp [selfdestructInsn, hs, hst]

/-- failing database while loading the target: `FatalExternalError`, nothing changed, nothing reported -/
theorem db_failure_not_notified (db : Db) (it : Interp) (s : JState) (top : Nat) (rest : List Nat)
    (hc : it.result = .continue_) (hs : it.isStatic = false) (hst : it.stack = top :: rest)
    (hnl : s.state (top % ADDR) = none) :
    wrapped db true {} it s = some ({ it with stack := rest, result := .fatalExternalError }, s, none) := by
  rw [wrapped_observing hc]; simp [selfdestructInsn, hs, hst, hnl]

/-- out of gas AFTER the state change: not reported (the frame's revert undoes the change) -/
theorem out_of_gas_not_notified (db : Db) (dbFails : Bool) (ia : InspAct) (it it' : Interp) (s s' : JState)
    (n : Option (Addr × Addr × Nat)) (hrun : wrapped db dbFails ia it s = some (it', s', n))
    (hoog : it'.result = .outOfGas) : n = none :=
  no_spurious_notification db dbFails ia it it' s s' n hrun (by rw [hoog]; decide)

/-- over the whole transaction (hooks machine of C29, all scripts): the `selfdestruct` callbacks are, in
order, exactly the reports of the dispatched SELFDESTRUCT instructions — no other opcode, log, call,
create or frame event produces one -/
theorem selfdestruct_callbacks_exact (b : Stacks) (first : Spawn) (turns : List Turn) :
    sdsOf (runTx b first turns).2.word =
      (turns.take (usedTx b first turns)).flatMap fun t => (turnInsns t).filterMap insnSd := by
  have := Revm.Proofs.InspectorHooks.filterMap_runTx sdProj Revm.Proofs.InspectorHooks.sdProj_free b first turns
  simp only [sdsOf, this]
  congr 1; funext t; exact Revm.Proofs.InspectorHooks.sds_turnEvents t

/-- a dispatched SELFDESTRUCT makes its callback once, after `step_end`; other opcodes make none -/
theorem sd_insn_events (a t v : Nat) :
    insnEvents (.sdOp (some (a, t, v))) = [.step, .stepEnd, .selfdestruct a t v] ∧
    insnEvents (.sdOp none) = [.step, .stepEnd] ∧
    sdsOf (insnEvents .plain) = [] ∧ (∀ p l, sdsOf (insnEvents (.logOp p l)) = []) := by
  refine ⟨rfl, rfl, rfl, ?_⟩
  intro p l
  have := Revm.Proofs.InspectorHooks.sds_postEvents (.logOp p l)
  show List.filterMap sdProj ([Ev.step, Ev.stepEnd] ++ postEvents (.logOp p l)) = []
  rw [List.filterMap_append, this]; rfl

/-! ### witnesses -/

def acct (bal : Nat) (created : Bool := false) : Acct :=
  { info := { balance := bal, nonce := 1, codeHash := 1, code := some 1 }, storage := fun _ => none, created := created }

def noDb : Db := { basic := fun _ => none, storage := fun _ _ => 0, delegate := fun _ => none }

/-- contract 2 (balance 9) was just called by 1 with value 5: the innermost level holds that transfer -/
def sCalled (spec : Nat) (created : Bool := false) : JState :=
  { state := fun x => if x = 2 then some (acct 9 created) else if x = 1 then some (acct 0) else if x = 3 then some (acct 4) else none,
    transient := fun _ _ => none, logs := [], depth := 1,
    journal := [[.balanceTransfer 1 2 5], []], spec := spec, preloaded := fun _ => false }

def itAt (stack : List Nat) (gas : Nat := 100000) (static : Bool := false) : Interp :=
  { isStatic := static, stack := stack, gas := gas, contract := 2 }

/-- projection used to compare runs on states that contain functions -/
def view (r : Option (Interp × JState × Option (Addr × Addr × Nat))) : Option (IRes × Nat × Nat × Option (Addr × Addr × Nat)) :=
  r.map fun x => (x.1.result, balanceOf x.2.1 2, balanceOf x.2.1 3, x.2.2)

/-- REGRESSION (old wrapper, DESIGN §9 #5): SELFDESTRUCT failing with stack underflow right after a
value-bearing call was reported as `(caller, contract, value)`; the repaired wrapper reports nothing -/
theorem old_wrapper_failed_selfdestruct_regression :
    view (wrappedOld noDb false {} (itAt []) (sCalled 12)) = some (.stackUnderflow, 9, 4, some (1, 2, 5)) ∧
    view (wrapped noDb false {} (itAt []) (sCalled 12)) = some (.stackUnderflow, 9, 4, none) := by
  constructor <;> rfl

/-- REGRESSION: the same in a static call -/
theorem old_wrapper_static_regression :
    view (wrappedOld noDb false {} (itAt [3] 100000 true) (sCalled 12)) = some (.stateChangeDuringStaticCall, 9, 4, some (1, 2, 5)) ∧
    view (wrapped noDb false {} (itAt [3] 100000 true) (sCalled 12)) = some (.stateChangeDuringStaticCall, 9, 4, none) := by
  constructor <;> rfl

/-- REGRESSION: out of gas after the balance moved was reported by the old wrapper (with the entry of the
instruction that is about to be reverted); the repaired one reports nothing -/
theorem old_wrapper_out_of_gas_regression :
    view (wrappedOld noDb false {} (itAt [3] 4999) (sCalled 12)) = some (.outOfGas, 0, 13, some (2, 3, 9)) ∧
    view (wrapped noDb false {} (itAt [3] 4999) (sCalled 12)) = some (.outOfGas, 0, 13, none) := by
  constructor <;> rfl

/-- REGRESSION: after Cancun a pre-existing contract naming itself makes no entry; the old wrapper
reported the stale transfer of the call, the repaired one `(contract, contract, 0)` -/
theorem old_wrapper_self_target_regression :
    view (wrappedOld noDb false {} (itAt [2]) (sCalled 17)) = some (.selfDestruct, 9, 4, some (1, 2, 5)) ∧
    view (wrapped noDb false {} (itAt [2]) (sCalled 17)) = some (.selfDestruct, 9, 4, some (2, 2, 0)) := by
  constructor <;> rfl

/-- non-vacuity of `selfdestruct_notified_once` / `value_is_balance_that_left`: completed runs in all four
cases (pre-Cancun other / self, Cancun pre-existing other, Cancun created-in-transaction self) -/
example : view (wrapped noDb false {} (itAt [3]) (sCalled 12)) = some (.selfDestruct, 0, 13, some (2, 3, 9)) := rfl
example : view (wrapped noDb false {} (itAt [2]) (sCalled 12)) = some (.selfDestruct, 0, 4, some (2, 2, 9)) := rfl
example : view (wrapped noDb false {} (itAt [3]) (sCalled 17)) = some (.selfDestruct, 0, 13, some (2, 3, 9)) := rfl
example : view (wrapped noDb false {} (itAt [2]) (sCalled 17 true)) = some (.selfDestruct, 0, 4, some (2, 2, 9)) := rfl
example : (sCalled 17).state (itAt [2]).contract = some (acct 9) := rfl
/-- the popped word is truncated to an address -/
example : view (wrapped noDb false {} (itAt [2 ^ 160 + 3]) (sCalled 12)) = some (.selfDestruct, 0, 13, some (2, 3, 9)) := rfl
/-- a failing database on an unloaded target -/
example : view (wrapped noDb true {} (itAt [7]) (sCalled 12)) = some (.fatalExternalError, 9, 4, none) := rfl

end Revm.Props.C30
