import Revm.Spec.AccessSets
import Revm.Spec.AccessHistory
import Revm.Proofs.AccessPrewarm
/-! C34 — cold/warm accounting.

`Spec/AccessSets.lean` is EIP-2929/2930/3651/7702 as pure sets: an access is cold iff its key is not in the
current set and puts it in; `checkpoint` saves a copy, a reverting frame restores its copy, the
transaction-level pre-warmed set is never forgotten. `Spec/AccessHistory.lean` runs that machine in lockstep
(`lockStep`, `lockRun`) with the code-shaped model of `JournaledState` (`Model/Journal.lean`), under the
checkpoint discipline of the frame machine (`wnStep`) and the admissibility conditions of C06 (`admOp`).

The model's warm/cold flags are `warmSets db js` (an account absent from the state map is warm iff it is in
`warm_preloaded_addresses`, an absent slot is cold). -/
namespace Revm.Props.C34
open Revm Revm.Model.Journal Revm.Spec.JournalAbs Revm.Spec.AccessHistory Revm.Proofs.Access
open Revm.Spec.AccessSets (Access Sets State TxEnv)

/-- **`is_cold` iff not yet accessed.** Start a transaction (`JournaledState::new`), run ANY admissible
well-nested history — loads, transfers, storage, creations, selfdestructs, nested checkpoints committed or
reverted, transaction-level pre-warming first — then perform one more operation that reports `is_cold`
(`load_account`, `load_code`, `load_account_delegated` (two bits), `sload`, `sstore`, `selfdestruct`'s target):
the bits the model reports are exactly those of the access-set machine, i.e. cold ⇔ the address / slot is not
in the accessed set. -/
theorem is_cold_iff (db : Db) (hasStorage : Addr → Bool) (spec : Nat) (pre : Addr → Bool)
    (hdb : DbOk db hasStorage) (hwf : WF db (JState.new spec pre))
    (ops : List Op) (l l' : Lock) (op : Op)
    (hrun : lockRun db hasStorage (Lock.init spec pre) ops = some l)
    (hstep : lockStep db hasStorage l op = some l') (hx : exposes op = true) :
    ∃ r' st' bits, step db l.r op = some r' ∧ specStep db l.r r' l.st op = some (st', bits) ∧
      coldBits db l.r.js op = some bits :=
  (sim_step hdb (sim_run hdb ops (sim_init spec pre hwf) hrun) hstep).2 hx

/-- the same in the words of the property, for accounts: after any history, `load_account a` reports cold
exactly when `a` is not in the accessed-address set -/
theorem load_account_cold_iff (db : Db) (hasStorage : Addr → Bool) (spec : Nat) (pre : Addr → Bool)
    (hdb : DbOk db hasStorage) (hwf : WF db (JState.new spec pre))
    (ops : List Op) (l : Lock) (a : Addr) (js' : JState) (c : Bool)
    (hrun : lockRun db hasStorage (Lock.init spec pre) ops = some l)
    (hload : loadAccount db l.r.js a = some (js', c)) :
    (c = true ↔ l.st.cur.addrs a = false) := by
  have hs := sim_run hdb ops (sim_init spec pre hwf) hrun
  obtain ⟨_, hc, _⟩ := Proofs.Journal.loadAccount_pushes (db := db) hload
  rw [hc, ← hs.rel.1 a]; simp [warmSets]

/-- … and for storage slots: `sload a k` reports cold exactly when `(a, k)` is not in the accessed-slot set -/
theorem sload_cold_iff (db : Db) (hasStorage : Addr → Bool) (spec : Nat) (pre : Addr → Bool)
    (hdb : DbOk db hasStorage) (hwf : WF db (JState.new spec pre))
    (ops : List Op) (l : Lock) (a : Addr) (k v : Nat) (js' : JState) (c : Bool)
    (hrun : lockRun db hasStorage (Lock.init spec pre) ops = some l)
    (hload : sload db l.r.js a k = some (js', v, c)) :
    (c = true ↔ l.st.cur.slots a k = false) := by
  have hs := sim_run hdb ops (sim_init spec pre hwf) hrun
  obtain ⟨_, hc, _⟩ := Proofs.Journal.sload_pushes (db := db) hload
  rw [hc, ← hs.rel.2 a k]; simp [warmSets]

/-- the refinement itself: along every admissible history the model's warm/cold flags ARE the access sets -/
theorem warm_flags_are_access_sets (db : Db) (hasStorage : Addr → Bool) (spec : Nat) (pre : Addr → Bool)
    (hdb : DbOk db hasStorage) (hwf : WF db (JState.new spec pre))
    (ops : List Op) (l : Lock) (hrun : lockRun db hasStorage (Lock.init spec pre) ops = some l) :
    SetsEq (warmSets db l.r.js) l.st.cur :=
  (sim_run hdb ops (sim_init spec pre hwf) hrun).rel

/-- **Transaction-level pre-warming is never forgotten**: whatever is in the pre-warmed set — the
`warm_preloaded_addresses` the transaction started with and every address and slot given to
`initial_account_load` — is warm after any admissible history, through any number of reverts (also through
the revert of an account creation at a pre-warmed address). -/
theorem prewarmed_never_forgotten (db : Db) (hasStorage : Addr → Bool) (spec : Nat) (pre : Addr → Bool)
    (hdb : DbOk db hasStorage) (hwf : WF db (JState.new spec pre))
    (ops : List Op) (l : Lock) (hrun : lockRun db hasStorage (Lock.init spec pre) ops = some l) :
    (∀ a, pre a = true → (warmSets db l.r.js).addrs a = true) ∧
    (∀ ops1 ops2 a ks, ops = ops1 ++ Op.initLoad a ks :: ops2 →
      (warmSets db l.r.js).addrs a = true ∧ ∀ k, k ∈ ks → (warmSets db l.r.js).slots a k = true) := by
  have hs := sim_run hdb ops (sim_init spec pre hwf) hrun
  have hle : SetsLe l.st.pre (warmSets db l.r.js) :=
    ⟨fun a h => by rw [hs.rel.1 a]; exact hs.preCur.1 a h, fun a k h => by rw [hs.rel.2 a k]; exact hs.preCur.2 a k h⟩
  refine ⟨fun a ha => hle.1 a ((lockRun_pre_mono ops hrun).1 a ha), ?_⟩
  intro ops1 ops2 a ks hops
  subst hops
  obtain ⟨l1, _, h2⟩ := lockRun_append _ _ hrun
  simp only [lockRun] at h2
  cases hst : lockStep db hasStorage l1 (Op.initLoad a ks) with
  | none => simp [hst] at h2
  | some l2 =>
    simp only [hst] at h2
    obtain ⟨p1, p2⟩ := lockStep_initLoad_pre hst
    have hm := lockRun_pre_mono ops2 h2
    exact ⟨hle.1 a (hm.1 a p1), fun k hk => hle.2 a k (hm.2 a k (p2 k hk))⟩

/-- **An access made inside a frame that reverts is forgotten**: after `checkpoint_revert` of the open
checkpoint `i` the warm flags are exactly the copy the set machine saved at checkpoint `i` plus the
pre-warmed set — whatever was accessed since (and is not pre-warmed) is cold again. -/
theorem reverted_access_forgotten (db : Db) (hasStorage : Addr → Bool) (spec : Nat) (pre : Addr → Bool)
    (hdb : DbOk db hasStorage) (hwf : WF db (JState.new spec pre))
    (ops : List Op) (l l' : Lock) (i : Nat)
    (hrun : lockRun db hasStorage (Lock.init spec pre) ops = some l)
    (hstep : lockStep db hasStorage l (.revert i) = some l') :
    ∃ snap, l.st.snaps[i]? = some snap ∧ SetsEq (warmSets db l'.r.js) (snap.union l.st.pre) ∧
      ∀ x, snap.has x = false → l.st.pre.has x = false → (warmSets db l'.r.js).has x = false := by
  have hs := sim_run hdb ops (sim_init spec pre hwf) hrun
  have hs' := (sim_step hdb hs hstep).1
  obtain ⟨_, r', o', st', bits, _, _, hsp, rfl⟩ := lockStep_some hstep
  simp only [specStep, Spec.AccessSets.revert, Option.map_eq_some_iff] at hsp
  obtain ⟨x, ⟨snap, hsnap, rfl⟩, hx⟩ := hsp
  cases hx
  refine ⟨snap, hsnap, hs'.rel, fun x h1 h2 => ?_⟩
  cases x with
  | addr a => show (warmSets db r'.js).addrs a = false
              rw [hs'.rel.1 a]; simp only [Sets.union]; simp [Sets.has] at h1 h2; simp [h1, h2]
  | slot a k => show (warmSets db r'.js).slots a k = false
                rw [hs'.rel.2 a k]; simp only [Sets.union]; simp [Sets.has] at h1 h2; simp [h1, h2]

/-- the warm component of C06's theorem: reverting a checkpoint restores warm/cold status -/
theorem warm_restored (db : Db) (hasStorage : Addr → Bool) (rpre r0 r : Run) (op : Op) (cp : Checkpoint)
    (ops : List Op) (s' : JState)
    (hdb : DbOk db hasStorage) (hwf : WF db rpre.js)
    (hadm0 : admissible db hasStorage 0 rpre op = true)
    (hstep : step db rpre op = some r0) (hcp : r0.cps = rpre.cps ++ [cp])
    (hadm : admissibleRun db hasStorage (rpre.cps.length + 1) r0 ops = true)
    (hrun : run db r0 ops = some r)
    (hrev : revert r.js cp = some s') : SetsEq (warmSets db s') (warmSets db rpre.js) := by
  have h := Proofs.Journal.revert_restores_core hdb hwf hadm0 hstep hcp hadm hrun hrev
  refine ⟨fun a => ?_, fun a k => ?_⟩
  · exact (h.1 a).2.2.2.2.2.2.2.1
  · exact congrArg AbsSlot.warm ((h.1 a).2.2.2.2.2.2.2.2 k)

/-! ### what a transaction pre-warms, per fork

`codePreloaded` / `codePrewarmOps` (Spec/AccessHistory.lean) model `load_accounts` + `set_precompiles` +
`deduct_caller` + `apply_eip7702_auth_list` + the first frame's `load_account_delegated` / `load_account`;
`eipPrewarm` is the list of EIP-2929/2930/3651/7702. -/

/-- **Berlin … Prague: when the first frame starts, the model's warm flags are exactly the EIP sets** — sender,
recipient (or created address), precompiles, access list, coinbase from Shanghai, and from Prague the
authorities and the recipient's delegation target. `hdel`: the delegation target read by
`load_account_delegated` is the one named in the environment (none before Prague, where no designator exists). -/
theorem prewarm_set_eq_spec (db : Db) (hasStorage : Addr → Bool) (e : TxEnv) (isCreate : Bool)
    (hdb : DbOk db hasStorage) (hB : e.spec ≥ Spec.AccessSets.BERLIN)
    (hwf : WF db (JState.new e.spec (fun a => (codePreloaded e).contains a)))
    (l : Lock)
    (hrun : lockRun db hasStorage (Lock.init e.spec (fun a => (codePreloaded e).contains a))
      (codePrewarmOps e isCreate) = some l)
    (hdel : ∀ s, (if isCreate = true then none else delegateOf db s e.target) =
      (if e.spec ≥ Spec.AccessSets.PRAGUE then e.targetDelegate else none)) :
    SetsEq (warmSets db l.r.js) (Spec.AccessSets.txInit e).cur := by
  have hs := sim_run hdb _ (sim_init _ _ hwf) hrun
  obtain ⟨l1, _, hc⟩ := prewarm_cur e isCreate hrun
  rw [hdel] at hc
  exact SetsEq.trans hs.rel (SetsEq.trans hc (codeKeys_sets e hB))

/-! ### the hypotheses are satisfiable -/
section examples

def exDb : Db := { basic := fun _ => none, storage := fun _ _ => 0, delegate := fun _ => none }
def exHs : Addr → Bool := fun _ => false

theorem exDb_ok : DbOk exDb exHs := fun _ _ _ => rfl

theorem exWF (spec : Nat) (pre : Addr → Bool) : WF exDb (JState.new spec pre) := by
  intro a; simp [absAcct, JState.new, exDb, Info.default]; rw [W_val]; decide

theorem exDelegate (s : JState) (a : Addr) : delegateOf exDb s a = none := by
  unfold delegateOf
  split
  · rename_i s1 _ _
    cases s1.state a with
    | none => rfl
    | some acc => cases acc.info.code <;> simp [exDb]
  · rfl

/-- a history with transaction-level pre-warming, a frame that reverts, a frame that commits inside a frame
that reverts, and re-probing after the reverts -/
def exOps : List Op :=
  [.initLoad 7 [1, 2], .load 0xf0, .loadDelegated 0x40,
   .checkpoint, .load 5, .sload 7 1, .sload 7 3, .checkpoint, .load 6, .commit, .revert 0,
   .load 5, .load 6, .sload 7 1, .sload 7 3, .load 9]

theorem exRun : (lockRun exDb exHs (Lock.init 17 (fun a => a = 9)) exOps).isSome = true := by decide

/-- the bits reported along that history: 5 and 6 are cold again after the revert, slot (7,3) too, while the
access-list slot (7,1) and the pre-loaded address 9 stay warm -/
theorem exBits :
    let l := (lockRun exDb exHs (Lock.init 17 (fun a => a = 9)) (exOps.take 11)).get (by decide)
    coldBits exDb l.r.js (.load 5) = some [true] ∧
    (loadAccount exDb l.r.js 6).map (·.2) = some true ∧
    (sload exDb l.r.js 7 1).map (·.2.2) = some false ∧
    (sload exDb l.r.js 7 3).map (·.2.2) = some true ∧
    (loadAccount exDb l.r.js 9).map (·.2) = some false := by decide

/-- a Prague call transaction: sender 0xf0, recipient 0x40, coinbase 0x20, two precompiles, one access-list
entry, one authority -/
def exEnv : TxEnv :=
  { spec := 18, sender := 0xf0, target := 0x40, coinbase := 0x20, precompiles := [1, 2],
    accessList := [(0x30, [0, 5])], authorities := [0x21], targetDelegate := none }

theorem exEnvRun : (lockRun exDb exHs (Lock.init exEnv.spec (fun a => (codePreloaded exEnv).contains a))
    (codePrewarmOps exEnv false)).isSome = true := by decide

/-- every hypothesis of `prewarm_set_eq_spec` holds for this Prague transaction -/
example : SetsEq (warmSets exDb ((lockRun exDb exHs (Lock.init exEnv.spec (fun a => (codePreloaded exEnv).contains a))
    (codePrewarmOps exEnv false)).get exEnvRun).r.js) (Spec.AccessSets.txInit exEnv).cur :=
  prewarm_set_eq_spec exDb exHs exEnv false exDb_ok (by decide) (exWF _ _) _
    (Option.some_get exEnvRun).symm (fun s => by show delegateOf exDb s exEnv.target = none; exact exDelegate s _)

/-- **Regression (repaired in /repo eeb6165b).** `load_accounts` used to put `BLOCKHASH_STORAGE_ADDRESS`, which is
on no EIP list, into `warm_preloaded_addresses` from Prague; now that address is cold when the first frame
starts, as the EIP sets say. (Real transaction: `acctx bh=1 18 20 40 - - - bal:bb bal:bb` must give `2600,100`.) -/
theorem prewarm_blockhash_regression :
    (warmSets exDb ((lockRun exDb exHs (Lock.init exEnv.spec (fun a => (codePreloaded exEnv).contains a))
      (codePrewarmOps exEnv false)).get exEnvRun).r.js).addrs BLOCKHASH_STORAGE_ADDRESS = false ∧
    (Spec.AccessSets.txInit exEnv).cur.addrs BLOCKHASH_STORAGE_ADDRESS = false := by decide

/-- a Cancun transaction satisfying every hypothesis of `prewarm_set_eq_spec` -/
def exEnv17 : TxEnv := { exEnv with spec := 17, authorities := [] }

theorem exEnv17Run : (lockRun exDb exHs (Lock.init exEnv17.spec (fun a => (codePreloaded exEnv17).contains a))
    (codePrewarmOps exEnv17 false)).isSome = true := by decide

example : SetsEq (warmSets exDb ((lockRun exDb exHs (Lock.init exEnv17.spec (fun a => (codePreloaded exEnv17).contains a))
    (codePrewarmOps exEnv17 false)).get exEnv17Run).r.js) (Spec.AccessSets.txInit exEnv17).cur :=
  prewarm_set_eq_spec exDb exHs exEnv17 false exDb_ok (by decide) (exWF _ _) _
    (Option.some_get exEnv17Run).symm (fun s => by show delegateOf exDb s exEnv17.target = none; exact exDelegate s _)

example : (Spec.AccessSets.txInit exEnv).cur.addrs 0x21 = true ∧ (Spec.AccessSets.txInit exEnv).cur.slots 0x30 5 = true ∧
    (Spec.AccessSets.txInit exEnv).cur.addrs BLOCKHASH_STORAGE_ADDRESS = false := by decide

end examples

end Revm.Props.C34
