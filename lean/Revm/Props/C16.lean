import Revm.Proofs.BundleInvChangeset
/-! C16 — bundle changesets turn the pre-state into the post-state.

Model: `Revm.Model.Bundle` (CacheAccount events → TransitionAccount accumulation → BundleAccount
`update_and_create_revert` → `to_plain_state`), Spec: `Revm.Spec.Bundle` (two-table plain state, direct
application of commits, meaning of a changeset).

Headline, PROVED at full strength: `changeset_correct : Spec.Bundle.ChangesetCorrectStatement` — for every
database agreeing with a plain state that keeps no storage under absent accounts (`plainWF`), both
state-clear settings, every EVM-reachable history (`reachHistory`: what the EVM can commit, `EvmState` and
account storages being hash maps), every merge schedule and both `OriginalValuesKnown` settings: commits and
merges never panic, and the changeset of the bundle (built by a FRESH `State` from an empty bundle) applied
to the pre-history plain state is the post-history plain state — including destroy / re-create /
destroy-again inside one bundle and inside one merge group. Proof (Proofs/BundleInv*.lean): per-address
invariant of DESIGN A.3 extended by a cache side (`CInv`) and a transition side (`TInv`), preserved by
`apply_account_state` + `TransitionAccount::update` (`apply_event`, accumulation law), by
`update_and_create_revert` on every reachable (bundle status, transition status, was_destroyed)
(`merge_core`), lifted over `commit` / `merge_transitions` (`commit_inv`, `merge_inv`), then the fold over
addresses of `applyChangeset` (`changeset_of_bundleOK`).
Excluded by the statement and false of the code: bundles started by `take_bundle` on a continuing `State`
(finding F3, `take_bundle_counterexample`). `changeset_needs_wellformed_db_counterexample` shows that the
`plainWF` hypothesis cannot be dropped (a post-EIP-161 touch of an absent account produces no transition,
so storage a database kept under an absent address would survive). -/
namespace Revm.Props.C16
open Revm.Model.Bundle Revm.Spec.Bundle Revm.Proofs.Bundle

/-- the full statement of C16 (see `Spec/Bundle.lean`) -/
def FullStatement : Prop := ChangesetCorrectStatement

/-- **C16, headline** (all databases, all EVM-reachable histories, all merge schedules, both state-clear
settings, both `OriginalValuesKnown` settings; bundle built by a fresh `State` from an empty bundle) -/
theorem changeset_correct : FullStatement := changeset_correct_proof

/-- the hypotheses of `changeset_correct` are satisfiable by a non-trivial case: contract 1 with slot 1 = 7,
destroyed and re-created (writing slot 1) inside one merge group -/
example : dbMatches Wit.f1db Wit.f1p0 ∧ plainWF Wit.f1p0 ∧ reachHistory true Wit.f1p0 Wit.f1h = true := by
  refine ⟨fun a => ?_, fun a ha k => ?_, by decide⟩
  · by_cases h : a = 1
    · subst h; rfl
    · have h' : ¬ 1 = a := fun hh => h hh.symm
      simp [Wit.f1db, Wit.f1p0, BMap.get, Plain.acct, List.find?, h']
  · by_cases h : a = 1
    · subst h; simp [Wit.f1p0, Plain.acct, List.find?] at ha
    · have h' : ¬ 1 = a := fun hh => h hh.symm
      simp [Wit.f1p0, Plain.slot, List.find?, h']

/-- the per-address merge lemma behind the headline: whenever a bundle account satisfies the A.3 invariant
w.r.t. (pre-bundle → last merge) and the accumulated transition satisfies the transition invariant w.r.t.
(last merge → now), `update_and_create_revert` does not panic, the new bundle account satisfies the A.3
invariant w.r.t. (pre-bundle → now), and the recorded revert leads from now back to the last merge -/
theorem invariant_preserved_by_merge (b? : Option BAcct) (t : Transition) (c : CacheAcct) (Pi : Option Info)
    (Ps : Nat → Nat) (Mi : Option Info) (Ms : Nat → Nat) (Ri : Option Info) (Rs : Nat → Nat)
    (hb : BInv b? t.prevStatus Pi Ps Mi Ms) (hm : Facts t.prevStatus Mi Ms)
    (ht : TInv t c Mi Ms Rs) (hc : CInv c Ri Rs) :
    ∃ b?' rev, oneAcct b? t = some (b?', rev) ∧ BInv b?' c.status Pi Ps Ri Rs ∧
      RevSem rev t.prevStatus Ps Mi Ms Ri Rs :=
  merge_acct b? t c Pi Ps Mi Ms Ri Rs hb hm ht hc

/-- the accumulation law behind the headline: one committed account (any EVM-possible one) keeps the cache
invariant and the transition invariant, through `apply_account_state` and `TransitionAccount::update` -/
theorem invariant_preserved_by_commit (sc : Bool) (c : CacheAcct) (t? : Option Transition) (ms : Status)
    (Mi : Option Info) (Ms : Nat → Nat) (Ri : Option Info) (Rs : Nat → Nat) (ea : EvmAcct)
    (hc : CInv c Ri Rs) (hg : GInv t? c ms Mi Ms Ri Rs) (he : ea.touched = true → EvOk Ri Rs ea) :
    ∃ c' tr, applyAccountState sc c ea = some (c', tr) ∧
      CInv c' (evInfo sc Ri ea) (evSlots sc Rs ea) ∧
      GInv (combine t? tr) c' ms Mi Ms (evInfo sc Ri ea) (evSlots sc Rs ea) :=
  apply_event sc c t? ms Mi Ms Ri Rs ea hc hg he

/-- the `plainWF` hypothesis is needed: with storage kept under an absent address, a post-EIP-161 touch of
that address wipes it in the reference state but produces no transition (`touch_empty_eip161` on
`LoadedNotExisting`), so the changeset leaves slot (1,1) = 7 where the post-state has 0 -/
theorem changeset_needs_wellformed_db_counterexample :
    let p0 : Plain := { accts := [], stor := [(1, 1, 7)] }
    let h : List Group := [[[(1, Wit.ea 0 0 0 false false [])]]]
    reachHistory true p0 h = true ∧
    (Wit.runLast { db := [], sc := true } p0 h).map (fun r =>
      ((applyChangeset (toPlainState r.1.bundle false) p0).slot 1 1, r.2.slot 1 1)) = some (7, 0) := by
  decide

/-- storage row of `to_plain_state` (wipe flag + listed slots) maps the pre-bundle slots of the account
to its current slots, for `OriginalValuesKnown::Yes` and `No`, given the A.3 storage invariant -/
theorem changeset_storage_row_correct (acc : BAcct) (known : Bool) (p c : Nat → Nat)
    (h : StorageInv acc p c) (k : Nat) :
    applyRow acc.status.wasDestroyed (acc.plainStorage known) p k = c k :=
  storage_row_correct acc known p c h k

/-- when `to_plain_state` emits no storage row for an account, its slots did not change -/
theorem changeset_no_row_unchanged (acc : BAcct) (known : Bool) (p c : Nat → Nat) (h : StorageInv acc p c)
    (hrow : ((!(acc.plainStorage known).isEmpty) || acc.status.wasDestroyed) = false) (k : Nat) : c k = p k :=
  no_row_means_unchanged acc known p c h hrow k

/-- account row of `to_plain_state`: emitted value (or, when omitted under `Yes`, the pre-bundle info)
is the current info -/
theorem changeset_account_row_correct (acc : BAcct) (known : Bool) (pInfo cInfo : Option Info)
    (hc : cInfo = acc.info.map Info.withoutCode) (hp : pInfo = acc.origInfo.map Info.withoutCode) :
    (if !known || acc.isInfoChanged then acc.info.map Info.withoutCode else pInfo) = cInfo :=
  account_row_correct acc known pInfo cInfo hc hp

/-- the invariant is satisfiable by a destroyed-and-recreated account with a non-trivial storage -/
example : StorageInv ⟨some ⟨1, 1, 1, true⟩, some ⟨2, 1, 2, false⟩, [(1, ⟨9, 5⟩), (2, ⟨7, 0⟩)], .destroyedChanged⟩
    (fun k => if k = 3 then 8 else 0) (fun k => if k = 1 then 5 else 0) := by
  refine ⟨by unfold WF; decide, fun h => by simp [Status.wasDestroyed] at h, ?_⟩
  intro _ k
  by_cases h1 : k = 1
  · subst h1; simp [BMap.get]
  · by_cases h2 : k = 2
    · subst h2; simp [BMap.get]
    · have h1' : ¬ 1 = k := fun h => h1 h.symm
      have h2' : ¬ 2 = k := fun h => h2 h.symm
      simp [BMap.get, h1, h1', h2']

/-- `update_and_create_revert` panics exactly on the listed (bundle status, transition status) pairs -/
theorem update_panics_iff (b : BAcct) (t : Transition) :
    updateAndCreateRevert b t = none ↔ panicPair b.status t.status = true :=
  Proofs.Bundle.update_panics_iff b t

/-- no merge schedule reaches an `unreachable!` arm: if the bundle account has the cache status `s0` of
the last merge (`Changed` only with nonce-or-code) and the cache status moved to `s ≠ s0` through any
sequence of EVM-possible events, the accumulated transition (status `s`) does not panic -/
theorem merge_never_unreachable (s0 : Status) (nc0 : Bool) (es : List Event) (s : Status) (nc : Bool)
    (h0 : s0 = .changed → nc0 = true) (he : evolve s0 nc0 es = some (s, nc)) (hne : s0 ≠ s)
    (b : BAcct) (t : Transition) (hb : b.status = s0) (ht : t.status = s) :
    updateAndCreateRevert b t ≠ none := by
  intro hp
  have hinv := inv_evolve s0 s0 nc0 es s nc (inv_refl s0 nc0 h0) he
  have hr : reach s0 s = true := by
    simp only [inv, Bool.and_eq_true] at hinv; exact hinv.1
  have := (Proofs.Bundle.update_panics_iff b t).mp hp
  rw [hb, ht, reach_no_panic s0 s hr hne] at this
  exact absurd this (by decide)

/-- hypotheses of `merge_never_unreachable` are satisfiable: Loaded contract, destroyed, re-created, destroyed again -/
example : evolve .loaded true [.selfdestruct, .create true, .change true, .selfdestruct] = some (.destroyedAgain, false) := by
  decide

/-- equal statuses at both ends: only (Destroyed, Destroyed) panics, and no event moves a destroyed
status into `Destroyed` except the touch that yields no transition -/
theorem same_status_only_destroyed_panics (s : Status) : panicPair s s = true ↔ s = .destroyed :=
  same_status_panic s
theorem no_transition_into_destroyed_from_destroyed (s : Status) (nc : Bool) (e : Event) (nc' : Bool)
    (hd : s.wasDestroyed = true) (hs : stepStatus s nc e = some (.destroyed, nc')) :
    e = .touchEmptyPost ∧ s = .destroyed :=
  destroyed_loop_impossible s nc e nc' hd hs

/-- the model satisfies C16 on a destroy / re-create history (both flags): sanity instance -/
theorem changeset_correct_instance :
    (Wit.runLast { db := Wit.f1db, sc := true } Wit.f1p0 Wit.f1h).map (fun r =>
      ((applyChangeset (toPlainState r.1.bundle true) Wit.f1p0).slot 1 1,
       (applyChangeset (toPlainState r.1.bundle false) Wit.f1p0).slot 1 1, r.2.slot 1 1)) = some (5, 5, 5) := by
  decide

/-- FINDING F3. After `take_bundle` on a continuing `State`, the next bundle inherits the destroyed
status of account 2 and flags `wipe_storage` without listing slot 4: its changeset applied to the state
after bundle A gives slot 4 = 0, the reference post-state has 7 (history is EVM-reachable).
Request lines: corpus/C16/F3-take-bundle-on-continuing-state.bundle.case -/
theorem take_bundle_counterexample :
    reachHistory true Wit.f3p0 (Wit.f3h1 ++ Wit.f3h2) = true ∧
    ((Wit.runLast { db := Wit.f3db, sc := true } Wit.f3p0 Wit.f3h1).bind fun (s1, r1) =>
      (Wit.runLast (Wit.takeBundle s1) r1 Wit.f3h2).map fun (s2, r2) =>
        ((applyChangeset (toPlainState s2.bundle false) r1).slot 2 4, r2.slot 2 4)) = some (0, 7) := by
  decide

end Revm.Props.C16
