import Revm.Proofs.HandlerCfg
/-! C22 — the reward switch survives reconfiguration.

Model: `Revm.Model.HandlerCfg` (handler = cfg + reward slot + register list; every rebuild path of
`handler.rs` / `builder.rs` / `evm.rs` as the code performs it after /repo commit 578545da; the fee
stage of `transact_preverified_inner`).

Alphabet of the sequence theorems (`Admissible P`): `modify_spec_id` to any spec (on the `Evm`, on the
`Handler`, through `modify().with_spec_id(..).build()`), appending a register of class `P` (directly or
through the builder), `pop_handle_register`, `create_handle_generic` (result kept or dropped),
`modify().build()`. NOT in the alphabet, because they are resets by name and documented as such
(`reset_handler*`, `.mainnet()`, `.optimism()`, `Handler::new(cfg)`): they enable rewards
(`explicit_reset_enables`).

Register classes: `KeepsDisabled r` (running `r` on an empty reward slot leaves it empty) for the
"disabled stays disabled" direction, `KeepsEnabled r` for the converse, `Neutral` = both. Registers that
do not assign `post_execution.reward_beneficiary` (inspector, instruction-table, no-op registers) and
`optimism_handle_register(false)` are `Neutral`; `optimism_handle_register(true)` keeps enabled only.
An arbitrary user register is `generic f`; the theorems cover exactly those `f` with `f none = none`
(resp. `f (some _)` non-empty) and `user_register_can_enable` shows the hypothesis is needed. -/
namespace Revm.Props.C22
open Revm Revm.Model.HandlerCfg Revm.Proofs.HandlerCfg

/-! ### the flag is preserved by every reconfiguration sequence -/

/-- A handler with rewards disabled (slot empty, no register that would fill it) still has them
disabled after ANY sequence of reconfigurations of the alphabet — unbounded length, any specs. -/
theorem reward_flag_preserved_disabled (h : Handler) (ops : List Op)
    (h0 : h.reward = none) (hregs : ∀ r ∈ h.registers, KeepsDisabled r)
    (hops : ∀ op ∈ ops, Admissible KeepsDisabled op) :
    (run h ops).reward = none :=
  (run_disabled h ops ⟨h0, hregs⟩ hops).1

/-- and symmetrically: enabled stays enabled -/
theorem reward_flag_preserved_enabled (h : Handler) (ops : List Op)
    (h0 : h.reward.isSome = true) (hregs : ∀ r ∈ h.registers, KeepsEnabled r)
    (hops : ∀ op ∈ ops, Admissible KeepsEnabled op) :
    (run h ops).reward.isSome = true :=
  (run_enabled h ops ⟨h0, hregs⟩ hops).1

/-- headline: for the four ways a handler is constructed with an explicit setting
(`Handler::mainnet_with_spec(s, b)`, `Handler::optimism_with_spec(s, b)`, installed with
`with_handler`) and every sequence of reconfigurations with neutral registers,
"rewards enabled" is what it was at construction -/
theorem reward_flag_preserved (s : Spec) (optimism b : Bool) (ops : List Op)
    (hops : ∀ op ∈ ops, Admissible Neutral op) :
    (run (if optimism then optimismWithSpec s b else mainnetWithSpec s b) ops).reward.isSome = b := by
  have hd : ∀ op ∈ ops, Admissible KeepsDisabled op := fun op h => admissible_mono (fun _ x => x.1) (hops op h)
  have he : ∀ op ∈ ops, Admissible KeepsEnabled op := fun op h => admissible_mono (fun _ x => x.2) (hops op h)
  cases optimism <;> cases b <;> simp only [if_true, if_false, Bool.false_eq_true]
  · rw [(run_disabled _ ops (mainnet_disabled s) hd).1]; rfl
  · exact (run_enabled _ ops (mainnet_enabled s) he).1
  · rw [(run_disabled _ ops (optimism_disabled s) hd).1]; rfl
  · exact (run_enabled _ ops (optimism_enabled s) he).1

/-- the hypotheses are satisfiable by a non-trivial sequence: inspector register, hardfork changes in
both directions (one of them a no-op), builder round trip, pop, generic rebuild -/
example : ∀ op ∈ [Op.append (.neutral 1), .modifySpecId .LONDON, .builderSpecId .LONDON, .builderAppend (.optimism false),
      .pop, .createGeneric .CANCUN, .modifySpecId .FRONTIER, .rebuild, .createGenericDrop .BERLIN, .pop],
    Admissible Neutral op := by
  intro op h
  simp only [List.mem_cons, List.not_mem_nil, or_false] at h
  rcases h with h | h | h | h | h | h | h | h | h | h <;> subst h <;>
    first | exact neutral_is_neutral 1 | exact optimism_false_is_neutral | exact True.intro

example : (run (mainnetWithSpec .CANCUN false)
    [.append (.neutral 1), .modifySpecId .LONDON, .pop, .createGeneric .CANCUN]).reward = none := by decide
example : (run (optimismWithSpec .ECOTONE false) [.modifySpecId .FJORD, .append (.neutral 0), .pop]).optHandles = true := by
  decide

/-- REGRESSION (the code before /repo commit 578545da, `true` hard-coded in the three rebuilds): the
theorem is false there — one hardfork change re-enables the rewards of a handler built without -/
theorem reward_flag_preserved_regression :
    ∃ (s : Spec) (ops : List Op), (∀ op ∈ ops, Admissible Neutral op) ∧
      (mainnetWithSpec s false).reward = none ∧ (runOld (mainnetWithSpec s false) ops).reward ≠ none :=
  ⟨.CANCUN, [.modifySpecId .LONDON],
    by intro op h; simp only [List.mem_cons, List.not_mem_nil, or_false] at h; subst h; exact True.intro,
    rfl, by decide⟩

/-- the same for the other two rebuild paths of the old code -/
theorem reward_flag_preserved_regression_pop_generic :
    (runOld (mainnetWithSpec .CANCUN false) [.append (.neutral 0), .pop]).reward = some .mainnet ∧
    (runOld (mainnetWithSpec .CANCUN false) [.createGeneric .CANCUN]).reward = some .mainnet ∧
    (runOld (optimismWithSpec .ECOTONE false) [.modifySpecId .FJORD]).reward = some .mainnet := by
  decide

/-- why explicit resets are outside the alphabet: each of them enables rewards, whatever the handler was -/
theorem explicit_reset_enables (h : Handler) (op : Op) (hr : op.isReset = true) :
    (step h op).reward.isSome = true :=
  reset_enables h op hr

/-- everything in the alphabet is not a reset, i.e. the alphabet is exactly "no explicit reset, registers of
the class" -/
theorem alphabet_has_no_reset (P : Register → Prop) (op : Op) (h : Admissible P op) : op.isReset = false :=
  admissible_not_reset h

/-- why the register class is needed: a user register that assigns the slot (here
`optimism_handle_register(true)` appended by hand, or any `generic f` with `f none ≠ none`) turns
rewards on, and the rebuilds re-apply it faithfully -/
theorem user_register_can_enable :
    (run (mainnetWithSpec .CANCUN false) [.append (.optimism true), .modifySpecId .LONDON]).reward = some .optimism ∧
    (run (mainnetWithSpec .CANCUN false)
      [.append (.generic 0 (fun _ => some .mainnet)), .modifySpecId .LONDON]).reward = some .mainnet := by
  decide

/-- the other handler fields after a hardfork change: `cfg.spec_id` is the requested one, `is_optimism` and
the register list are kept -/
theorem modify_spec_id_cfg (h : Handler) (s : Spec) :
    (modifySpecId h s).spec = s ∧ (modifySpecId h s).isOptimism = h.isOptimism ∧
    (modifySpecId h s).registers = h.registers := by
  unfold modifySpecId
  split
  · rename_i heq; exact ⟨heq, rfl, rfl⟩
  · refine ⟨rfl, rfl, ?_⟩
    show (reapply _ h.registers).registers = h.registers
    rw [reapply_registers]; rfl

/-! ### what the flag means for a transaction -/

/-- With the slot empty the reward stage is skipped: the journal state is returned as it is. -/
theorem reward_stage_skipped (db : Db) (e : FeeEnv) (used : Nat) (st : JState) :
    rewardStage none db e used st = some st := rfl

/-- `disabled_no_credit`: with rewards disabled the tail of `transact` (reimburse, reward, output) never
fails and leaves EVERY account other than the caller — in particular the coinbase and the three
Optimism vaults — exactly as execution left it: same balance, same touched mark, and if it was never
loaded it is still absent from the returned state. For all gas figures, prices and states. -/
theorem disabled_no_credit {σ : Type} (db : Db) (e : FeeEnv) (used back : Nat) (st : JState) (x : σ) :
    ∃ st', postExecution none db e used back st x = some (st', x) ∧
      ∀ a, a ≠ e.caller → st' a = st a :=
  ⟨reimburseCaller db e back st, rfl, fun a ha => reimburse_other db e back st a ha⟩

/-- the coinbase and the vaults are not even loaded: an account (other than the caller) that execution
did not bring into the journal — e.g. the coinbase or a fee vault — is absent from the returned state -/
theorem disabled_fee_accounts_absent {σ : Type} (db : Db) (e : FeeEnv) (used back : Nat) (st : JState) (x : σ)
    (a : Addr) (hc : a ≠ e.caller) (habs : st a = none) :
    ∀ r, postExecution none db e used back st x = some r → r.1 a = none := by
  intro r hr
  obtain ⟨st', h1, h2⟩ := disabled_no_credit db e used back st x
  rw [h1] at hr; cases hr
  show st' a = none
  rw [h2 a hc]; exact habs

example : (2 : Addr) ≠ (⟨1, 2, 10, none, 3, true, none⟩ : FeeEnv).caller ∧
    (fun a : Addr => if a = 1 then some (⟨1000000, 1, true⟩ : Acct) else none) 2 = none := by decide

/-- `other_effects_equal`: the same transaction on the same EVM with rewards enabled (either reward
handle) gives the same execution results (`x`: result, gas, logs, output, storage) and the same state
of every account that is not a fee recipient of that handle. -/
theorem other_effects_equal {σ : Type} (k : RewardKind) (db : Db) (e : FeeEnv) (used back : Nat)
    (st : JState) (x : σ) (s1 : JState) (x1 : σ)
    (h1 : postExecution (some k) db e used back st x = some (s1, x1)) :
    ∃ s0, postExecution none db e used back st x = some (s0, x1) ∧
      ∀ a, a ∉ feeRecipients e (some k) → s1 a = s0 a := by
  unfold postExecution at h1
  cases hr : rewardStage (some k) db e used (reimburseCaller db e back st) with
  | none => rw [hr] at h1; cases h1
  | some s =>
    rw [hr] at h1
    simp only [Option.map_some, Option.some.injEq, Prod.mk.injEq] at h1
    obtain ⟨hs, hx⟩ := h1
    subst hs; subst hx
    exact ⟨reimburseCaller db e back st, rfl, fun a ha => rewardStage_other _ db e used _ _ hr a ha⟩

/-- the hypothesis of `other_effects_equal` is satisfiable: mainnet rewards never fail; optimism rewards
succeed once validation has loaded the L1 block info -/
example : ∃ r, postExecution (some .mainnet) (fun _ => ⟨7, 0, false⟩) ⟨1, 2, 10, none, 3, true, none⟩ 21000 79000
    (fun a => if a = 1 then some ⟨1000000, 1, true⟩ else none) () = some r := ⟨_, rfl⟩
example : ∃ r, postExecution (some .optimism) (fun _ => ⟨7, 0, false⟩) ⟨1, 2, 10, none, 3, true, some (5, 0)⟩ 21000 79000
    (fun a => if a = 1 then some ⟨1000000, 1, true⟩ else none) () = some r := ⟨_, rfl⟩

/-- and what the enabled twin does pay (mainnet handle): the coinbase is loaded, touched and credited
`coinbasePrice * used` (wrapping product, saturating sum) on top of what it had after reimbursement -/
theorem enabled_credit_mainnet (db : Db) (e : FeeEnv) (used : Nat) (st : JState) :
    ∃ st', rewardStage (some .mainnet) db e used st = some st' ∧
      st' e.coinbase = some { loaded db st e.coinbase with
        touched := true,
        bal := U256.saturatingAdd (loaded db st e.coinbase).bal (U256.wmul e.coinbasePrice used) } :=
  ⟨_, rfl, creditSat_self db st e.coinbase _⟩

/-- the two halves together, as the property states it: an EVM configured without rewards
(`mainnet_with_spec(s,false)` / `optimism_with_spec(s,false)`), after any reconfiguration sequence of the
alphabet, runs every transaction's tail without paying: each non-caller account is as execution left it,
and everything else equals what the rewards-enabled twin `k` produces, whenever the twin succeeds. -/
theorem C22_reconfigured_never_pays {σ : Type} (s : Spec) (optimism : Bool) (ops : List Op)
    (hops : ∀ op ∈ ops, Admissible Neutral op)
    (db : Db) (e : FeeEnv) (used back : Nat) (st : JState) (x : σ) :
    let h := run (if optimism then optimismWithSpec s false else mainnetWithSpec s false) ops
    ∃ s0, postExecution h.reward db e used back st x = some (s0, x) ∧
      (∀ a, a ≠ e.caller → s0 a = st a) ∧
      ∀ (k : RewardKind) (s1 : JState) (x1 : σ),
        postExecution (some k) db e used back st x = some (s1, x1) →
        x1 = x ∧ ∀ a, a ∉ feeRecipients e (some k) → s1 a = s0 a := by
  intro h
  have hflag : h.reward.isSome = false := reward_flag_preserved s optimism false ops hops
  have hnone : h.reward = none := by
    cases hr : h.reward with
    | none => rfl
    | some k => rw [hr] at hflag; cases hflag
  rw [hnone]
  obtain ⟨s0, h1, h2⟩ := disabled_no_credit db e used back st x
  refine ⟨s0, h1, h2, ?_⟩
  intro k s1 x1 hk
  obtain ⟨s0', h3, h4⟩ := other_effects_equal k db e used back st x s1 x1 hk
  rw [h1] at h3
  simp only [Option.some.injEq, Prod.mk.injEq] at h3
  obtain ⟨hs, hx⟩ := h3
  subst hs
  exact ⟨hx.symm, h4⟩

/-! ### the whole-transaction model used by the correspondence stream -/

/-- on a handler with rewards disabled the modelled transaction returns exactly what execution and
reimbursement produced -/
theorem transact_disabled (h : Handler) (db : Db) (tx : Tx) (h0 : h.reward = none)
    (res : TxResult) (used : Nat) (st : JState)
    (hb : beforeReward h.spec h.optHandles db tx = .ok (res, used, st)) :
    transact h db tx = (res, used, st) := by
  unfold transact; rw [hb, h0]; rfl

/-- the twin (same cfg and handles, rewards enabled) returns the same result, the same gas and the same
state of every account that is not one of its fee recipients; a rejected transaction is rejected by
both. This is the `same=1` column of the stream. -/
theorem transact_twin (h t : Handler) (db : Db) (tx : Tx) (h0 : h.reward = none)
    (hs : t.spec = h.spec) (ho : t.optHandles = h.optHandles) :
    (∀ e, beforeReward h.spec h.optHandles db tx = .error e →
        transact h db tx = (.err e, 0, fun _ => none) ∧ transact t db tx = (.err e, 0, fun _ => none)) ∧
    (∀ res used st st', beforeReward h.spec h.optHandles db tx = .ok (res, used, st) →
        rewardStage t.reward db (tx.feeEnv t) used st = some st' →
        transact h db tx = (res, used, st) ∧ transact t db tx = (res, used, st') ∧
        ∀ a, a ∉ feeRecipients (tx.feeEnv t) t.reward → st' a = st a) := by
  refine ⟨?_, ?_⟩
  · intro e he
    refine ⟨by unfold transact; rw [he], by unfold transact; rw [hs, ho, he]⟩
  · intro res used st st' hb hr
    refine ⟨transact_disabled h db tx h0 res used st hb, ?_, ?_⟩
    · unfold transact; rw [hs, ho, hb]; simp only; rw [hr]
    · exact fun a ha => rewardStage_other _ db _ used st st' hr a ha

/-- non-vacuity: a London transfer (basefee 20, tip 10) on a disabled, reconfigured handler passes
validation and leaves the coinbase absent, while the enabled twin pays it `tip * 21000` -/
def exampleDb : Db := fun a => if a = CALLER then ⟨1000000000, 0, false⟩ else ⟨7, 0, false⟩
def exampleTx : Tx := ⟨.xfer, 100000, 30, none, 20, 1, 21000, none⟩
example : (transact (run (mainnetWithSpec .CANCUN false) [.modifySpecId .LONDON]) exampleDb exampleTx).1 = .ok := by rfl
example : (transact (run (mainnetWithSpec .CANCUN false) [.modifySpecId .LONDON]) exampleDb exampleTx).2.2 COINBASE = none := by
  rfl
example : (transact (run (mainnetWithSpec .CANCUN true) [.modifySpecId .LONDON]) exampleDb exampleTx).2.2 COINBASE
    = some ⟨7 + 10 * 21000, 0, true⟩ := by rfl

end Revm.Props.C22
