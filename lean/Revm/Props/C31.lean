import Revm.Proofs.EvmLifecycle
/-! C31 — executing a sequence of transactions on one EVM instance (including transactions that fail
validation, revert or halt, and calls to preverify) gives the same results and committed state as
executing each transaction on a freshly built EVM over the same database; no transient storage,
warm-access status, logs, loaded precompiles or errors leak from one transaction into the next.

The theorems are about `Model.EvmLifecycle`: the control flow of `Evm::{transact, transact_commit,
transact_preverified, preverify_transaction}` with every `?` exit and every call of `take_error`,
`set_spec_id`, `set_precompiles`, `finalize`, `end`, `clear` explicit, while what each handler stage
does to the database, the journal, the error slot and the L1 block info is an ARBITRARY function
(`Handler`): so every program, database and stage body is covered, for every fuel of the interpreter
loop (`none` = the loop does not return within the fuel; then it does not on either side).

Two fields of the context are not reset by the code: the journal's `spec` (kept by
`JournaledState::clear`; re-set by `load_accounts`) and `EvmContext::precompiles` (overwritten by
`set_precompiles` before any use). `…_not_reset_counterexample` record that; the headline theorems show
that neither can influence a result, the first under the one hypothesis `HSpecBlind`: the two stages
that can run before `load_accounts` re-sets the field — the validation stage `tx_against_state` and
(since /repo 25ebe790 passes validation errors through it) `post_execution.end` on an error — do not
read `journaled_state.spec`. In the code the first only calls `load_code`, which never does; the
mainnet `end` is the identity and the optimism `end` reads only `env` and the database.
`spec_blindness_needed_counterexample` shows the hypothesis cannot be dropped. -/
namespace Revm.Props.C31
open Revm.Model.Journal Revm.Model.EvmLifecycle Revm.Proofs.EvmLifecycle

variable {Db Env Err Pre L1 G LS Act FR ER : Type}

/-- After ANY entry point, on ANY exit path (validation error, error inside pre-execution, inside the
loop, in post-execution, success, revert, halt), for all stage behaviours: the environment is the one
given, the journal is `JournaledState::new(spec', ∅)`, the error slot is `Ok(())`, there is no L1 block
info, and the precompile field is the old one or the handler's set. -/
theorem cleared_after (h : Handler Db Env Err Pre L1 G LS Act FR ER) (commit : Db → EvmState → Db)
    (e : EntryPoint) (fuel : Nat) (c c' : Ctx Db Env Err Pre L1) (r : CallResult Err ER)
    (hc : call h commit e fuel c = some (r, c')) :
    c'.env = c.env ∧ c'.js = JState.new c'.js.spec noPreloaded ∧ c'.error = none ∧ c'.l1 = none ∧
    (c'.precompiles = c.precompiles ∨ c'.precompiles = h.loadPrecompiles) := by
  have := call_cleared h commit e fuel hc
  exact ⟨this.1, this.2.1.1, this.2.1.2.1, this.2.1.2.2, this.2.2⟩

/-- the same, field by field: no account state, no transient storage, no logs, depth 0, one empty
journal level, no warm (preloaded) address -/
theorem cleared_after_fields (h : Handler Db Env Err Pre L1 G LS Act FR ER) (commit : Db → EvmState → Db)
    (e : EntryPoint) (fuel : Nat) (c c' : Ctx Db Env Err Pre L1) (r : CallResult Err ER)
    (hc : call h commit e fuel c = some (r, c')) :
    (∀ a, c'.js.state a = none) ∧ (∀ a k, c'.js.transient a k = none) ∧ c'.js.logs = [] ∧ c'.js.depth = 0 ∧
    c'.js.journal = [[]] ∧ (∀ a, c'.js.preloaded a = false) ∧ c'.error = none := by
  have hj := (cleared_after h commit e fuel c c' r hc).2.1
  have he := (cleared_after h commit e fuel c c' r hc).2.2.1
  refine ⟨?_, ?_, ?_, ?_, ?_, ?_, he⟩ <;> (try intro a) <;> (try intro k) <;> rw [hj] <;> rfl

/-- The result of an entry point and the database it leaves are a function of (database, environment,
handler) alone: two contexts that look freshly built (whatever their precompile field and journal
spec) give the same result and database — or the loop returns on neither. -/
theorem result_depends_only_on (h : Handler Db Env Err Pre L1 G LS Act FR ER) (commit : Db → EvmState → Db)
    (hb : HSpecBlind h) (e : EntryPoint) (fuel : Nat) (c1 c2 : Ctx Db Env Err Pre L1)
    (h1 : Clean c1) (h2 : Clean c2) (hdb : c1.db = c2.db) (henv : c1.env = c2.env) :
    (call h commit e fuel c1).map (fun p => (p.1, p.2.db)) = (call h commit e fuel c2).map (fun p => (p.1, p.2.db)) :=
  relOpt_proj (call_sim h commit hb e fuel (sim_of_clean h1 h2 hdb henv))

/-- in particular: a context left behind by any earlier call behaves like a freshly built `Evm` -/
theorem reused_eq_fresh (h h0 : Handler Db Env Err Pre L1 G LS Act FR ER) (commit : Db → EvmState → Db)
    (hb : HSpecBlind h) (e e0 : EntryPoint) (fuel fuel0 : Nat) (c0 c : Ctx Db Env Err Pre L1)
    (r0 : CallResult Err ER) (hprev : call h0 commit e0 fuel0 c0 = some (r0, c)) (env : Env) (pre0 : Pre) :
    (call h commit e fuel { c with env := env }).map (fun p => (p.1, p.2.db)) =
    (call h commit e fuel (Ctx.build c.db env h.spec pre0)).map (fun p => (p.1, p.2.db)) := by
  have hcl := (call_cleared h0 commit e0 fuel0 hprev).2.1
  exact result_depends_only_on h commit hb e fuel _ _ ⟨hcl.1, hcl.2.1, hcl.2.2⟩ (clean_build _ _ _ _) rfl rfl

/-- C31: any history of entry-point calls (any environments, any handler reconfiguration between the
calls, through `modify_spec_id` or through the builder, any fuel) on ONE instance gives the same list
of results and the same final database as running every call on a freshly built instance over the
database left by the previous one. -/
theorem sequence_on_one_instance_eq_fresh_instances (commit : Db → EvmState → Db) (pre0 : Pre)
    (ops : List (Op Db Env Err Pre L1 G LS Act FR ER)) (c : Ctx Db Env Err Pre L1) (hc : Clean c)
    (hb : ∀ op ∈ ops, HSpecBlind op.h) :
    (runOne commit ops c).map (fun p => (p.1, p.2.db)) = runFresh commit pre0 ops c.db :=
  sequence_eq commit pre0 ops c hc hb

/-- the history started on a freshly built instance -/
theorem sequence_from_build (commit : Db → EvmState → Db) (pre0 : Pre)
    (ops : List (Op Db Env Err Pre L1 G LS Act FR ER)) (db : Db) (env : Env) (spec : Nat)
    (hb : ∀ op ∈ ops, HSpecBlind op.h) :
    (runOne commit ops (Ctx.build db env spec pre0)).map (fun p => (p.1, p.2.db)) = runFresh commit pre0 ops db :=
  sequence_eq commit pre0 ops _ (clean_build db env spec pre0) hb

/-- `SpecBlind` holds of the mainnet body of `tx_against_state` as modelled on the journal model of
C06 (`load_code(caller)?`, then the pure `Env::validate_tx_against_state` on the loaded account), for
every database view, database-error behaviour and environment check -/
theorem mainnet_tx_against_state_spec_blind (caller : Env → Addr) (view : Db → Revm.Model.Journal.Db)
    (dbErr : Db → Addr → Option Err) (check : Env → Acct → Except Err Unit × Acct) (panicErr : Err) :
    SpecBlind (mainnetTxAgainstState (L1 := L1) caller view dbErr check panicErr) :=
  mainnetTxAgainstState_specBlind caller view dbErr check panicErr

/-- hence, with the mainnet validation body and the mainnet `end` (the identity) and EVERY other stage
arbitrary, no hypothesis is left -/
theorem sequence_with_mainnet_validation (commit : Db → EvmState → Db) (pre0 : Pre)
    (ops : List (Op Db Env Err Pre L1 G LS Act FR ER)) (db : Db) (env : Env) (spec : Nat)
    (hm : ∀ op ∈ ops, (∃ caller view dbErr check panicErr,
      op.h.txAgainstState = mainnetTxAgainstState caller view dbErr check panicErr) ∧
      op.h.endHook = fun out _ w => (out, w)) :
    (runOne commit ops (Ctx.build db env spec pre0)).map (fun p => (p.1, p.2.db)) = runFresh commit pre0 ops db := by
  apply sequence_from_build
  intro op hop
  obtain ⟨⟨caller, view, dbErr, check, pe, h⟩, hend⟩ := hm op hop
  refine ⟨?_, ?_⟩
  · rw [h]; exact mainnetTxAgainstState_specBlind caller view dbErr check pe
  · intro e env w s; rw [hend]

/-- `finalize` (called by `output`) resets transient storage, journal and depth and takes state and
logs, but KEEPS the warm preloaded addresses; `clear` (called last on every path) drops them -/
theorem finalize_keeps_preloaded_clear_drops (j : JState) :
    (jfinalize j).1.preloaded = j.preloaded ∧ (jfinalize j).1.spec = j.spec ∧
    (∀ a k, (jfinalize j).1.transient a k = none) ∧ (jfinalize j).1.logs = [] ∧
    (jfinalize j).1.depth = 0 ∧ (jfinalize j).1.journal = [[]] ∧ (∀ a, (jfinalize j).1.state a = none) ∧
    (∀ a, (jclear (jfinalize j).1).preloaded a = false) ∧ (jclear j).spec = j.spec :=
  ⟨rfl, rfl, fun _ _ => rfl, rfl, rfl, rfl, fun _ => rfl, fun _ => rfl, rfl⟩

/-! ### non-vacuity: the hypotheses hold of a concrete, non-trivial handler -/

/-- the scripted handler's validation stage is spec-blind -/
theorem script_spec_blind (spec : Nat) : SpecBlind (Script.handler spec).txAgainstState := by
  intro env w s
  simp only [Script.handler, Script.failIf, Script.loadAcct, Work.setSpec, setSpecId, setAcct]
  by_cases h1 : env.stage = "state" ∧ env.kind = "db"
  · simp only [h1, and_self, if_true]
  · simp only [h1, if_false]
    cases hst : w.js.state env.caller <;> by_cases h2 : env.stage = "state" <;> simp only [h2, if_true, if_false]

/-- the scripted handler satisfies the hypothesis of the headline theorems (its `end` is the identity) -/
theorem script_hspec_blind (spec : Nat) : HSpecBlind (Script.handler spec) :=
  ⟨script_spec_blind spec, fun _ _ _ _ => rfl⟩

def envOk : Script.SEnv := { coinbase := 0xb1, caller := 0xc1, target := 0xd1, stage := "ok", kind := "success" }
def envExec : Script.SEnv := { envOk with stage := "exec", kind := "db" }
def envState : Script.SEnv := { envOk with stage := "state", kind := "tx" }

/-- a history with a successful commit, a database error inside the loop, a validation failure, a
`preverify` and a `transact_preverified`, with a spec change through `modify_spec_id` -/
def sampleOps : List (Op Nat Script.SEnv String (List Addr) Empty Nat Nat Nat Nat String) :=
  [ { h := Script.handler 17, rebuilt := false, env := envOk, entry := .transactCommit, fuel := 5 },
    { h := Script.handler 17, rebuilt := false, env := envExec, entry := .transact, fuel := 5 },
    { h := Script.handler 7, rebuilt := false, env := envState, entry := .transact, fuel := 5 },
    { h := Script.handler 7, rebuilt := true, env := envOk, entry := .preverify, fuel := 0 },
    { h := Script.handler 18, rebuilt := false, env := envOk, entry := .transactPreverified, fuel := 5 } ]

example : ∀ op ∈ sampleOps, HSpecBlind op.h := by
  intro op hop
  simp only [sampleOps, List.mem_cons, List.mem_nil_iff, or_false] at hop
  rcases hop with h | h | h | h | h <;> subst h <;> exact script_hspec_blind _

example : Clean (Ctx.build 0 envOk 17 [] : Ctx Nat Script.SEnv String (List Addr) Empty) := clean_build _ _ _ _

/-- the sample history does return (fuel suffices), commits once, and the scripted stages do dirty the
context on the way: the statement of the sequence theorem is not about `none = none` -/
theorem sample_history_runs :
    (runFresh Script.commitDb [] sampleOps 0).map (fun p => (p.1.length, p.2)) = some (5, 1) := by
  decide

/-- a handler with the mainnet validation body (over an empty database view) and scripted other stages -/
def mainnetLike : Handler Nat Script.SEnv String (List Addr) Empty Nat Nat Nat Nat String :=
  { Script.handler 17 with
    txAgainstState := mainnetTxAgainstState (fun e => e.caller)
      (fun _ => { basic := fun _ => none, storage := fun _ _ => 0, delegate := fun _ => none })
      (fun _ _ => none) (fun _ acc => (.ok (), acc)) "panic" }

example : ∀ op ∈ [({ h := mainnetLike, rebuilt := false, env := envOk, entry := .transactCommit, fuel := 5 } :
      Op Nat Script.SEnv String (List Addr) Empty Nat Nat Nat Nat String)],
    (∃ caller view dbErr check panicErr,
      op.h.txAgainstState = mainnetTxAgainstState caller view dbErr check panicErr) ∧
    op.h.endHook = fun out _ w => (out, w) := by
  intro op hop
  simp only [List.mem_cons, List.mem_nil_iff, or_false] at hop
  subst hop
  exact ⟨⟨fun e => e.caller, fun _ => { basic := fun _ => none, storage := fun _ _ => 0, delegate := fun _ => none },
    fun _ _ => none, fun _ acc => (.ok (), acc), "panic", rfl⟩, rfl⟩

def isErr : CallResult String String → Bool
  | .tx (.error _) | .commit (.error _) | .pre (.error _) => true
  | _ => false

theorem sample_history_outcomes :
    (runFresh Script.commitDb [] sampleOps 0).map (fun p => p.1.map isErr) = some [false, true, true, false, false] := by
  decide

/-! ### fields that the code does not reset -/

/-- `EvmContext::precompiles` survives the call: after a Prague transaction the field still holds the
17 Prague precompiles (a freshly built context holds none) — never read before `set_precompiles`
overwrites it (`result_depends_only_on`). -/
theorem precompiles_not_reset_counterexample :
    (call (Script.handler 18) Script.commitDb .transact 5
        (Ctx.build 0 envOk 18 [] : Ctx Nat Script.SEnv String (List Addr) Empty)).map (fun p => p.2.precompiles)
      = some [1, 2, 3, 4, 5, 6, 7, 8, 9, 10, 11, 12, 13, 14, 15, 16, 17] := by
  decide

/-- `journaled_state.spec` is not reset to the handler's spec: an `Evm` built for CONSTANTINOPLE (7)
holds 7; after one transaction it holds PETERSBURG (8, what `spec_to_generic!` runs), and after
`modify_spec_id(CANCUN)` followed by a call that ends in validation it still holds 8 -/
theorem journal_spec_not_reset_counterexample :
    (Ctx.build 0 envOk 7 [] : Ctx Nat Script.SEnv String (List Addr) Empty).js.spec = 7 ∧
    (runOne Script.commitDb
        [ { h := Script.handler 7, rebuilt := false, env := envOk, entry := .transact, fuel := 5 } ]
        (Ctx.build 0 envOk 7 [] : Ctx Nat Script.SEnv String (List Addr) Empty)).map (fun p => p.2.js.spec) = some 8 ∧
    (runOne Script.commitDb
        [ { h := Script.handler 7, rebuilt := false, env := envOk, entry := .transact, fuel := 5 },
          { h := Script.handler 17, rebuilt := false, env := envState, entry := .preverify, fuel := 0 } ]
        (Ctx.build 0 envOk 7 [] : Ctx Nat Script.SEnv String (List Addr) Empty)).map (fun p => p.2.js.spec) = some 8 := by
  decide

/-- a validation stage that branches on the journal's spec (the real one does not) -/
def specReader : Handler Nat Script.SEnv String (List Addr) Empty Nat Nat Nat Nat String :=
  { Script.handler 7 with
    txAgainstState := fun _ w => if w.js.spec = 8 then (.error "journal spec is 8", w) else (.ok (), w) }

/-- without `SpecBlind` the sequence theorem is false: for a handler whose validation reads the
journal's spec, the second transaction on a reused CONSTANTINOPLE instance is rejected while on fresh
instances both run -/
theorem spec_blindness_needed_counterexample :
    let ops : List (Op Nat Script.SEnv String (List Addr) Empty Nat Nat Nat Nat String) :=
      [ { h := specReader, rebuilt := false, env := envOk, entry := .transact, fuel := 5 },
        { h := specReader, rebuilt := false, env := envOk, entry := .transact, fuel := 5 } ]
    (runOne Script.commitDb ops (Ctx.build 0 envOk 7 [])).map (fun p => p.1.map isErr) = some [false, true] ∧
    (runFresh Script.commitDb [] ops 0).map (fun p => p.1.map isErr) = some [false, false] := by
  decide

end Revm.Props.C31
