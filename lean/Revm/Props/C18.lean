import Revm.Proofs.BundleInvExtend
import Revm.Proofs.BundleRevExtend
/-! C18 — splitting and joining bundles does not change what they describe.

Full statement: `Spec.Bundle.ExtendStatement` (extend of a split history ≙ monolithic bundle: same
post-state changeset, same per-block pre-values), for halves built by a fresh `State` over the committed
first half.

PROVED at full strength: `extend_post_state` (post-state half of the statement, all databases, EVM-reachable
split histories, merge schedules, both flags; no exclusion) — `extend(A, B)` applied to the pre-state of A
gives the post-state of B, including accounts destroyed in either or both halves.
PROVED in the explicit decidable region outside finding F4: `extend_assoc_partial` — the whole
`ExtendStatement` (post-state and per-block pre-values under the database reading of `Destroyed`) whenever
`extendOk A B`: no storage-wiping revert of B lists as `Destroyed` a slot that A's account holds. Without
`extendOk` the pre-value half is false of the code (F4, `extend_prevalue_counterexample`:
`entry(key).or_insert(..)` keeps the `Destroyed` marker instead of A's present value), so `FullStatement`
itself is not provable.
`revert` after `extend` (not part of `ExtendStatement`): F5 — the reverts of the second half carry
`previous_status` of another cache lineage, so an account that A holds with a destroyed status loses its wipe when a
revert of B is applied (`extend_revert_counterexample`). PROVED in the explicit decidable region outside F5:
`extend_revert_partial` — `revert(j)` on `extend(A, B)` leaves a bundle whose changeset (both flags), applied to A's
pre-state, gives the reference state after B's first n-j groups, whenever `Spec.Bundle.extRevertOk A B j`: j within
B's blocks, no storage-wiping revert among the reverted blocks, no account that A holds with a destroyed status
present in B. F5's split is outside the region (`f5_outside_region`). F3 (see C16) — second half built after
`take_bundle` on a continuing `State` (excluded by "fresh State").
Also proved: `take_n_reverts` is `List.splitAt` (and `take_all_reverts` its `n > len` case),
`prepend_state` / `extend_state` never override values of the newer bundle and keep older-only addresses.
Proof of the extend theorems (Proofs/BundleInvExtend.lean): C16's invariant for both halves, the invariant
"an address with a wiping revert is in the bundle with a destroyed status, and is wiped in at most one
block", a closed form of the revert-rewriting loop of `extend`, and per-revert semantics (`modRev_sem`). -/
namespace Revm.Props.C18
open Revm.Model.Bundle Revm.Spec.Bundle Revm.Proofs.Bundle

def FullStatement : Prop := ExtendStatement true

/-- post-state half of `FullStatement` -/
def FullStatementPostState : Prop := ExtendPostStatement

/-- **C18, post-state, headline**: for every database, both state-clear settings, every EVM-reachable
history split at any group boundary (each half under any merge schedule, each by a fresh `State` over the
state committed so far), both `OriginalValuesKnown` settings: `extend(A, B)`'s changeset applied to the
pre-state of A is the post-state of B; nothing panics -/
theorem extend_post_state : FullStatementPostState := extend_post_proof

/-- post-state of `prepend_state` -/
def FullStatementPrependPostState : Prop := PrependPostStatement

/-- **C18, `prepend_state`, post-state**: same quantification as `extend_post_state`; `B.prepend_state(A)` for the
newer bundle B (second half) and the older A: its changeset applied to the pre-state of A is the post-state of B
(`extend_state` without the revert rewriting of `extend`), and its reverts are A's -/
theorem prepend_post_state : FullStatementPrependPostState := prepend_post_proof

/-- **C18, whole statement outside F4**: the post-state as above and, when no storage-wiping revert of B
lists as `Destroyed` a slot held by A's account (`extendOk`, decidable), every block of the extended
bundle's plain reverts maps the reference state after its group to the one before it. Missing for
`FullStatement`: the region `extendOk = false`, where the statement is false of the code (F4 below). -/
theorem extend_assoc_partial (db db2 : BMap Info) (sc : Bool) (p0 : Plain) (h1 h2 : List Group) (known : Bool)
    (hdb : dbMatches db p0) (hwf : plainWF p0) (hr : reachHistory sc p0 (h1 ++ h2) = true) :
    ∃ l1 l2, runHistory { db := db, sc := sc } p0 h1 = some l1 ∧
      ∀ s1 r1, l1.getLast? = some (s1, r1) → dbMatches db2 r1 →
        runHistory { db := db2, sc := sc } r1 h2 = some l2 ∧
        ∀ s2 r2, l2.getLast? = some (s2, r2) →
          PlainEq (applyChangeset (toPlainState (extend s1.bundle s2.bundle) known) p0) r2 ∧
          (extendOk s1.bundle s2.bundle = true →
            ∀ (k : Nat) blk before after, (toPlainStateReverts (extend s1.bundle s2.bundle))[k]? = some blk →
              ((p0 :: (l1 ++ l2).map (·.2))[k]? = some before) → (((l1 ++ l2).map (·.2))[k]? = some after) →
              PlainEq (applyRevertBlock true p0 blk after) before) :=
  extend_partial_proof db db2 sc p0 h1 h2 known hdb hwf hr

/-- **C18, `revert` after `extend`, region outside F5**: for the same split histories, `revert(j)` on the extended
bundle describes, relative to A's pre-state, the reference state after the first n-j groups of the second half.
Missing outside `extRevertOk`: reverting into A's blocks, storage-wiping reverts (F2), and accounts destroyed in A
and present in B, where it is false of the code (F5 below). -/
theorem extend_revert_partial (db db2 : BMap Info) (sc : Bool) (p0 : Plain) (h1 h2 : List Group) (j : Nat) (known : Bool)
    (hdb : dbMatches db p0) (hwf : plainWF p0) (hr : reachHistory sc p0 (h1 ++ h2) = true) :
    ∃ l1 l2, runHistory { db := db, sc := sc } p0 h1 = some l1 ∧
      ∀ s1 r1, l1.getLast? = some (s1, r1) → dbMatches db2 r1 →
        runHistory { db := db2, sc := sc } r1 h2 = some l2 ∧
        ∀ s2 r2, l2.getLast? = some (s2, r2) → extRevertOk s1.bundle s2.bundle j = true →
          ∀ tgt, (r1 :: l2.map (·.2))[h2.length - j]? = some tgt →
            PlainEq (applyChangeset (toPlainState (revertN (extend s1.bundle s2.bundle) j) known) p0) tgt :=
  extend_revert_proof db db2 sc p0 h1 h2 j known hdb hwf hr

/-- the region is non-trivial: bundle A writes slot 2 of contract 2, bundle B destroys and re-creates the
contract writing slot 1 (a wiping revert with a `Destroyed` slot): `extendOk`, and the extended bundle's
blocks give slot (2,2) the pre-values 0 and 7; F4's split is outside the region -/
example :
    (Wit.split Wit.f4db [(2, ⟨3, 1, 1, false⟩)] Wit.f4p0
        [[[(2, Wit.ea 3 1 1 false false [(2, ⟨0, 7⟩)])]]] Wit.f4h2).map (fun (a, b, r1, r2) =>
      (extendOk a b, Wit.slotsBefore true (extend a b) Wit.f4p0 [r1, r2] 2 2)) = some (true, [0, 7]) ∧
    (Wit.split Wit.f4db [(2, ⟨3, 1, 1, false⟩)] Wit.f4p0 Wit.f4h1 Wit.f4h2).map (fun (a, b, _, _) =>
      extendOk a b) = some false := by decide

/-- `take_n_reverts(n)` returns the first n blocks and leaves the rest: it is `List.splitAt n`
(for `n > len` the code's `take_all_reverts` branch agrees with `splitAt`) -/
theorem take_n_reverts_splitAt (b : BState) (n : Nat) :
    ((takeNReverts b n).1, (takeNReverts b n).2.reverts) = b.reverts.splitAt n :=
  takeN_splitAt b n

theorem take_n_reverts_append (b : BState) (n : Nat) :
    (takeNReverts b n).1 ++ (takeNReverts b n).2.reverts = b.reverts :=
  takeN_append b n

theorem take_n_reverts_keeps_state (b : BState) (n : Nat) :
    (takeNReverts b n).2.state = b.state ∧ (takeNReverts b n).2.contracts = b.contracts :=
  takeN_snd_rest b n

theorem take_all_reverts_eq (b : BState) : takeAllReverts b = takeNReverts b (b.reverts.length + 1) :=
  takeAll_eq b

/-- `prepend_state`: for every account of the newer bundle (`self`), the result has its info, its whole
storage if it was destroyed, and for each of its slots its present value -/
theorem prepend_never_overrides (self other : BState) (hw : WF self.state) (a : Nat) (acc : BAcct)
    (h : self.state.get a = some acc) :
    ∃ r, (prependState self other).state.get a = some r ∧ NewerWins acc r :=
  extendState_newer_wins other.state self.state hw a acc (mem_of_get _ _ _ h)

/-- … addresses only the older bundle has are kept unchanged, and the reverts are the older bundle's -/
theorem prepend_keeps_older (self other : BState) (a : Nat) (h : a ∉ self.state.map (·.1)) :
    (prependState self other).state.get a = other.state.get a ∧ (prependState self other).reverts = other.reverts :=
  ⟨extendState_older_kept other.state self.state a h, rfl⟩

/-- the same for `extend` (newer = `other`) -/
theorem extend_newer_wins (this other : BState) (hw : WF other.state) (a : Nat) (acc : BAcct)
    (h : other.state.get a = some acc) :
    ∃ r, (extend this other).state.get a = some r ∧ NewerWins acc r :=
  extendState_newer_wins _ other.state hw a acc (mem_of_get _ _ _ h)

/-- `extend` concatenates the revert lists block by block (length) -/
theorem extend_reverts_prefix (this other : BState) : (extend this other).reverts.take this.reverts.length = this.reverts := by
  simp [extend]

/-- hypotheses are satisfiable: a two-account newer bundle -/
example : WF ([(1, ⟨none, none, [], .destroyed⟩), (2, ⟨some ⟨1, 0, 0, true⟩, none, [(5, ⟨0, 3⟩)], .inMemoryChange⟩)] : BMap BAcct) := by
  unfold WF; decide

/-- `extend_storage` (used by `extend_state` for non-destroyed accounts): updated slots carry the newer
present value and keep the older original value -/
theorem extend_storage_present (this upd : BMap Slot) (hw : WF upd) (k : Nat) (s : Slot) (hm : (k, s) ∈ upd) :
    ∃ r, (extendStorage this upd).get k = some r ∧ r.present = s.present ∧
         r.orig = (match this.get k with | some o => o.orig | none => s.orig) :=
  extendStorage_present this upd hw k s hm

/-- positive instance (model): split with a fresh `State`, account destroyed in the second half: the
extended bundle's changeset gives the reference post-state, both flags -/
theorem extend_instance :
    (Wit.split Wit.f4db [(2, ⟨3, 1, 1, false⟩)] Wit.f4p0 Wit.f4h1 Wit.f4h2).map (fun (a, b, _, r2) =>
      ((applyChangeset (toPlainState (extend a b) true) Wit.f4p0).slot 2 1,
       (applyChangeset (toPlainState (extend a b) false) Wit.f4p0).slot 2 1, r2.slot 2 1,
       (applyChangeset (toPlainState (extend a b) false) Wit.f4p0).acct 2 == r2.acct 2)) = some (9, 9, 9, true) := by
  decide

/-- FINDING F4. Bundle A sets slot 1 of contract 2 to 7; bundle B (fresh `State`) destroys and re-creates
the contract writing slot 1. In the extended bundle the second block's revert lists slot 1 as
`Destroyed` (value 0 under both readings; the pre-bundle value is 0 too) although it was 7 before that
block; the monolithic bundle records 7.
Request lines: corpus/C18/F4-extend-keeps-destroyed-marker.bundle.case -/
theorem extend_prevalue_counterexample :
    reachHistory true Wit.f4p0 (Wit.f4h1 ++ Wit.f4h2) = true ∧
    (Wit.split Wit.f4db [(2, ⟨3, 1, 1, false⟩)] Wit.f4p0 Wit.f4h1 Wit.f4h2).map (fun (a, b, r1, r2) =>
      (Wit.slotsBefore false (extend a b) Wit.f4p0 [r1, r2] 2 1,
       Wit.slotsBefore true (extend a b) Wit.f4p0 [r1, r2] 2 1, r1.slot 2 1)) = some ([0, 0], [0, 0], 7) ∧
    (Wit.runLast { db := Wit.f4db, sc := true } Wit.f4p0 (Wit.f4h1 ++ Wit.f4h2)).map (fun r =>
      Wit.slotsBefore false r.1.bundle Wit.f4p0
        (Wit.refsOf { db := Wit.f4db, sc := true } Wit.f4p0 (Wit.f4h1 ++ Wit.f4h2)) 2 1) = some [0, 7] := by
  decide

/-- FINDING F5. Contract 5 (slot 3 = 7) destroyed in bundle A, re-created in bundle B (fresh `State`).
`revert(1)` on the extended bundle restores status `LoadedNotExisting` (from B's cache) instead of
`Destroyed`: no wipe, the changeset (Yes) leaves slot 3 = 7 whereas the state after A has 0. The
monolithic bundle reverts correctly.
Request lines: corpus/C18/F5-extend-then-revert-status.bundle.case -/
theorem extend_revert_counterexample :
    reachHistory true Wit.f5p0 (Wit.f5h1 ++ Wit.f5h2) = true ∧
    (Wit.split Wit.f5db [] Wit.f5p0 Wit.f5h1 Wit.f5h2).map (fun (a, b, r1, _) =>
      ((applyChangeset (toPlainState (revertN (extend a b) 1) true) Wit.f5p0).slot 5 3, r1.slot 5 3)) = some (7, 0) ∧
    (Wit.runLast { db := Wit.f5db, sc := true } Wit.f5p0 (Wit.f5h1 ++ Wit.f5h2)).map (fun r =>
      (applyChangeset (toPlainState (revertN r.1.bundle 1) true) Wit.f5p0).slot 5 3) = some 0 := by
  decide

/-- F5's split is outside the region `extRevertOk` in which `revert` after `extend` is claimed (contract 5 is held
with status `Destroyed` by bundle A and re-created in bundle B); a split without destruction is inside -/
theorem f5_outside_region :
    (Wit.split Wit.f5db [] Wit.f5p0 Wit.f5h1 Wit.f5h2).map (fun (a, b, _, _) => extRevertOk a b 1) = some false ∧
    (Wit.split Wit.f4db [(2, ⟨3, 1, 1, false⟩)] Wit.f4p0 Wit.f4h1
        [[[(2, Wit.ea 3 1 1 false false [(1, ⟨7, 9⟩)])]]]).map (fun (a, b, r1, _) =>
      (extRevertOk a b 1, (applyChangeset (toPlainState (revertN (extend a b) 1) true) Wit.f4p0).slot 2 1,
       (applyChangeset (toPlainState (revertN (extend a b) 1) false) Wit.f4p0).slot 2 1, r1.slot 2 1)) =
      some (true, 7, 7, 7) := by
  decide

end Revm.Props.C18
