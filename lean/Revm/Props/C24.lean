import Revm.Proofs.Backend
/-! C24 — alternative cryptographic back ends agree.

`ecrecover`: `Model.Backend.secpCore` is the C `secp256k1` path (`RecoverableSignature::from_compact`,
`recover_ecdsa`), `Model.Backend.k256Core` the pure-Rust path (`Signature::from_slice`, `normalize_s`
with the parity flip, `recover_from_prehash` with its identity check, low-s check and re-verification).
Both are written over ONE abstract group `C : Curve` (points, addition, decompression `lift`, x
coordinate, scalar inverse, serialisation are parameters; `[k]P` is iterated addition), and the
theorems hold for EVERY `C` with `CurveLaws C` (abelian group of exponent n, scalar inverses, and
`x(lift r b) = r`, `lift r (not b) = -(lift r b)`). What is NOT proved: that libsecp256k1's and k256's
field / group code implement such a `C`, and the same one — that is the trusted base of this property
and is exercised by the two-binary correspondence run.

KZG point evaluation: both libraries are opaque; only `kzg_point_evaluation::run` is modelled. The
theorems about it are named `_partial`: they reduce agreement of the precompile to agreement of the
libraries and show which replies do not depend on the library at all. -/
namespace Revm.Props.C24
open Revm Revm.Model.Backend Revm.Spec.Backend

/-! ## ecrecover: the algebra -/

/-- Malleability of public-key recovery: `recover(r, n - s, v xor 1) = recover(r, s, v)`.
This is what k256's `normalize_s()` + `recid ^= 1` relies on. -/
theorem recover_malleable (C : Curve) (L : CurveLaws C) (z r s recid : Nat)
    (hrec : recid < 2) (hs0 : 0 < s) (hs : s < C.n) :
    secpCore C z r (C.n - s) (recid ^^^ 1) = secpCore C z r s recid :=
  Proofs.Backend.secp_malleable L z r s recid hrec hs0 hs

/-- The C path computes the textbook recovery `Q = r^-1 (s R - z G)`, `R = lift r parity`, rejecting
the identity; the message enters only through `z mod n`. -/
theorem secp_is_textbook_recovery (C : Curve) (L : CurveLaws C) (z r s recid : Nat)
    (hr0 : 0 < r) (hr : r < C.n) (hs0 : 0 < s) (hs : s < C.n) :
    secpCore C z r s recid = Spec.Backend.recover C z r s (isOdd recid) :=
  Proofs.Backend.secp_eq_spec L z r s recid hr0 hr hs0 hs

/-- The ECDSA verification equation holds on every recovered key, so k256's final
`vk.verify_prehash(prehash, signature)?` can never reject what was just recovered:
`[z s^-1]G + [r s^-1]Q = R` for `Q = [-(r^-1 z)]G + [r^-1 s]R`. -/
theorem verification_equation_holds (C : Curve) (L : CurveLaws C) (z r s : Nat) (R : C.Pt)
    (hr0 : 0 < r) (hr : r < C.n) (hs0 : 0 < s) (hs : s < C.n) :
    C.add (smul C (z * C.inv s % C.n) C.G)
      (smul C (r * C.inv s % C.n)
        (C.add (smul C (negModN C (C.inv r * z % C.n)) C.G) (smul C (C.inv r * s % C.n) R))) = R :=
  Proofs.Backend.verify_point L z r s R hr0 hr hs0 hs

/-! ## ecrecover: the range gates of the two wrappers (no group law needed) -/

/-- Both paths reject exactly the same (r, s): outside `0 < r < n`, `0 < s < n` both return nothing
(libsecp256k1: overflow at parse, zero at recovery; k256: `ScalarPrimitive` range, then `is_zero`). -/
theorem rs_gates_reject_same (C : Curve) (z r s recid : Nat)
    (h : ¬ (0 < r ∧ r < C.n ∧ 0 < s ∧ s < C.n)) :
    secpCore C z r s recid = none ∧ k256Core C z r s recid = none := by
  unfold secpCore k256Core
  by_cases hov : r ≥ C.n ∨ s ≥ C.n
  · rw [if_pos hov, if_pos hov]; exact ⟨rfl, rfl⟩
  · have hz : r = 0 ∨ s = 0 := by omega
    rw [if_neg hov, if_neg hov, if_pos hz, if_pos hz]; exact ⟨rfl, rfl⟩

/-- conversely, an answer from either path implies the range conditions -/
theorem rs_gates_necessary (C : Curve) (z r s recid : Nat)
    (h : secpCore C z r s recid ≠ none ∨ k256Core C z r s recid ≠ none) :
    0 < r ∧ r < C.n ∧ 0 < s ∧ s < C.n := by
  apply Classical.byContradiction
  intro hn
  have := rs_gates_reject_same C z r s recid hn
  rcases h with h | h
  · exact h this.1
  · exact h this.2

/-! ## ecrecover: the two back ends are the same function -/

/-- **Headline.** For every message, every (r, s) (in range or not, low or high s, liftable or not,
recovered key at infinity or not) and both recovery ids, the k256 path returns exactly what the C
secp256k1 path returns. -/
theorem k256_core_eq_secp_core (C : Curve) (L : CurveLaws C) (z r s recid : Nat) (hrec : recid < 2) :
    k256Core C z r s recid = secpCore C z r s recid :=
  Proofs.Backend.k256_eq_secp L z r s recid hrec

/-- `ec_recover_run` over the k256 back end = `ec_recover_run` over the secp256k1 back end, as
functions of the input bytes (any length: right-padded / cut to 128) and the gas limit, including all
failures (out of gas, bad `v` word, empty output). -/
theorem ecrecover_backends_agree (C : Curve) (L : CurveLaws C) (input : List Nat) (gas : Nat) :
    ecRecoverRun (fun z r s recid => outBytes C (k256Core C z r s recid)) input gas
      = ecRecoverRun (fun z r s recid => outBytes C (secpCore C z r s recid)) input gas :=
  Proofs.Backend.ecRecoverRun_congr _ _
    (fun z r s recid h => by rw [Proofs.Backend.k256_eq_secp L z r s recid h]) input gas

/-- the `v` gate: a `v` word other than 27 / 28 (as a 32-byte big-endian integer) gives the empty
output at the base price, whatever the back end -/
theorem ecrecover_v_gate (f : Nat → Nat → Nat → Nat → List Nat) (input : List Nat) (gas : Nat)
    (hg : 3000 ≤ gas) (hv : vGate (rightPad 128 input) = false) :
    ecRecoverRun f input gas = .ok 3000 [] := by
  unfold ecRecoverRun
  rw [if_neg (by omega)]
  dsimp only
  rw [hv]
  rfl

/-- the `expect("recovery ID is valid")` / `unwrap()` sites of the wrapper never fire -/
theorem ecrecover_never_panics (f : Nat → Nat → Nat → Nat → List Nat) (input : List Nat) (gas : Nat) :
    ecRecoverRun f input gas ≠ .panic :=
  Proofs.Backend.ecRecoverRun_no_panic f input gas

/-- The executable model used by the correspondence driver (`oracleCore`: gates and liftability of r
decided concretely for secp256k1, the recovered address taken from the request line) reproduces the
abstract model whenever the claim on the request line is the back end's real answer. -/
theorem oracle_model_sound (C : Curve) (hn : C.n = N)
    (hlift : ∀ r b, C.lift r b = none ↔ liftable r = false) (z r s recid : Nat) :
    oracleCore (outBytes C (secpCore C z r s recid)) z r s recid = outBytes C (secpCore C z r s recid) :=
  Proofs.Backend.oracle_sound C hn hlift z r s recid

/-! ## KZG point evaluation (wrapper only; both libraries are parameters) -/

/-- FULL statement of the KZG half (not proved: `verifyA`, `verifyB` stand for
`c_kzg::KzgProof::verify_kzg_proof(..).unwrap_or(false)` and the `kzg_rs` one, which are not modelled) -/
def KzgBackendsAgreeStatement (verifyA verifyB : List Nat → Nat → Nat → List Nat → Bool) : Prop :=
  ∀ (input : List Nat), (∀ b ∈ input, b < 256) → ∀ gas : Nat, kzgRun verifyA input gas = kzgRun verifyB input gas

/-- Reduction: if the two libraries agree on well-formed arguments (48-byte commitment and proof,
256-bit z and y — canonical or not), the precompile agrees on every input and gas limit.
Missing for the full statement: the hypothesis itself (carried by the two-binary diff). -/
theorem kzg_backends_agree_partial (verifyA verifyB : List Nat → Nat → Nat → List Nat → Bool)
    (h : ∀ c z y p, c.length = 48 → p.length = 48 → z < 2^256 → y < 2^256 → verifyA c z y p = verifyB c z y p) :
    KzgBackendsAgreeStatement verifyA verifyB :=
  fun input hb gas => Proofs.Backend.kzgRun_congr verifyA verifyB h input hb gas

/-- when a gate of the wrapper fails (gas < 50000, length ≠ 192, versioned hash ≠ 0x01 ++ sha256(commitment)[1..])
the reply does not depend on the library -/
theorem kzg_gate_failure_any_library_partial (verifyA verifyB : List Nat → Nat → Nat → List Nat → Bool)
    (input : List Nat) (gas : Nat)
    (hgate : gas < 50000 ∨ input.length ≠ 192 ∨ versionedHash ((input.drop 96).take 48) ≠ input.take 32) :
    kzgRun verifyA input gas = kzgRun verifyB input gas :=
  Proofs.Backend.kzgRun_gate verifyA verifyB input gas hgate

/-- success is the constant 64-byte return value at exactly 50000 gas and implies every gate and a
positive library verdict -/
theorem kzg_success_shape_partial (v : List Nat → Nat → Nat → List Nat → Bool) (input : List Nat)
    (gas g : Nat) (out : List Nat) (h : kzgRun v input gas = .ok g out) :
    g = 50000 ∧ out = returnValue ∧ 50000 ≤ gas ∧ input.length = 192 ∧
    versionedHash ((input.drop 96).take 48) = input.take 32 ∧
    v ((input.drop 96).take 48) (beNat ((input.drop 32).take 32)) (beNat ((input.drop 64).take 32))
      ((input.drop 144).take 48) = true :=
  Proofs.Backend.kzgRun_ok v input gas g out h

/-- in the library model used by the driver (`libVerify`: canonical-scalar check, then an opaque
pairing check) a z or y `≥ BLS_MODULUS` is rejected whatever the pairing check would say -/
theorem kzg_noncanonical_rejected_partial (pr : List Nat → Nat → Nat → List Nat → Bool)
    (c p : List Nat) (z y : Nat) (h : z ≥ BLS_R ∨ y ≥ BLS_R) : libVerify pr c z y p = false :=
  Proofs.Backend.libVerify_noncanonical pr c p z y h

/-! ## non-vacuity: a concrete group satisfying `CurveLaws`, with recoverable signatures

Toy "curve": the cyclic group Z/7 (point k = [k]G, G = 1), x coordinate `x(k) = min(k, 7-k)` so that
`x(P) = x(-P)`; x = 1, 2, 3 lift to the points (1,6), (2,5), (3,4); x = 0 belongs to the identity only
and x ≥ 4 to no point. -/

def toyLift : Nat → Bool → Option (Fin 7)
  | 1, false => some 1 | 1, true => some 6
  | 2, false => some 2 | 2, true => some 5
  | 3, false => some 3 | 3, true => some 4
  | _, _ => none

def toy : Curve where
  Pt := Fin 7
  deq := inferInstance
  n := 7
  zero := 0
  add := fun a b => a + b
  neg := fun a => -a
  G := 1
  lift := toyLift
  xmodn := fun k => min k.val (7 - k.val) % 7
  inv := fun a => a ^ 5 % 7
  ser := fun k => List.replicate 31 0 ++ [k.val]

/-- a point of the toy group -/
def toyPt (k : Fin 7) : toy.Pt := k

theorem toy_laws : CurveLaws toy where
  n_gt_one := by decide
  add_assoc := by show ∀ a b c : Fin 7, a + b + c = a + (b + c); decide
  add_comm := by show ∀ a b : Fin 7, a + b = b + a; decide
  add_zero := by show ∀ a : Fin 7, a + 0 = a; decide
  add_neg := by show ∀ a : Fin 7, a + -a = 0; decide
  order := by
    have h : ∀ a : Fin 7, smul toy 7 (toyPt a) = toyPt 0 := by decide
    exact h
  inv_mul := by
    intro a h0 h7
    have h7' : a < 7 := h7
    have : a = 1 ∨ a = 2 ∨ a = 3 ∨ a = 4 ∨ a = 5 ∨ a = 6 := by omega
    rcases this with rfl | rfl | rfl | rfl | rfl | rfl <;> decide
  lift_x := by
    intro r b R _ h
    match r, b, h with
    | 1, false, h | 1, true, h | 2, false, h | 2, true, h | 3, false, h | 3, true, h =>
      cases h; decide
  lift_neg := by
    intro r b
    match r, b with
    | 0, true | 0, false => rfl
    | 1, true | 1, false => rfl
    | 2, true | 2, false => rfl
    | 3, true | 3, false => rfl
    | _ + 4, true | _ + 4, false => rfl

/-- the hypotheses of the headline theorem are satisfiable, and on the toy group both paths do
recover keys: low s (s = 2 ≤ 3) and high s (s = 5 > 3, normalised to 2 with the parity flipped) -/
example : k256Core toy 3 2 2 0 = some (toyPt 4) ∧ secpCore toy 3 2 2 0 = some (toyPt 4) := by decide
example : k256Core toy 3 2 5 1 = some (toyPt 4) ∧ secpCore toy 3 2 5 1 = some (toyPt 4) := by decide
/-- the recovered key is the identity (s R = z G): both reject -/
example : k256Core toy 2 1 2 0 = none ∧ secpCore toy 2 1 2 0 = none := by decide
/-- x = 4 is not on the toy curve; r = 7 is out of range -/
example : k256Core toy 3 4 2 0 = none ∧ secpCore toy 3 7 2 0 = none := by decide
example : k256Core toy 3 2 5 1 = secpCore toy 3 2 5 1 := k256_core_eq_secp_core toy toy_laws 3 2 5 1 (by decide)

/-- `oracle_model_sound`'s hypotheses are satisfiable for the real order N -/
def unitCurve : Curve where
  Pt := Unit
  deq := inferInstance
  n := N
  zero := ()
  add := fun _ _ => ()
  neg := fun _ => ()
  G := ()
  lift := fun r _ => if liftable r then some () else none
  xmodn := fun _ => 0
  inv := fun _ => 0
  ser := fun _ => []
example : unitCurve.n = N ∧ ∀ r b, unitCurve.lift r b = none ↔ liftable r = false := by
  refine ⟨rfl, fun r b => ?_⟩
  show (if liftable r then some () else none) = none ↔ _
  cases liftable r <;> simp

/-- wrapper-level examples on concrete bytes: a `v` word of 29 fails the gate; 27 passes it -/
example : vGate (rightPad 128 (List.replicate 63 0 ++ [29])) = false := by decide
example : vGate (rightPad 128 (List.replicate 63 0 ++ [27])) = true := by decide
/-- the KZG gate hypothesis is satisfiable: wrong length -/
example : kzgRun (fun _ _ _ _ => true) [1, 2, 3] 50000 = .err .BlobInvalidInputLength := by decide
example : kzgRun (fun _ _ _ _ => true) [1, 2, 3] 49999 = .err .OutOfGas := by decide

/-- the trivial instance of the reduction's hypothesis, and of the full statement -/
example (f : List Nat → Nat → Nat → List Nat → Bool) : KzgBackendsAgreeStatement (libVerify f) (libVerify f) :=
  kzg_backends_agree_partial _ _ (fun _ _ _ _ _ _ _ _ => rfl)

/-- A successful call, evaluated by the kernel: the opening of the zero polynomial (commitment and
proof = point at infinity `c0 00..00`, z = y = 0) under the well-known versioned hash `010657f3..4014`
of that commitment. This also checks the SHA-256 definition of the model on a 48-byte message against
an independently computed digest, and shows that the hypothesis of `kzg_success_shape_partial` is
satisfiable. -/
def infCommitment : List Nat := 0xc0 :: List.replicate 47 0
def zeroOpening : List Nat :=
  [0x01, 0x06, 0x57, 0xf3, 0x75, 0x54, 0xc7, 0x81, 0x40, 0x2a, 0x22, 0x91, 0x7d, 0xee, 0x2f, 0x75,
   0xde, 0xf7, 0xab, 0x96, 0x6d, 0x7b, 0x77, 0x09, 0x05, 0x39, 0x8e, 0xba, 0x3c, 0x44, 0x40, 0x14]
  ++ List.replicate 64 0 ++ infCommitment ++ infCommitment
example : kzgRun (libVerify (fun _ _ _ _ => true)) zeroOpening 50000 = .ok 50000 returnValue := by
  decide +kernel

end Revm.Props.C24
