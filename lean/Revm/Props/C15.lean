import Revm.Proofs.StateDb
/-! C15 — State database reads reflect exactly the committed history.

`Model.StateDb` follows `revm::db::State` / `CacheState` / `CacheAccount` / `AccountStatus`
(every `unreachable!`, `expect`, `unwrap` is an explicit `Except.error`); `Spec.StateDb` is a plain
reference state `Address → Option (info, Slot → U256)` to which every committed account is applied
directly (`applyAcct`). A history is a list of `Op`s: reads (`basic`, `storage`, `code_by_hash`),
commits of an `EvmState`, balance increments and drains. `Reach` are the facts the EVM guarantees
about the histories it produces (accounts are loaded before they are read / committed; a non-empty
account never becomes empty except by self-destruct or re-creation; an empty touched account has no
storage writes; infos are well-formed; increments do not overflow; drained balances fit `u128`).

FINDING. The real code violates the property in one region (confirmed on the real code, witnesses
below): accounts WITHOUT CODE AND NONCE THAT HAVE STORAGE (possible before EIP-161):
 (A) such an account in the database (`LoadedEmptyEIP161`, or `Loaded` with `has_no_code_and_nonce`)
     becomes `InMemoryChange` on its first change and its unknown slots then read as 0
     (DESIGN §9 #11);
 (B) with state clearing off, an empty account created with storage loses the storage when it is
     touched again (`touch_create_pre_eip161` from `InMemoryChange` rebuilds the account).
The theorem therefore carries the two exclusions `CodelessNoStorage D` and `Excl` as explicit
hypotheses and is named `_partial`; the full statement is `StateReadsRefStatement` and is refuted
by `state_reads_ref_counterexample_A/_B`.

The last sentence of the property (State and CacheDB give identical execution results) has no Lean
counterpart here (CacheDB is modelled by C20); it is compared in-harness on every `tx` line. -/
namespace Revm.Props.C15
open Revm Revm.Model.StateDb Revm.Spec.StateDb

/-- the property at full strength: for every database, both state-clear settings, with or without
bundle update, every reachable history runs without panic on the block-state database and every
read returns what the plain reference state returns -/
def StateReadsRefStatement : Prop :=
  ∀ (D : Db) (sc bu : Bool) (ops : List Op), DbWf D → Reach D.code sc (St.init D) ops →
    ∃ s', (State.build D sc bu none).run ops = .ok (s', (run D.code sc (St.init D) ops).2)

/-- C15 outside the excluded region: all replies of the block-state database (account views, storage
words, code, drained balances) equal those of the plain reference state, for every history, both
state-clear settings, with and without bundle update; in particular the run never panics -/
theorem state_reads_ref_partial (D : Db) (sc bu : Bool) (ops : List Op) (hD : DbWf D)
    (hE : CodelessNoStorage D) (hx : Excl sc ops) (hr : Reach D.code sc (St.init D) ops) :
    ∃ s', (State.build D sc bu none).run ops = .ok (s', (run D.code sc (St.init D) ops).2) :=
  Proofs.StateDb.state_reads_ref sc bu ops hD hE hx hr

/-- the `unreachable!` arms of the status machine (`on_touched_empty_post_eip161`,
`on_touched_created_pre_eip161`, `State::storage`), the `expect` in `apply_account_state` and the
`unwrap` in `drain_balance` are never reached by a reachable history -/
theorem unreachable_arms_unreachable_partial (D : Db) (sc bu : Bool) (ops : List Op) (hD : DbWf D)
    (hE : CodelessNoStorage D) (hx : Excl sc ops) (hr : Reach D.code sc (St.init D) ops) :
    ∀ e, (State.build D sc bu none).run ops ≠ .error e := by
  obtain ⟨s', h⟩ := state_reads_ref_partial D sc bu ops hD hE hx hr
  intro e he; rw [h] at he; cases he

/-- touched empty accounts are removed once state clearing is active (reference semantics, which
the database reads equal by `state_reads_ref_partial`) -/
theorem touched_empty_removed (ra : Option (Info × (Slot → Word))) (a : CommitAcct)
    (ht : a.touched = true) (hs : a.selfdestructed = false) (hc : a.created = false)
    (he : a.info.isEmpty = true) : applyAcct true ra a = none := by
  simp [applyAcct, ht, hs, hc, he]

/-- the per-account status machine never panics and keeps the Appendix-A.2 relation: one committed
account applied to a related cache entry gives a related cache entry -/
theorem account_step_refines (D : Db) (sc : Bool) (a : Addr) (oc : Option CacheAccount) (ra)
    (acct : CommitAcct) (hD : DbWf D) (hE : CodelessNoStorage D)
    (hinv : Proofs.StateDb.AcctInv D D sc a oc ra) (hl : acct.touched = true → oc ≠ none)
    (hw : acct.touched = true → WfInfo acct.info)
    (hre : acct.touched = true → acct.selfdestructed = false → acct.created = false →
      acct.info.isEmpty = true → isEmptyRef ra ∧ acct.changed = [])
    (hx : ExclAcct sc acct) :
    ∃ oc' t, applyAccountState sc oc acct = .ok (oc', t) ∧
      Proofs.StateDb.AcctInv D D sc a oc' (applyAcct sc ra acct) :=
  Proofs.StateDb.acct_step acct hD hE hinv hl hw hre hx

/-! ## witnesses -/

def KE : Nat := KECCAK_EMPTY
def a1 : Addr := 0xa1

/-- (A) the database holds an empty account with slot 1 = 9 -/
def dbA : Db :=
  { basic := fun a => if a = a1 then some ⟨0, 0, KE, none⟩ else none,
    storage := fun a k => if a = a1 ∧ k = 1 then 9 else 0,
    code := fun _ => [] }
/-- load it, commit a balance change (5 wei arrive), read slot 1 -/
def opsA : List Op :=
  [.basic a1,
   .commit [{ addr := a1, info := ⟨5, 0, KE, none⟩, storage := [], touched := true, created := false,
              selfdestructed := false }],
   .storage a1 1]

def dbB : Db := { basic := fun _ => none, storage := fun _ _ => 0, code := fun _ => [] }
/-- (B) state clearing off: create an empty account with slot 0 = 1, read it, touch it, read again -/
def opsB : List Op :=
  [.basic a1,
   .commit [{ addr := a1, info := ⟨0, 0, KE, some []⟩, storage := [(0, 0, 1)], touched := true,
              created := true, selfdestructed := false }],
   .storage a1 0,
   .commit [{ addr := a1, info := ⟨0, 0, KE, some []⟩, storage := [], touched := true,
              created := false, selfdestructed := false }],
   .storage a1 0]

def replies (r : Except String (State × List Reply)) : Option (List Reply) :=
  match r with
  | .ok p => some p.2
  | .error _ => none

theorem dbA_wf : DbWf dbA := by
  intro a i h
  simp only [dbA] at h
  split at h
  · cases h; exact ⟨by decide, fun _ => Or.inl rfl⟩
  · cases h

theorem dbB_wf : DbWf dbB := by intro a i h; cases h

theorem wf_KE_none (b n : Nat) : WfInfo ⟨b, n, KE, none⟩ := ⟨by show KE ≠ 0; decide, fun _ => Or.inl rfl⟩
theorem wf_KE_nil (b n : Nat) : WfInfo ⟨b, n, KE, some []⟩ := ⟨by show KE ≠ 0; decide, fun _ => Or.inr rfl⟩

theorem reachA : Reach dbA.code true (St.init dbA) opsA := by
  refine ⟨trivial, ⟨?_, trivial⟩, rfl, trivial⟩
  intro _
  exact ⟨rfl, wf_KE_none 5 0, fun _ _ h => by simp [Info.isEmpty] at h⟩

theorem reachB : Reach dbB.code false (St.init dbB) opsB := by
  refine ⟨trivial, ⟨?_, trivial⟩, rfl, ⟨?_, trivial⟩, rfl, trivial⟩
  · intro _
    exact ⟨rfl, wf_KE_nil 0 0, fun _ h _ => by cases h⟩
  · intro _
    refine ⟨rfl, wf_KE_nil 0 0, fun _ _ _ => ⟨by exact rfl, rfl⟩⟩

/-- on witness (A) the database answers 0 for slot 1, the reference 9 -/
theorem witnessA_replies :
    replies ((State.build dbA true false none).run opsA) =
      some [.info (some ⟨0, 0, KE, []⟩), .done, .word 0] ∧
    (run dbA.code true (St.init dbA) opsA).2 = [.info (some ⟨0, 0, KE, []⟩), .done, .word 9] := by
  constructor <;> decide

/-- on witness (B) the second read answers 0, the reference 1 -/
theorem witnessB_replies :
    replies ((State.build dbB false false none).run opsB) =
      some [.info none, .done, .word 1, .done, .word 0] ∧
    (run dbB.code false (St.init dbB) opsB).2 = [.info none, .done, .word 1, .done, .word 1] := by
  constructor <;> decide

/-- the full statement is false of the code as it is: witness (A), DESIGN §9 #11 -/
theorem state_reads_ref_counterexample_A : ¬ StateReadsRefStatement := by
  intro h
  obtain ⟨s', hs⟩ := h dbA true false opsA dbA_wf reachA
  have h1 := witnessA_replies.1
  rw [hs, witnessA_replies.2] at h1
  simp only [replies] at h1
  exact absurd h1 (by decide)

/-- the full statement is false of the code as it is: witness (B), state clearing off -/
theorem state_reads_ref_counterexample_B : ¬ StateReadsRefStatement := by
  intro h
  obtain ⟨s', hs⟩ := h dbB false false opsB dbB_wf reachB
  have h1 := witnessB_replies.1
  rw [hs, witnessB_replies.2] at h1
  simp only [replies] at h1
  exact absurd h1 (by decide)

/-! ## non-vacuity: a non-trivial history satisfying every hypothesis of the theorem -/

/-- a contract-like account (nonce 1) with slot 1 = 9 -/
def dbC : Db :=
  { basic := fun a => if a = a1 then some ⟨7, 1, KE, none⟩ else none,
    storage := fun a k => if a = a1 ∧ k = 1 then 9 else 0,
    code := fun _ => [] }
/-- change it (slot 2 written), read both slots, then it self-destructs -/
def opsC : List Op :=
  [.basic a1,
   .commit [{ addr := a1, info := ⟨5, 2, KE, none⟩, storage := [(2, 0, 4), (1, 9, 9)], touched := true,
              created := false, selfdestructed := false }],
   .storage a1 1, .storage a1 2,
   .commit [{ addr := a1, info := ⟨0, 2, KE, none⟩, storage := [], touched := true, created := false,
              selfdestructed := true }],
   .basic a1]

example : DbWf dbC ∧ CodelessNoStorage dbC ∧ Excl true opsC ∧ Reach dbC.code true (St.init dbC) opsC := by
  refine ⟨?_, ?_, ?_, ?_⟩
  · intro a i h
    simp only [dbC] at h
    split at h
    · cases h; exact wf_KE_none 7 1
    · cases h
  · intro a i h hc
    simp only [dbC] at h
    split at h
    · cases h; simp [Info.hasNoCodeAndNonce] at hc
    · cases h
  · intro op hop
    simp only [opsC, List.mem_cons, List.mem_nil_iff, or_false] at hop
    rcases hop with h | h | h | h | h | h <;> subst h <;> simp only [ExclOp]
    · intro a ha hsc; cases hsc
    · intro a ha hsc; cases hsc
  · refine ⟨trivial, ⟨?_, trivial⟩, rfl, rfl, ⟨?_, trivial⟩, trivial, trivial⟩
    · intro _
      exact ⟨rfl, wf_KE_none 5 2, fun _ _ h => by simp [Info.isEmpty] at h⟩
    · intro _
      exact ⟨rfl, wf_KE_none 0 2, fun h => by cases h⟩

/-- and on it the database indeed answers 9, 4 and, after the self-destruct, `none` -/
example : replies ((State.build dbC true true none).run opsC) =
    some [.info (some ⟨7, 1, KE, []⟩), .done, .word 9, .word 4, .done, .info none] := by decide

end Revm.Props.C15
