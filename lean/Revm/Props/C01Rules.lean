import Revm.Proofs.EvmStep2Mem
import Revm.Proofs.EvmStep2Copy
import Revm.Proofs.EvmStep2Halt
import Revm.Proofs.EvmStep2Host
import Revm.Proofs.EvmStep2State
import Revm.Proofs.EvmStep2Outcome
import Revm.Proofs.EvmStep2Table
/-! C01, continued — `step_*_agrees` for the instruction families that `Props/C01.lean` leaves open: memory, copy,
frame-ending, KECCAK256 / LOG, state-touching host instructions and the CALL / CREATE family.

Every theorem has the shape of `Props.C01.step_pure_agrees`: for ANY machine state that is well-formed (`WFM`) and whose
next opcode is X, `Interp.step` is exactly the rule of `Spec/EvmRules2.lean` — a function of the popped words, the
frame's memory as an abstract byte list (`memOf`, zero-extended on demand by `touch`), the gas formulas of
`Spec/GasCalc.lean` (unbounded `Nat`, per hardfork) and, for host instructions, the host's answer.

`WFM s` (`Proofs/EvmStep2.lean`) = `WF s` of C01 (gas meter a `u64`, at most 1024 stack words `< 2^256`) + the
representation invariant of the shared memory (C11) with the frame's checkpoint `≤ 2^62` + byte strings that are Rust
slices (`≤ isize::MAX`) + the frame's gas budget `gas left + C_mem(active words) < 2^59`. The last bound is where the
64-bit cost functions of the code (`num_words` saturates, `memory_gas` saturates) coincide with the formulas over unbounded
numbers (C14's `*_counterexample` theorems live above it); real budgets are below `2^25`. -/
namespace Revm.Props.C01Rules
open Revm Revm.Model Revm.Model.Interp
open Revm.Spec.EvmRules Revm.Spec.EvmRules2
open Revm.Proofs.EvmStep2 (WFM)

/-! ## (a) memory -/

/-- MLOAD: `G_verylow` + `C_mem` expansion to `off + 32`; the word read big-endian from the zero-extended memory;
`InvalidOperandOOG` for an offset `≥ 2^64`, `MemoryOOG` exactly when the expansion exceeds the gas left -/
theorem step_mload_agrees (s : IState) (hcode : s.code[s.pc]? = some 0x51) (hwf : WFM s) :
    step s = .pure (mloadRule s) := Proofs.EvmStep2.step_mload s hcode hwf

/-- a state satisfying the hypotheses: `PUSH1 0 MLOAD` at the MLOAD -/
example : ∃ s : IState, WFM s ∧ s.code[s.pc]? = some 0x51 :=
  ⟨{ IState.init [0x60, 0, 0x51] [] 100000 false 17 0 0 0 {} with pc := 2, stack := [0] },
   ⟨⟨by decide, by decide, by decide⟩, Proofs.Memory.new_wf, by decide, by decide, by decide, by decide, by decide, by decide⟩,
   by decide⟩

/-- MSTORE: the 32 big-endian bytes of the value -/
theorem step_mstore_agrees (s : IState) (hcode : s.code[s.pc]? = some 0x52) (hwf : WFM s) :
    step s = .pure (mstoreRule s) := Proofs.EvmStep2.step_mstore s hcode hwf

/-- MSTORE8: the least significant byte -/
theorem step_mstore8_agrees (s : IState) (hcode : s.code[s.pc]? = some 0x53) (hwf : WFM s) :
    step s = .pure (mstore8Rule s) := Proofs.EvmStep2.step_mstore8 s hcode hwf

/-- MSIZE: the length of the frame's memory (`32 · μ_i`) -/
theorem step_msize_agrees (s : IState) (hcode : s.code[s.pc]? = some 0x59) (hwf : WFM s) :
    step s = .pure (msizeRule s) := Proofs.EvmStep2.step_msize s hcode hwf

/-- MCOPY (EIP-5656): `G_verylow + G_copy · ⌈len / 32⌉` + expansion to `max(dst, src) + len`; memmove -/
theorem step_mcopy_agrees (s : IState) (hcode : s.code[s.pc]? = some 0x5e) (hwf : WFM s) :
    step s = .pure (mcopyRule s) := Proofs.EvmStep2.step_mcopy s hcode hwf

/-- what an example looks at: pc, gas left, stack and frame memory of a continuing state -/
def view : Done → Option (Nat × Nat × List Nat × List Nat)
  | .next s => some (s.pc, s.gas.remaining, s.stack, memOf s)
  | _ => none

/-- the rules are not vacuous: MSTORE of `0x2a` at offset 0 into empty memory costs `3 + C_mem(1) = 6` and leaves 32
bytes whose last is `0x2a` -/
example : view (mstoreRule { IState.init [0x52] [] 100 false 17 0 0 0 {} with stack := [0x2a, 0] }) =
    some (1, 94, [], List.replicate 31 0 ++ [0x2a]) := by decide +kernel

/-! ## (b) copies into memory (CALLDATASIZE / CODESIZE / RETURNDATASIZE are rows of `Props.C01.step_env_agrees`) -/

/-- CALLDATALOAD: the 32 input bytes at the offset, zero-padded behind the end of the input, as a big-endian word -/
theorem step_calldataload_agrees (s : IState) (hcode : s.code[s.pc]? = some 0x35) (hwf : WFM s) :
    step s = .pure (calldataloadRule s) := Proofs.EvmStep2.step_calldataload s hcode hwf

/-- CALLDATACOPY: `G_verylow + G_copy · ⌈len / 32⌉` + expansion; zero padding behind the end of the input -/
theorem step_calldatacopy_agrees (s : IState) (hcode : s.code[s.pc]? = some 0x37) (hwf : WFM s) :
    step s = .pure (calldatacopyRule s) := Proofs.EvmStep2.step_calldatacopy s hcode hwf

/-- CODECOPY in legacy code (in an EOF frame its `assume!(!is_eof)` is violated: a fault of the model): the contract's
own bytes (`code.take origLen`: without the analysis padding) -/
theorem step_codecopy_agrees (s : IState) (hcode : s.code[s.pc]? = some 0x39) (hwf : WFM s)
    (hleg : s.isEof = false) : step s = .pure (codecopyRule s) := Proofs.EvmStep2.step_codecopy s hcode hwf hleg

/-- RETURNDATACOPY (EIP-211): `OutOfOffset` exactly when `off + len` (unbounded sum) exceeds the buffer -/
theorem step_returndatacopy_agrees (s : IState) (hcode : s.code[s.pc]? = some 0x3e) (hwf : WFM s) :
    step s = .pure (returndatacopyRule s) := Proofs.EvmStep2.step_returndatacopy s hcode hwf

/-- CALLDATACOPY of 4 bytes from offset 1 of a 3-byte input: two data bytes, two zeros, memory grown to one word -/
example : view (calldatacopyRule { IState.init [0x37] [7, 8, 9] 100 false 17 0 0 0 {} with stack := [4, 1, 0] }) =
    some (1, 91, [], [8, 9, 0, 0] ++ List.replicate 28 0) := by decide +kernel

/-! ## (c) the frame ends -/

theorem step_stop_agrees (s : IState) (hcode : s.code[s.pc]? = some 0x00) : step s = .pure (stopRule s) :=
  Proofs.EvmStep2.step_stop s hcode

theorem step_invalid_agrees (s : IState) (hcode : s.code[s.pc]? = some 0xfe) : step s = .pure (invalidRule s) :=
  Proofs.EvmStep2.step_invalid s hcode

/-- RETURN: output `μ[off .. off + len)` after expansion; the final state keeps the unspent gas -/
theorem step_return_agrees (s : IState) (hcode : s.code[s.pc]? = some 0xf3) (hwf : WFM s) :
    step s = .pure (retRule s) := Proofs.EvmStep2.step_return s hcode hwf

/-- REVERT (EIP-140): `NotActivated` before Byzantium, else RETURN's rule with result `Revert` -/
theorem step_revert_agrees (s : IState) (hcode : s.code[s.pc]? = some 0xfd) (hwf : WFM s) :
    step s = .pure (revertRule s) := Proofs.EvmStep2.step_revert s hcode hwf

/-- what an example looks at in a stopped frame: result, output, gas left -/
def viewHalt : Done → Option (IResult × List Nat × Nat)
  | .halt r out s => some (r, out, s.gas.remaining)
  | _ => none

/-- RETURN of 2 bytes at offset 31 of a one-word memory: grows to two words (3 gas), output = last byte and a zero -/
example : viewHalt (retRule { IState.init [0xf3] [] 100 false 17 0 0 0 {} with
      stack := [2, 31], mem := { buffer := List.replicate 31 0 ++ [5], checkpoints := [], lastCheckpoint := 0 } }) =
    some (.Return, [5, 0], 97) := by decide +kernel

/-! ## (d) KECCAK256 and LOG0 … LOG4: the question asked and the continuation -/

/-- KECCAK256: `30 + 6 · ⌈len / 32⌉` + expansion; the hash function is asked about exactly `μ[off .. off + len)` and its
answer replaces the two operands; the empty string is not asked about -/
theorem step_keccak_agrees (s : IState) (hcode : s.code[s.pc]? = some 0x20) (hwf : WFM s) :
    step s = keccakRule s := Proofs.EvmStep2.step_keccak s hcode hwf

/-- LOG0 … LOG4: static context first; `375 + 8 · len + 375 · n` + expansion; the host receives the executing account's
address, the `n` topics (first popped first) and `μ[off .. off + len)` -/
theorem step_log_agrees (s : IState) (n : Fin 5) (hcode : s.code[s.pc]? = some (0xa0 + n.val)) (hwf : WFM s) :
    step s = logRule n.val s := Proofs.EvmStep2.step_log s n hcode hwf

/-- what an example looks at in a host question: the question and the gas left when it is asked -/
def viewHost : Outcome → Option HostOp
  | .host op _ => some op
  | _ => none

/-- LOG1 of one byte with topic 7 by account 0xcc: the host sees `log 0xcc [7] [5]` -/
example : viewHost (logRule 1 { IState.init [0xa1] [] 5000 false 17 0xcc 0 0 {} with
      stack := [7, 1, 31], mem := { buffer := List.replicate 31 0 ++ [5], checkpoints := [], lastCheckpoint := 0 } }) =
    some (.log 0xcc [7] [5]) := by decide +kernel

/-- … and nothing in a static context -/
example : logRule 1 { IState.init [0xa1] [] 5000 true 17 0xcc 0 0 {} with stack := [7, 1, 31] } =
    .halt .StateChangeDuringStaticCall [] (adv { IState.init [0xa1] [] 5000 true 17 0xcc 0 0 {} with stack := [7, 1, 31] }) :=
  rfl

/-! ## (e) state-touching host instructions: the gas is the `Spec/GasCalc.lean` formula of the host's answer

`f : Fork` is the named hardfork of the state (`s.spec = f.id`, the `SpecId` discriminant). What the journal-backed host
answers (cold flags, original / present / new values) is the abstract state's content by `Props.C01.host_*_agrees`. -/

open Revm.Spec.GasCalc (Fork)

/-- BALANCE: 20 / 400 (EIP-150) / 700 (EIP-1884) / cold 2600, warm 100 (EIP-2929) of the answer's cold flag -/
theorem step_balance_agrees (f : Fork) (s : IState) (hcode : s.code[s.pc]? = some 0x31) (hwf : WFM s)
    (hf : s.spec = f.id) : step s = balanceRule f s := Proofs.EvmStep2.step_balance f s hcode hwf hf

/-- a state satisfying the hypotheses (London): `PUSH1 0 BALANCE` at the BALANCE -/
example : ∃ s : IState, WFM s ∧ s.code[s.pc]? = some 0x31 ∧ s.spec = Fork.london.id :=
  ⟨{ IState.init [0x60, 0, 0x31] [] 100000 false 12 0 0 0 {} with pc := 2, stack := [0] },
   ⟨⟨by decide, by decide, by decide⟩, Proofs.Memory.new_wf, by decide, by decide, by decide, by decide, by decide,
    by decide⟩, by decide, rfl⟩

/-- SELFBALANCE (Istanbul) -/
theorem step_selfbalance_agrees (s : IState) (hcode : s.code[s.pc]? = some 0x47) (hwf : WFM s) :
    step s = selfbalanceRule s := Proofs.EvmStep2.step_selfbalance s hcode hwf

/-- EXTCODESIZE: `Spec.GasCalc.accountAccess f 20 cold` -/
theorem step_extcodesize_agrees (f : Fork) (s : IState) (hcode : s.code[s.pc]? = some 0x3b) (hwf : WFM s)
    (hf : s.spec = f.id) : step s = extcodesizeRule f s := Proofs.EvmStep2.step_extcodesize f s hcode hwf hf

/-- EXTCODEHASH (Constantinople): 400 / 700 / cold 2600, warm 100 -/
theorem step_extcodehash_agrees (f : Fork) (s : IState) (hcode : s.code[s.pc]? = some 0x3f) (hwf : WFM s)
    (hf : s.spec = f.id) : step s = extcodehashRule f s := Proofs.EvmStep2.step_extcodehash f s hcode hwf hf

/-- EXTCODECOPY: `Spec.GasCalc.extcodecopyCost f len cold` + expansion, zero-padded code bytes — for every answer
whose code is a byte slice (`≤ isize::MAX`) -/
theorem step_extcodecopy_agrees (f : Fork) (s : IState) (hcode : s.code[s.pc]? = some 0x3c) (hwf : WFM s)
    (hf : s.spec = f.id) :
    AgreeOn (fun r => r.bytes.length ≤ Memory.ISIZE_MAX) (step s) (extcodecopyRule f s) :=
  Proofs.EvmStep2.step_extcodecopy f s hcode hwf hf

/-- BLOCKHASH: 20 gas; the number saturated to 64 bits is what the host is asked for -/
theorem step_blockhash_agrees (s : IState) (hcode : s.code[s.pc]? = some 0x40) (hwf : WFM s) :
    step s = blockhashRule s := Proofs.EvmStep2.step_blockhash s hcode hwf

/-- SSTORE: `Spec.GasCalc.sstoreCost` / `sstoreRefund` of the (original, present, new) pattern and cold flag the host
answers, the EIP-2200 sentry, static-context failure first -/
theorem step_sstore_agrees (f : Fork) (s : IState) (hcode : s.code[s.pc]? = some 0x55) (hwf : WFM s)
    (hf : s.spec = f.id) : step s = sstoreRule f s := Proofs.EvmStep2.step_sstore f s hcode hwf hf

/-- TSTORE (Cancun): 100 gas -/
theorem step_tstore_agrees (s : IState) (hcode : s.code[s.pc]? = some 0x5d) (hwf : WFM s) :
    step s = tstoreRule s := Proofs.EvmStep2.step_tstore s hcode hwf

/-- SELFDESTRUCT: `Spec.GasCalc.selfdestructCost` of the answer, the pre-London 24000 refund, result `SelfDestruct` -/
theorem step_selfdestruct_agrees (f : Fork) (s : IState) (hcode : s.code[s.pc]? = some 0xff) (hwf : WFM s)
    (hf : s.spec = f.id) : step s = selfdestructRule f s := Proofs.EvmStep2.step_selfdestruct f s hcode hwf hf

/-- the continuation of a host question on an answer -/
def afterAnswer (r : HostResp) : Outcome → Option Done
  | .host _ k => some (k r)
  | _ => none

/-- SSTORE under London of a cold clean slot 1 → 0 (pattern X X 0): 2900 + 2100 gas, refund 4800 -/
example : ((afterAnswer { original := 1, present := 1, new := 0, isCold := true }
      (sstoreRule .london { IState.init [0x55] [] 10000 false 12 0xcc 0 0 {} with stack := [0, 5] })).bind
        fun d => match d with | .next s' => some (s'.gas.remaining, s'.gas.refunded) | _ => none) =
    some (5000, 4800) := by decide +kernel

/-- BLOBHASH (EIP-4844) -/
theorem step_blobhash_agrees (s : IState) (hcode : s.code[s.pc]? = some 0x49) (hwf : WFM s) :
    step s = .pure (blobhashRule s) := Proofs.EvmStep2.step_blobhash s hcode hwf

/-! ## (f) CALL, CALLCODE, DELEGATECALL, STATICCALL, CREATE, CREATE2 and the re-entry of the child's result
(`Spec/EvmRules2Call.lean`)

Stack effect, expansion for the in- and out-range (`callMem`), the question `loadAccountDelegated to`, then from the
answer: `Spec.GasCalc.callCost` (cold / warm, EIP-7702 delegate, `G_callvalue`, `G_newaccount` per EIP-161), the gas
forwarded (`forwardedGas`: all but one 64th from EIP-150, capped by the request), the 2300 stipend with value, and every
field of the emitted `CallInputs` / `CreateInputs`. -/

theorem step_call_agrees (f : Fork) (s : IState) (hcode : s.code[s.pc]? = some 0xf1) (hwf : WFM s)
    (hf : s.spec = f.id) : step s = callRule f s := Proofs.EvmStep2.step_call f s hcode hwf hf

theorem step_callcode_agrees (f : Fork) (s : IState) (hcode : s.code[s.pc]? = some 0xf2) (hwf : WFM s)
    (hf : s.spec = f.id) : step s = callcodeRule f s := Proofs.EvmStep2.step_callcode f s hcode hwf hf

/-- DELEGATECALL (EIP-7, Homestead) -/
theorem step_delegatecall_agrees (f : Fork) (s : IState) (hcode : s.code[s.pc]? = some 0xf4) (hwf : WFM s)
    (hf : s.spec = f.id) : step s = delegatecallRule f s := Proofs.EvmStep2.step_delegatecall f s hcode hwf hf

/-- STATICCALL (EIP-214, Byzantium) -/
theorem step_staticcall_agrees (f : Fork) (s : IState) (hcode : s.code[s.pc]? = some 0xfa) (hwf : WFM s)
    (hf : s.spec = f.id) : step s = staticcallRule f s := Proofs.EvmStep2.step_staticcall f s hcode hwf hf

/-- CREATE: static context, EIP-3860 limit and word cost, expansion, `G_create`, all but one 64th to the child -/
theorem step_create_agrees (f : Fork) (s : IState) (hcode : s.code[s.pc]? = some 0xf0) (hwf : WFM s)
    (hf : s.spec = f.id) : step s = .pure (createRule f false s) := Proofs.EvmStep2.step_create f s hcode hwf hf

/-- CREATE2 (EIP-1014; the instruction table gates it on Petersburg — Constantinople is executed as Petersburg):
`G_create + 6 · ⌈len / 32⌉`, the salt popped last -/
theorem step_create2_agrees (f : Fork) (s : IState) (hcode : s.code[s.pc]? = some 0xf5) (hwf : WFM s)
    (hf : s.spec = f.id) : step s = .pure (createRule f true s) := Proofs.EvmStep2.step_create2 f s hcode hwf hf

/-- re-entry after a call: return-data buffer := output; `min(window, |output|)` bytes written at `retStart` for a normal
end and for a revert; unused gas given back for those two, the refund counter added for a normal end only (`settle`,
unbounded arithmetic); status word pushed. Hypotheses that hold at re-entry: the out-range was made addressable by the
CALL, the child returns at most what it was given (+ stipend), its refund counter is bounded, the CALL popped its operands -/
theorem insert_call_outcome_agrees (retStart retEnd : Nat) (o : ChildResult) (s : IState) (hwf : WFM s)
    (hwin : retStart < retEnd → retEnd ≤ (memOf s).length)
    (hgas : o.gasRemaining + s.gas.remaining < U64)
    (href : -(2^62 : Int) ≤ o.gasRefunded ∧ o.gasRefunded < 2^62)
    (hdepth : s.stack.length < 1024) :
    (insertCallOutcome retStart retEnd o s).toDone = insertCallOutcomeRule retStart retEnd o s :=
  Proofs.EvmStep2.insertCallOutcome_agrees retStart retEnd o s hwf hwin hgas href hdepth

/-- re-entry after a create: the created address (or 0) pushed; the return-data buffer holds the output only of a
reverted creation -/
theorem insert_create_outcome_agrees (o : ChildResult) (s : IState) (hwf : WFM s)
    (hgas : o.gasRemaining + s.gas.remaining < U64)
    (href : -(2^62 : Int) ≤ o.gasRefunded ∧ o.gasRefunded < 2^62)
    (hdepth : s.stack.length < 1024) :
    (insertCreateOutcome o s).toDone = insertCreateOutcomeRule o s :=
  Proofs.EvmStep2.insertCreateOutcome_agrees o s hwf hgas href hdepth

/-- the hypotheses are satisfiable: a frame with 1000 gas left and one word of memory re-entered by a child that
returned 3 bytes, 500 unused gas and a refund of 4800 into the window [0, 2) -/
example : ∃ (s : IState) (o : ChildResult), WFM s ∧ ((0 : Nat) < 2 → 2 ≤ (memOf s).length) ∧
    o.gasRemaining + s.gas.remaining < U64 ∧ (-(2^62 : Int) ≤ o.gasRefunded ∧ o.gasRefunded < 2^62) ∧
    s.stack.length < 1024 :=
  ⟨{ IState.init [0xf1, 0x00] [] 1000 false 17 0 0 0 {} with
       pc := 1, mem := { buffer := List.replicate 32 0, checkpoints := [], lastCheckpoint := 0 } },
   { result := .Return, output := [1, 2, 3], gasRemaining := 500, gasRefunded := 4800 },
   ⟨⟨by decide, by decide, by decide⟩, ⟨trivial, rfl, by decide⟩, by decide, by decide, by decide, by decide, by decide,
    by decide⟩, by decide, by decide, by decide, by decide⟩

/-- what an example looks at in an emitted call: gas left in the caller, the child's gas limit, input, return window -/
def viewCall : Done → Option (Nat × Nat × List Nat × Nat × Nat)
  | .action (.call i) s => some (s.gas.remaining, i.gasLimit, i.input, i.retStart, i.retEnd)
  | _ => none

/-- CALL under Cancun with value 1 to a warm existing account, requesting all gas, 100000 left: access 100 + value 9000,
63/64 of the remaining 90900 = 89480 forwarded, the child gets 89480 + 2300 -/
example : ((afterAnswer { isCold := false, isEmpty := false }
      (callRule .cancun { IState.init [0xf1] [] 100000 false 17 0xcc 0 0 {} with
        stack := [0, 0, 0, 0, 1, 0xdd, 2^64] })).bind viewCall) =
    some (1420, 91780, [], 2^64 - 1, 2^64 - 1) := by decide +kernel

/-! ## the summary: every opcode byte

`Spec/EvmRules2Table.lean` lists the opcode bytes of legacy code row by row (`ruleTable`): the 24 word operations and the
18 environment reads of `Props.C01`, EXP, DIFFICULTY, POP, PUSH0, PUSH1-32, DUP1-16, SWAP1-16, JUMP, JUMPI, JUMPDEST,
SLOAD, TLOAD, and the rows of this file: memory, copy, frame end, KECCAK256, LOG0-4, the state instructions, BLOBHASH, the
CALL / CREATE family and the EOF-only bytes (which end a legacy frame). -/

open Revm.Proofs.EvmStep2 (OkAnswer)

/-- no opcode byte has two rows: a byte is covered by at most one rule family -/
theorem rows_disjoint : ruleTable.Pairwise (fun a b => a.hi < b.lo ∨ b.hi < a.lo) := Proofs.EvmStep2.rows_disjoint

/-- the bytes without a row — exactly the bytes that name no instruction up to Prague
(0x0c-0x0f, 0x1e-0x1f, 0x21-0x2f, 0x4b-0x4f, 0xa5-0xcf, 0xd4-0xdf, 0xe9-0xeb, 0xed, 0xef, 0xf6, 0xfc) -/
theorem unassigned_bytes :
    (List.range 256).filter (fun op => (lookup op).isNone) =
      List.range' 0x0c 4 ++ List.range' 0x1e 2 ++ List.range' 0x21 15 ++ List.range' 0x4b 5 ++ List.range' 0xa5 43 ++
      List.range' 0xd4 12 ++ [0xe9, 0xea, 0xeb, 0xed, 0xef, 0xf6, 0xfc] := Proofs.EvmStep2.unassigned_list

/-- `step_agrees_all_modelled`: for EVERY opcode byte, on every well-formed legacy state of every named fork,
`Interp.step` agrees with the rule of the byte's (unique) row, and with `OpcodeNotFound` for a byte without a row. No
legacy opcode remains without a rule. Agreement (`AgreeOn`) is equality of the outcome — for a host instruction the same
question and the same continuation — where only EXTCODECOPY's continuation is compared on answers whose code is a byte
slice (`≤ isize::MAX` bytes). -/
theorem step_agrees_all_modelled (f : Fork) (s : IState) (op : Nat) (hop : op < 256)
    (hcode : s.code[s.pc]? = some op) (hwf : WFM s) (hf : s.spec = f.id) (hl : Legacy s) :
    AgreeOn OkAnswer (step s) (ruleOf f op s) := Proofs.EvmStep2.step_agrees_all f s op hop hcode hwf hf hl

/-- the hypotheses are satisfiable for every opcode byte: a one-instruction Cancun frame -/
example (op : Nat) (_hop : op < 256) : ∃ s : IState, s.code[s.pc]? = some op ∧ s.spec = Fork.cancun.id ∧ Legacy s :=
  ⟨IState.init [op] [] 100000 false 17 0 0 0 {}, by simp [IState.init, Jump.pad], rfl, rfl, rfl⟩

end Revm.Props.C01Rules
