import Revm.Proofs.EvmStep2Mem
/-! C01, continued — `step_*_agrees` for the instruction families that `Props/C01.lean` leaves open: memory, copy,
frame-ending, KECCAK256 / LOG, state-touching host instructions and the CALL / CREATE family.

Every theorem has the shape of `Props.C01.step_pure_agrees`: for ANY machine state that is well-formed (`WFM`) and whose
next opcode is X, `Interp.step` is exactly the rule of `Spec/EvmRules2.lean` — a function of the popped words, the
frame's memory as an abstract byte list (`memOf`, zero-extended on demand by `touch`), the gas formulas of
`Spec/GasCalc.lean` (unbounded `Nat`, per hardfork) and, for host instructions, the host's answer.

`WFM s` (`Proofs/EvmStep2.lean`) = `WF s` of C01 (gas meter a `u64`, at most 1024 stack words `< 2^256`) + the
representation invariant of the shared memory (C11) with the frame's checkpoint `≤ 2^62` + byte strings that are Rust
slices (`≤ isize::MAX`) + the frame's gas budget `gas left + C_mem(active words) < 2^59`. The last bound is where the
64-bit cost functions of the code (`num_words` saturates, `memory_gas` saturates) coincide with the formulas over unbounded
numbers (C14's `*_counterexample` theorems live above it); real budgets are below `2^25`. -/
namespace Revm.Props.C01Rules
open Revm Revm.Model Revm.Model.Interp
open Revm.Spec.EvmRules Revm.Spec.EvmRules2
open Revm.Proofs.EvmStep2 (WFM)

/-! ## (a) memory -/

/-- MLOAD: `G_verylow` + `C_mem` expansion to `off + 32`; the word read big-endian from the zero-extended memory;
`InvalidOperandOOG` for an offset `≥ 2^64`, `MemoryOOG` exactly when the expansion exceeds the gas left -/
theorem step_mload_agrees (s : IState) (hcode : s.code[s.pc]? = some 0x51) (hwf : WFM s) :
    step s = .pure (mloadRule s) := Proofs.EvmStep2.step_mload s hcode hwf

/-- a state satisfying the hypotheses: `PUSH1 0 MLOAD` at the MLOAD -/
example : ∃ s : IState, WFM s ∧ s.code[s.pc]? = some 0x51 :=
  ⟨{ IState.init [0x60, 0, 0x51] [] 100000 false 17 0 0 0 {} with pc := 2, stack := [0] },
   ⟨⟨by decide, by decide, by decide⟩, Proofs.Memory.new_wf, by decide, by decide, by decide, by decide, by decide⟩,
   by decide⟩

/-- MSTORE: the 32 big-endian bytes of the value -/
theorem step_mstore_agrees (s : IState) (hcode : s.code[s.pc]? = some 0x52) (hwf : WFM s) :
    step s = .pure (mstoreRule s) := Proofs.EvmStep2.step_mstore s hcode hwf

/-- MSTORE8: the least significant byte -/
theorem step_mstore8_agrees (s : IState) (hcode : s.code[s.pc]? = some 0x53) (hwf : WFM s) :
    step s = .pure (mstore8Rule s) := Proofs.EvmStep2.step_mstore8 s hcode hwf

/-- MSIZE: the length of the frame's memory (`32 · μ_i`) -/
theorem step_msize_agrees (s : IState) (hcode : s.code[s.pc]? = some 0x59) (hwf : WFM s) :
    step s = .pure (msizeRule s) := Proofs.EvmStep2.step_msize s hcode hwf

/-- MCOPY (EIP-5656): `G_verylow + G_copy · ⌈len / 32⌉` + expansion to `max(dst, src) + len`; memmove -/
theorem step_mcopy_agrees (s : IState) (hcode : s.code[s.pc]? = some 0x5e) (hwf : WFM s) :
    step s = .pure (mcopyRule s) := Proofs.EvmStep2.step_mcopy s hcode hwf

/-- what an example looks at: pc, gas left, stack and frame memory of a continuing state -/
def view : Done → Option (Nat × Nat × List Nat × List Nat)
  | .next s => some (s.pc, s.gas.remaining, s.stack, memOf s)
  | _ => none

/-- the rules are not vacuous: MSTORE of `0x2a` at offset 0 into empty memory costs `3 + C_mem(1) = 6` and leaves 32
bytes whose last is `0x2a` -/
example : view (mstoreRule { IState.init [0x52] [] 100 false 17 0 0 0 {} with stack := [0x2a, 0] }) =
    some (1, 94, [], List.replicate 31 0 ++ [0x2a]) := by decide +kernel

end Revm.Props.C01Rules
