import Revm.Proofs.EtherStatements
/-! # C08 — ether is conserved

Vocabulary (`Spec/Ether.lean`): `bal db s a` is the observable balance of `a` (journal entry if the
account is loaded, database otherwise), `total L db s` the sum over a duplicate-free list `L` of
addresses (an unbounded natural number), `burnt s` what the self-destructs naming themselves that are
still in the journal destroyed. `BalOk` says balances are 256-bit words. All theorems hold for every
state of the code-shaped model `Model/Journal.lean` / `Model/TxFeeLegs.lean`, every address list
containing the addresses the operation names, and every 256-bit value; `some …` in a hypothesis
means the Rust code did not panic (`unwrap` on an account that was never loaded).

Reading of DESIGN §8: a sum of 256-bit balances is conserved as a natural number; operations that
report failure conserve unconditionally; the only succeeding operation whose arithmetic can wrap on
admissible input is the credit of a self-destruct's beneficiary (`+=` on a 256-bit word), which cannot
wrap when the total fits in 256 bits — that case is characterised exactly. -/
namespace Revm.Props.C08
open Revm Revm.Model.Journal Revm.Model.TxFeeLegs Revm.Spec.JournalAbs Revm.Spec.Ether Revm.Proofs.Ether

/-! ## concrete states used by the non-vacuity examples -/

def exDb : Db :=
  { basic := fun a => if a = 1 then some { Info.default with balance := 1000000 }
                      else if a = 2 then some { Info.default with balance := 7 } else none,
    storage := fun _ _ => 0, delegate := fun _ => none }

/-- Cancun, accounts 1 (1 000 000 wei), 2 (7 wei) and 3 (non-existing) loaded, empty journal -/
def exS : JState :=
  { JState.new 17 (fun _ => false) with
    state := fun a => if a = 1 then some (Acct.ofInfo { Info.default with balance := 1000000 })
                      else if a = 2 then some (Acct.ofInfo { Info.default with balance := 7 })
                      else if a = 3 then some Acct.newNotExisting else none }

theorem exBalOk : BalOk exDb exS := by
  intro a
  have hW : (1000000 : Nat) < W := by rw [W_val]; decide
  by_cases h1 : a = 1
  · subst h1; rw [bal_some (acc := Acct.ofInfo { Info.default with balance := 1000000 }) rfl]; exact hW
  by_cases h2 : a = 2
  · subst h2; rw [bal_some (acc := Acct.ofInfo { Info.default with balance := 7 }) rfl]; exact Nat.lt_trans (by decide) hW
  by_cases h3 : a = 3
  · subst h3; rw [bal_some (acc := Acct.newNotExisting) rfl]; exact Nat.lt_trans (by decide) hW
  have hs : exS.state a = none := by simp [exS, JState.new, h1, h2, h3]
  have hb : exDb.basic a = none := by simp [exDb, h1, h2]
  rw [bal_none hs, hb]; exact Nat.lt_trans (by decide) hW

/-- a London transaction: 21 000 gas at price 10, base fee 3, beneficiary 2 -/
def exEnv : FeeEnv :=
  { caller := 1, coinbase := 2, gasLimit := 21000, gasPrice := 10, priorityFee := none, basefee := 3,
    blobGasPrice := none, totalBlobGas := 0, isCall := true }

/-- the same transaction with account 1 as beneficiary -/
def exEnv1 : FeeEnv := { exEnv with coinbase := 1 }

/-- a world whose total exceeds 2^256: account 1 holds 2^256-1, account 2 holds 2 -/
def ovDb : Db :=
  { basic := fun _ => none, storage := fun _ _ => 0, delegate := fun _ => none }
def ovS : JState :=
  { JState.new 17 (fun _ => false) with
    state := fun a => if a = 1 then some (Acct.ofInfo { Info.default with balance := W - 1 })
                      else if a = 2 then some (Acct.ofInfo { Info.default with balance := 2 }) else none }

/-! ## 1. `transfer` -/

/-- `JournaledState::transfer` leaves the sum unchanged on every path — success, `OutOfFunds`,
`OverflowPayment` — for all balances and values, without any bound on the sum. -/
theorem transfer_conserves {db : Db} {L : List Addr} {s s' : JState} {src dst : Addr} {v : Nat}
    {r : Option TransferErr} (hn : L.Nodup) (hs : src ∈ L) (hd : dst ∈ L) (hok : BalOk db s)
    (h : transfer db s src dst v = some (s', r)) : total L db s' = total L db s :=
  transfer_total hn hs hd hok h

example : (transfer exDb exS 1 2 5).isSome = true := rfl
example : ∀ s' r, transfer exDb exS 1 2 5 = some (s', r) → total [1, 2] exDb s' = total [1, 2] exDb exS :=
  fun _ _ h => transfer_conserves (by decide) (by decide) (by decide) exBalOk h

/-- a failing transfer moves nothing at all (the repaired `OverflowPayment` path included) -/
theorem failed_transfer_moves_nothing {db : Db} {s s' : JState} {src dst : Addr} {v : Nat}
    {e : TransferErr} (hok : BalOk db s) (h : transfer db s src dst v = some (s', some e)) :
    bal db s' = bal db s ∧ burnt s' = burnt s :=
  transfer_fail_same hok h (by simp)

example : ∃ s', transfer exDb exS 2 1 8 = some (s', some .outOfFunds) := ⟨_, rfl⟩

/-- the per-operation ledger form (what the driver's Spec column prints) -/
theorem transfer_ledger {db : Db} {L : List Addr} {s s' : JState} {src dst : Addr} {v : Nat} {r : Option TransferErr}
    (hn : L.Nodup) (hs : src ∈ L) (hd : dst ∈ L) (hok : BalOk db s)
    (h : transfer db s src dst v = some (s', r)) : total L db s' + burnt s' = total L db s + burnt s :=
  transfer_ledger_eq hn hs hd hok h

/-! ## 2. `create_account_checkpoint` / `make_create_frame` -/

/-- `create_account_checkpoint` conserves on the success path when the caller can pay the endowment
(the debit is a wrapping subtraction), and on both failure paths unconditionally -/
theorem create_conserves {db : Db} {L : List Addr} {s s' : JState} {caller a : Addr} {hs : Bool} {v spec : Nat}
    {r : Except CreateErr Checkpoint} (hn : L.Nodup) (hc : caller ∈ L) (ha : a ∈ L)
    (hfund : caller = a ∨ v ≤ bal db s caller)
    (h : createAccountCheckpoint s caller a hs v spec = some (s', r)) : total L db s' = total L db s :=
  create_total hn hc ha hfund h

example : (createAccountCheckpoint exS 1 3 false 4 17).isSome = true := rfl
example : ∀ s' r, createAccountCheckpoint exS 1 3 false 4 17 = some (s', r) →
    total [1, 2, 3] exDb s' = total [1, 2, 3] exDb exS :=
  fun _ _ h => create_conserves (by decide) (by decide) (by decide) (Or.inr (by decide)) h

theorem create_ledger {db : Db} {L : List Addr} {s s' : JState} {caller a : Addr} {hs : Bool} {v spec : Nat}
    {r : Except CreateErr Checkpoint} (hn : L.Nodup) (hc : caller ∈ L) (ha : a ∈ L)
    (hfund : caller = a ∨ v ≤ bal db s caller)
    (h : createAccountCheckpoint s caller a hs v spec = some (s', r)) :
    total L db s' + burnt s' = total L db s + burnt s :=
  create_ledger_eq hn hc ha hfund h

/-- collision and endowment overflow leave every balance as it was, whatever the endowment -/
theorem failed_create_moves_nothing {db : Db} {s s' : JState} {caller a : Addr} {hs : Bool} {v spec : Nat}
    {er : CreateErr} (h : createAccountCheckpoint s caller a hs v spec = some (s', .error er)) :
    bal db s' = bal db s ∧ burnt s' = burnt s :=
  create_fail_same h

example : ∃ s', createAccountCheckpoint exS 1 2 true 4 17 = some (s', .error .collision) := ⟨_, rfl⟩

/-- why the hypothesis of `create_conserves` is needed: called with an endowment the caller cannot
pay, `create_account_checkpoint` mints exactly 2^256 wei -/
theorem create_unfunded_mints {db : Db} {L : List Addr} {s s' : JState} {caller a : Addr} {hs : Bool}
    {v spec : Nat} {cp : Checkpoint} (hn : L.Nodup) (hc : caller ∈ L) (ha : a ∈ L) (hca : caller ≠ a)
    (hlt : bal db s caller < v)
    (h : createAccountCheckpoint s caller a hs v spec = some (s', .ok cp)) :
    total L db s' = total L db s + W :=
  create_unfunded hn hc ha hca hlt h

example : ∃ s' cp, createAccountCheckpoint exS 2 3 false 8 17 = some (s', .ok cp) := ⟨_, _, rfl⟩
example : bal exDb exS 2 < 8 := by decide

/-- … and `make_create_frame`, the only caller, establishes that hypothesis itself: the frame
machine's path into `create_account_checkpoint` conserves on every path with no hypothesis -/
theorem make_create_frame_conserves {db : Db} {L : List Addr} {s s' : JState} {caller created : Addr}
    {hs : Bool} {v spec : Nat} {r : CreateFrame} (hn : L.Nodup) (hc : caller ∈ L) (ha : created ∈ L)
    (h : makeCreateFrame db s caller created hs v spec = some (s', r)) : total L db s' = total L db s :=
  makeCreateFrame_conserves hn hc ha h

example : (makeCreateFrame exDb exS 1 3 false 4 17).isSome = true := rfl
example : ∃ s', makeCreateFrame exDb exS 2 3 false 8 17 = some (s', .outOfFunds) := ⟨_, rfl⟩

/-! ## 3. `selfdestruct` -/

/-- the exact effect of `selfdestruct` on the sum, for every fork: the account's balance is burnt iff
it names itself and is really destroyed (before Cancun, or created in the same transaction), and
2^256 wei vanish iff the wrapping `+=` on a different beneficiary overflows -/
theorem selfdestruct_exact {db : Db} {L : List Addr} {s s' : JState} {a t : Addr} {res : Bool × Bool × Bool × Bool}
    (hn : L.Nodup) (ha : a ∈ L) (ht : t ∈ L) (hok : BalOk db s)
    (h : selfdestruct db s a t = some (s', res)) :
    total L db s'
      + (if a = t ∧ ((absAcct db s a).created ∨ !decide (s.spec ≥ CANCUN)) then bal db s a else 0)
      + (if a ≠ t ∧ W ≤ bal db s t + bal db s a then W else 0) = total L db s :=
  selfdestruct_total hn ha ht hok h

example : (selfdestruct exDb exS 1 2).isSome = true := rfl
example : (selfdestruct exDb exS 2 2).isSome = true := rfl

theorem selfdestruct_ledger {db : Db} {L : List Addr} {s s' : JState} {a t : Addr} {res : Bool × Bool × Bool × Bool}
    (hn : L.Nodup) (ha : a ∈ L) (ht : t ∈ L) (hok : BalOk db s)
    (h : selfdestruct db s a t = some (s', res)) :
    total L db s' + burnt s' + (if a ≠ t ∧ W ≤ bal db s t + bal db s a then W else 0) = total L db s + burnt s :=
  selfdestruct_ledger_eq hn ha ht hok h

/-- beneficiary ≠ self, every fork, created or not: conserved when the credit fits -/
theorem selfdestruct_to_other_conserves {db : Db} {L : List Addr} {s s' : JState} {a t : Addr}
    {res : Bool × Bool × Bool × Bool} (hn : L.Nodup) (ha : a ∈ L) (ht : t ∈ L) (hok : BalOk db s)
    (hat : a ≠ t) (hfit : bal db s t + bal db s a < W)
    (h : selfdestruct db s a t = some (s', res)) : total L db s' = total L db s := by
  have := selfdestruct_total hn ha ht hok h
  rw [if_neg (fun hh => hat hh.1), if_neg (fun hh => by omega)] at this
  omega

example : bal exDb exS 2 + bal exDb exS 1 < W := by rw [W_val]; decide

/-- in particular when the total fits in 256 bits (DESIGN §8) -/
theorem selfdestruct_to_other_conserves_of_total {db : Db} {L : List Addr} {s s' : JState} {a t : Addr}
    {res : Bool × Bool × Bool × Bool} (hn : L.Nodup) (ha : a ∈ L) (ht : t ∈ L) (hok : BalOk db s)
    (hat : a ≠ t) (hSum : total L db s < W)
    (h : selfdestruct db s a t = some (s', res)) : total L db s' = total L db s :=
  selfdestruct_to_other_conserves hn ha ht hok hat
    (by have := two_le_sumOver (bal db s) hn ht ha (fun e => hat e.symm); unfold total at hSum; omega) h

example : total [1, 2, 3] exDb exS < W := by rw [W_val]; decide

/-- beneficiary = self before Cancun: the balance is burnt -/
theorem selfdestruct_self_pre_cancun_burns {db : Db} {L : List Addr} {s s' : JState} {a : Addr}
    {res : Bool × Bool × Bool × Bool} (hn : L.Nodup) (ha : a ∈ L) (hok : BalOk db s)
    (hspec : ¬ s.spec ≥ CANCUN)
    (h : selfdestruct db s a a = some (s', res)) : total L db s' + bal db s a = total L db s := by
  have := selfdestruct_total hn ha ha hok h
  rw [if_pos ⟨rfl, Or.inr (by simp [hspec])⟩, if_neg (fun hh => hh.1 rfl)] at this
  omega

example : ¬ ({ exS with spec := 12 } : JState).spec ≥ CANCUN := by decide
example : (selfdestruct exDb { exS with spec := 12 } 2 2).isSome = true := rfl

/-- beneficiary = self from Cancun on, contract created in this transaction: burnt -/
theorem selfdestruct_self_cancun_created_burns {db : Db} {L : List Addr} {s s' : JState} {a : Addr}
    {res : Bool × Bool × Bool × Bool} (hn : L.Nodup) (ha : a ∈ L) (hok : BalOk db s)
    (hcr : (absAcct db s a).created = true)
    (h : selfdestruct db s a a = some (s', res)) : total L db s' + bal db s a = total L db s := by
  have := selfdestruct_total hn ha ha hok h
  rw [if_pos ⟨rfl, Or.inl hcr⟩, if_neg (fun hh => hh.1 rfl)] at this
  omega

/-- account 3 created in this transaction (state after `create_account_checkpoint`) -/
example : ∃ s1 r, createAccountCheckpoint exS 1 3 false 4 17 = some (s1, r) ∧
    (absAcct exDb s1 3).created = true ∧ (selfdestruct exDb s1 3 3).isSome = true := ⟨_, _, rfl, rfl, rfl⟩

/-- beneficiary = self from Cancun on, contract not created in this transaction (EIP-6780): kept -/
theorem selfdestruct_self_cancun_existing_keeps {db : Db} {L : List Addr} {s s' : JState} {a : Addr}
    {res : Bool × Bool × Bool × Bool} (hn : L.Nodup) (ha : a ∈ L) (hok : BalOk db s)
    (hspec : s.spec ≥ CANCUN) (hcr : (absAcct db s a).created = false)
    (h : selfdestruct db s a a = some (s', res)) : total L db s' = total L db s := by
  have := selfdestruct_total hn ha ha hok h
  rw [if_neg (fun hh => by rcases hh.2 with h1 | h1 <;> simp_all), if_neg (fun hh => hh.1 rfl)] at this
  omega

example : exS.spec ≥ CANCUN ∧ (absAcct exDb exS 2).created = false := by decide

/-- outside the Σ < 2^256 reading: when beneficiary and contract together hold 2^256 wei or more, the
wrapping credit destroys exactly 2^256 wei (not reachable when the world's total fits in 256 bits) -/
theorem selfdestruct_overflow_destroys {db : Db} {L : List Addr} {s s' : JState} {a t : Addr}
    {res : Bool × Bool × Bool × Bool} (hn : L.Nodup) (ha : a ∈ L) (ht : t ∈ L) (hok : BalOk db s)
    (hat : a ≠ t) (hov : W ≤ bal db s t + bal db s a)
    (h : selfdestruct db s a t = some (s', res)) : total L db s' + W = total L db s := by
  have := selfdestruct_total hn ha ht hok h
  rw [if_neg (fun hh => hat hh.1), if_pos ⟨hat, hov⟩] at this
  omega

/-- the witness: account 1 holds 2^256-1, account 2 holds 2; SELFDESTRUCT of 2 naming 1 leaves a total
of 2^256-1+... wrapped: 2^256+1 wei before, 1 wei after -/
theorem selfdestruct_overflow_counterexample :
    ∃ s' r, selfdestruct ovDb ovS 2 1 = some (s', r) ∧
      total [1, 2] ovDb ovS = W + 1 ∧ total [1, 2] ovDb s' = 1 :=
  ⟨_, _, rfl, by rw [W_val]; rfl, rfl⟩

/-- the three balance-moving operations change no balance but those of the two accounts they name
(so the sum over the whole world changes exactly as the sum over any list containing them) -/
theorem ether_ops_touch_only_named {db : Db} {r r' : Run} {op : Op} (hok : BalOk db r.js)
    (hop : ∃ a b, opAddrs op = [a, b]) (h : step db r op = some r') {x : Addr} (hx : x ∉ opAddrs op) :
    bal db r'.js x = bal db r.js x := by
  cases op <;> (first | (obtain ⟨_, _, h0⟩ := hop; cases h0; done) | skip)
  case transfer src dst v =>
    simp only [step, Option.map_eq_some_iff] at h
    obtain ⟨⟨s1, res⟩, h1, rfl⟩ := h
    simp only [opAddrs, List.mem_cons, List.not_mem_nil, or_false, not_or] at hx
    exact transfer_others hok h1 hx.1 hx.2
  case selfdestruct a t =>
    simp only [step, Option.map_eq_some_iff] at h
    obtain ⟨⟨s1, res⟩, h1, rfl⟩ := h
    simp only [opAddrs, List.mem_cons, List.not_mem_nil, or_false, not_or] at hx
    exact selfdestruct_others h1 hx.1 hx.2
  case create caller a hs v spec =>
    simp only [opAddrs, List.mem_cons, List.not_mem_nil, or_false, not_or] at hx
    simp only [step] at h
    split at h
    · rename_i js cp h1; cases h; exact create_others h1 hx.1 hx.2
    · rename_i js er h1; cases h; exact create_others h1 hx.1 hx.2
    · cases h

example : ∃ a b, opAddrs (.transfer 1 2 5) = [a, b] := ⟨_, _, rfl⟩

/-! ## 4. operations that do not move ether, and reverts -/

/-- load*, initial_account_load, touch, inc_nonce, set_code, sload, sstore, tload, tstore, log,
checkpoint, checkpoint_commit: every observable balance and the burn ledger stay as they are -/
theorem non_ether_op_keeps_balances {db : Db} {r r' : Run} {op : Op} (hop : isEtherOp op = false)
    (h : step db r op = some r') : bal db r'.js = bal db r.js ∧ burnt r'.js = burnt r.js :=
  let e := non_ether_step (db := db) hop h
  ⟨e.1, by unfold burnt; rw [e.2]⟩

example : isEtherOp (.sstore 1 0 5) = false ∧ (step exDb ⟨exS, []⟩ (.sstore 1 0 5)).isSome = true := ⟨rfl, rfl⟩

/-- undoing one journal entry acts on balances exactly like `undoBal` (wrapping `+=` / `-=`) -/
theorem undo_entry_balances {db : Db} {sd : Bool} {s s' : JState} {e : Entry}
    (h : undoEntry sd s e = some s') : bal db s' = undoBal (bal db s) e :=
  (undoEntry_bal h).1

/-- every operation followed by the undo of the balance entries it pushed (`new`, at most one)
restores every balance exactly, hence also the sum: DESIGN A.1, per-operation lemma (b), on balances.
`StepOk` is the local hypothesis (funded creation, fitting self-destruct credit). -/
theorem op_then_undo_restores {db : Db} {r r' : Run} {op : Op} (hok : BalOk db r.js)
    (hloc : StepOk db r op) (h : step db r op = some r') (hnr : ∀ i, op ≠ .revert i) :
    ∃ new, JB r'.js = new ++ JB r.js ∧ undoAll (bal db r'.js) new = bal db r.js :=
  step_undo_restores hok hloc h hnr

example : StepOk exDb ⟨exS, []⟩ (.selfdestruct 2 1) := fun _ => by rw [W_val]; decide

/-- `checkpoint_revert` conserves: with `B` the balances that undoing the whole journal restores
(the invariant `BInv`, which every history keeps — `history_keeps_invariant`), a revert to any
checkpoint keeps the invariant and the ledger `Σ + burnt`: a reverted frame gives back exactly
what its transfers moved and what its self-destructs burnt -/
theorem undo_conserves {db : Db} {L : List Addr} {B : Addr → Nat} {s s' : JState} {cp : Checkpoint}
    (hn : L.Nodup) (hinv : BInv L B (absB db s)) (h : revert s cp = some s') :
    BInv L B (absB db s') ∧ total L db s' + burnt s' = total L db s + burnt s :=
  revert_ledger hn hinv h

example : BInv [1, 2, 3] (bal exDb exS) (absB exDb exS) := binv_fresh exBalOk rfl
/-- before Cancun: a frame burns 7 wei by a self-destruct naming itself and is reverted -/
example : ∃ s1 cp s2 r s3, checkpoint { exS with spec := 12 } = (s1, cp) ∧ selfdestruct exDb s1 2 2 = some (s2, r) ∧
    revert s2 cp = some s3 ∧ burnt s2 = 7 ∧ burnt s3 = 0 ∧ total [1, 2, 3] exDb s3 = 1000007 :=
  ⟨_, _, _, _, _, rfl, rfl, rfl, rfl, rfl, rfl⟩

/-! ## 5. histories -/

/-- every history of journal operations — transfers, creations, self-destructs, storage and nonce
operations, checkpoints, commits and reverts to any checkpoint, in any order and nesting — keeps the
invariant, provided the world's total fits in 256 bits, the list contains the addresses named, and
`create_account_checkpoint` is called with a funded caller (`make_create_frame_conserves`) -/
theorem history_keeps_invariant {db : Db} {L : List Addr} {B : Addr → Nat} {ops : List Op} {r r' : Run}
    (hn : L.Nodup) (hB : sumOver L B < W) (hinv : BInv L B (absB db r.js))
    (hL : ∀ op ∈ ops, ∀ a ∈ opAddrs op, a ∈ L) (hf : FundedRun db r ops) (h : run db r ops = some r') :
    BInv L B (absB db r'.js) :=
  run_inv hn hB hinv hL hf h

/-- **conservation over arbitrary histories**, from a state whose journal holds no balance entry
(the start of a transaction): what is left plus what was burnt by self-destructs that were not
reverted equals what was there. Failing operations need no hypothesis (they are part of `run`). -/
theorem history_conserves {db : Db} {L : List Addr} {ops : List Op} {r r' : Run}
    (hn : L.Nodup) (hok : BalOk db r.js) (hj : JB r.js = []) (hSum : total L db r.js < W)
    (hL : ∀ op ∈ ops, ∀ a ∈ opAddrs op, a ∈ L) (hf : FundedRun db r ops) (h : run db r ops = some r') :
    total L db r'.js + burnt r'.js = total L db r.js :=
  ledger_of_inv hn (run_inv hn hSum (binv_fresh hok hj) hL hf h)

/-- a history with a funded creation, a transfer, a real self-destruct-to-self of the created account,
a nested frame with a self-destruct that is reverted, and a revert of everything -/
def exOps : List Op :=
  [.create 1 3 false 4 17, .transfer 1 2 5, .selfdestruct 3 3, .checkpoint, .selfdestruct 2 1, .revert 1, .sstore 1 0 9]
example : (run exDb ⟨exS, []⟩ exOps).isSome = true := rfl
example : JB exS = [] := rfl
theorem exFunded : FundedRun exDb ⟨exS, []⟩ exOps := by
  simp only [exOps, FundedRun, Funded, implies_true, and_true]
  decide
example : ∀ r', run exDb ⟨exS, []⟩ exOps = some r' →
    total [1, 2, 3] exDb r'.js + burnt r'.js = total [1, 2, 3] exDb exS := fun _ h =>
  history_conserves (by decide) exBalOk rfl (by rw [W_val]; decide)
    (by intro op hop a ha; simp [exOps] at hop; rcases hop with rfl | rfl | rfl | rfl | rfl | rfl | rfl <;>
        simp [opAddrs] at ha <;> rcases ha with rfl | rfl <;> decide)
    exFunded h

/-- the same law under the *local* form of the hypotheses (what the driver evaluates step by step):
each creation funded, each self-destruct's credit fitting in 256 bits — no bound on the total -/
theorem history_conserves_local {db : Db} {L : List Addr} {ops : List Op} {r r' : Run}
    (hn : L.Nodup) (hok : BalOk db r.js) (hj : JB r.js = [])
    (hL : ∀ op ∈ ops, ∀ a ∈ opAddrs op, a ∈ L) (hf : StepOkRun db r ops) (h : run db r ops = some r') :
    total L db r'.js + burnt r'.js = total L db r.js :=
  ledger_of_inv hn (run_inv_local (binv_fresh hok hj) hL hf h)

/-- the same from any state reached by a history (ledger form) -/
theorem history_conserves_from {db : Db} {L : List Addr} {B : Addr → Nat} {ops : List Op} {r r' : Run}
    (hn : L.Nodup) (hB : sumOver L B < W) (hinv : BInv L B (absB db r.js))
    (hL : ∀ op ∈ ops, ∀ a ∈ opAddrs op, a ∈ L) (hf : FundedRun db r ops) (h : run db r ops = some r') :
    total L db r'.js + burnt r'.js = total L db r.js + burnt r.js := by
  rw [ledger_of_inv hn (run_inv hn hB hinv hL hf h), ledger_of_inv hn hinv]

/-! ## 6. the transaction: fee legs around a conserving execution -/

/-- Σ(post) + burnt base fee + blob fee + self-destruct burns + (beneficiary share if rewards are
disabled) = Σ(pre), for any execution phase that conserves (sections 1–5), under what validation
guarantees about the caller's balance. `burntPerGas` is the part of the effective gas price the
beneficiary does not receive. -/
theorem tx_conserves {db : Db} {L : List Addr} {s0 s1 s2 s3 : JState} {spec : Nat} {e : FeeEnv}
    {rewards : Bool} {remaining spent refunded burntExec : Nat}
    (hn : L.Nodup) (hcL : e.caller ∈ L) (hbL : e.coinbase ∈ L)
    (hok0 : BalOk db s0) (hSum : total L db s0 < W)
    (hval : Validated db s0 spec e) (hgas : GasOk e remaining spent refunded)
    (hded : deductCaller db s0 spec e = some s1)
    (hexec : total L db s2 + burntExec = total L db s1)
    (hpost : postExecution db s2 spec e rewards remaining spent refunded = some s3) :
    total L db s3 + burntPerGas spec e * (spent - refunded) + dataFee spec e + burntExec
      + (if rewards then 0 else coinbaseGasPrice spec e * (spent - refunded)) = total L db s0 :=
  Proofs.Ether.tx_conserves hn hcL hbL hok0 hSum hval hgas hded hexec hpost

example : Validated exDb exS 12 exEnv := ⟨by decide, by decide⟩
example : GasOk exEnv 0 21000 0 := ⟨rfl, by decide, by rw [U64_val]; decide⟩
example : ((deductCaller exDb exS 12 exEnv).bind fun s1 => postExecution exDb s1 12 exEnv true 0 21000 0).isSome = true := rfl
/-- the plain transfer-less transaction: 21 000 gas, base fee 3 of price 10: 63 000 wei are burnt -/
example : ∀ s1 s3, deductCaller exDb exS 12 exEnv = some s1 → postExecution exDb s1 12 exEnv true 0 21000 0 = some s3 →
    total [1, 2] exDb s3 + 63000 = total [1, 2] exDb exS := fun s1 s3 h1 h3 => by
  have := tx_conserves (L := [1, 2]) (burntExec := 0) (by decide) (by decide) (by decide) exBalOk (by rw [W_val]; decide)
    (show Validated exDb exS 12 exEnv from ⟨by decide, by decide⟩)
    (show GasOk exEnv 0 21000 0 from ⟨rfl, by decide, by rw [U64_val]; decide⟩) h1 rfl h3
  have hb : burntPerGas 12 exEnv = 3 := by decide
  have hd : dataFee 12 exEnv = 0 := by decide
  rw [hb, hd] at this
  simpa using this

/-- the same law under the *local* conditions the driver evaluates on the observed balances (the two
credits fit in 256 bits) instead of the bound on the total -/
theorem tx_conserves_local {db : Db} {L : List Addr} {s0 s1 s2 s3 : JState} {spec : Nat} {e : FeeEnv}
    {rewards : Bool} {remaining spent refunded burntExec : Nat}
    (hn : L.Nodup) (hcL : e.caller ∈ L) (hbL : e.coinbase ∈ L) (hok0 : BalOk db s0)
    (hfitR : bal db s2 e.caller + specReimbursement e remaining refunded < W)
    (hfitC : bal db s2 e.coinbase + (if e.coinbase = e.caller then specReimbursement e remaining refunded else 0)
      + specReward spec e spent refunded < W)
    (hval : Validated db s0 spec e) (hgas : GasOk e remaining spent refunded)
    (hded : deductCaller db s0 spec e = some s1)
    (hexec : total L db s2 + burntExec = total L db s1)
    (hpost : postExecution db s2 spec e rewards remaining spent refunded = some s3) :
    total L db s3 + specTxBurn spec e rewards spent refunded burntExec = total L db s0 := by
  have := Proofs.Ether.tx_conserves_local hn hcL hbL hok0 hfitR hfitC hval hgas hded hexec hpost
  unfold specTxBurn specReward; omega

example : bal exDb exS exEnv.caller + specReimbursement exEnv 0 0 < W ∧
    bal exDb exS exEnv.coinbase + (if exEnv.coinbase = exEnv.caller then specReimbursement exEnv 0 0 else 0)
      + specReward 12 exEnv 21000 0 < W := by rw [W_val]; decide

/-- sections 5 and 6 together: `deduct_caller`, then ANY history of journal operations (the frames of
the execution with their transfers, creations, self-destructs and reverts), then `reimburse_caller`
and `reward_beneficiary`: the transaction takes out of the sum exactly the burnt base fee, the blob fee,
what non-reverted self-destructs naming themselves burnt, and the withheld beneficiary share -/
theorem tx_with_any_execution_conserves {db : Db} {L : List Addr} {s0 s1 s3 : JState} {r2 : Run}
    {cps : List Checkpoint} {ops : List Op} {spec : Nat} {e : FeeEnv} {rewards : Bool}
    {remaining spent refunded : Nat}
    (hn : L.Nodup) (hcL : e.caller ∈ L) (hbL : e.coinbase ∈ L)
    (hok0 : BalOk db s0) (hj0 : JB s0 = []) (hSum : total L db s0 < W)
    (hval : Validated db s0 spec e) (hgas : GasOk e remaining spent refunded)
    (hded : deductCaller db s0 spec e = some s1)
    (hL : ∀ op ∈ ops, ∀ a ∈ opAddrs op, a ∈ L) (hf : FundedRun db ⟨s1, cps⟩ ops)
    (hrun : run db ⟨s1, cps⟩ ops = some r2)
    (hpost : postExecution db r2.js spec e rewards remaining spent refunded = some s3) :
    total L db s3 + specTxBurn spec e rewards spent refunded (burnt r2.js) = total L db s0 := by
  have := tx_history_conserves hn hcL hbL hok0 hj0 hSum hval hgas hded hL hf hrun hpost
  unfold specTxBurn specReward; omega

example : ((deductCaller exDb exS 12 exEnv).bind fun s1 =>
    (run exDb ⟨s1, []⟩ [.checkpoint, .transfer 1 2 5, .selfdestruct 2 2, .commit]).bind fun r2 =>
      postExecution exDb r2.js 12 exEnv false 0 21000 0).isSome = true := rfl

/-- the three legs in closed form under the same hypotheses (the driver's Spec column) -/
theorem deduct_caller_exact {db : Db} {s0 s1 : JState} {spec : Nat} {e : FeeEnv} (hok : BalOk db s0)
    (hval : Validated db s0 spec e) (h : deductCaller db s0 spec e = some s1) :
    bal db s1 = upd (bal db s0) e.caller (bal db s0 e.caller - specDebit spec e) ∧ burnt s1 = burnt s0 :=
  deduct_exact hok hval h

theorem reimbursement_closed_form {e : FeeEnv} {remaining spent refunded : Nat} (hg : GasOk e remaining spent refunded)
    (hfit : e.gasLimit * effectiveGasPrice e < W) :
    reimbursement e remaining refunded = specReimbursement e remaining refunded :=
  reimbursement_exact hg hfit

theorem reward_closed_form {spec : Nat} {e : FeeEnv} {remaining spent refunded : Nat} (hg : GasOk e remaining spent refunded)
    (hfit : e.gasLimit * effectiveGasPrice e < W) :
    reward spec e spent refunded = specReward spec e spent refunded :=
  reward_exact hg hfit

example : exEnv.gasLimit * effectiveGasPrice exEnv < W := by rw [W_val]; decide

/-- outside the Σ < 2^256 reading: `reward_beneficiary` uses `saturating_add`, so a beneficiary whose
balance plus reward does not fit in 256 bits ends at 2^256-1 and the rest of the reward is lost -/
theorem reward_beneficiary_saturates {db : Db} {s s' : JState} {spec : Nat} {e : FeeEnv} {spent refunded : Nat}
    (h : rewardBeneficiary db s spec e spent refunded = some s')
    (hov : W ≤ bal db s e.coinbase + reward spec e spent refunded) : bal db s' e.coinbase = W - 1 :=
  reward_saturates h hov

/-- witness: beneficiary 1 of `ovS` holds 2^256-1; the reward of 210 000 wei (Frontier, 21 000 gas at
price 10) is lost: the beneficiary's balance is the same before and after -/
theorem reward_saturation_counterexample :
    (rewardBeneficiary ovDb ovS 0 exEnv1 21000 0).isSome = true ∧
    reward 0 exEnv1 21000 0 = 210000 ∧ bal ovDb ovS 1 = W - 1 ∧
    ∀ s', rewardBeneficiary ovDb ovS 0 exEnv1 21000 0 = some s' → bal ovDb s' 1 = W - 1 := by
  have hr : reward 0 exEnv1 21000 0 = 210000 := by
    rw [reward_exact (spec := 0) (e := exEnv1) (remaining := 0) (spent := 21000) (refunded := 0)
      ⟨rfl, by decide, by rw [U64_val]; decide⟩ (by rw [W_val]; decide)]; rfl
  have hb : bal ovDb ovS 1 = W - 1 := rfl
  refine ⟨rfl, hr, hb, fun s' h => reward_saturates h ?_⟩
  show W ≤ bal ovDb ovS 1 + reward 0 exEnv1 21000 0
  rw [hr, hb]; have := W_val; omega

/-- from London on, with the validated `effective_gas_price ≥ basefee`, the burnt part is the base
fee times the gas used -/
theorem burnt_per_gas_london {spec : Nat} {e : FeeEnv} (h : spec ≥ LONDON)
    (hbf : e.basefee ≤ effectiveGasPrice e) : burntPerGas spec e = e.basefee := by
  rw [burntPerGas_london h]; omega

example : 12 ≥ LONDON ∧ exEnv.basefee ≤ effectiveGasPrice exEnv := by decide

/-- before London nothing is burnt by the fee legs -/
theorem burnt_per_gas_pre_london {spec : Nat} {e : FeeEnv} (h : ¬ spec ≥ LONDON) : burntPerGas spec e = 0 :=
  burntPerGas_pre_london h

/-- before Cancun there is no blob fee -/
theorem data_fee_pre_cancun {spec : Nat} {e : FeeEnv} (h : ¬ spec ≥ CANCUN) : dataFee spec e = 0 :=
  dataFee_pre_cancun h

end Revm.Props.C08
