import Revm.Proofs.EtherStatements
/-! # C08 — ether is conserved

Vocabulary (`Spec/Ether.lean`): `bal db s a` is the observable balance of `a` (journal entry if the
account is loaded, database otherwise), `total L db s` the sum over a duplicate-free list `L` of
addresses (an unbounded natural number), `burnt s` what the self-destructs naming themselves that are
still in the journal destroyed. `BalOk` says balances are 256-bit words. All theorems hold for every
state of the code-shaped model `Model/Journal.lean` / `Model/TxFeeLegs.lean`, every address list
containing the addresses the operation names, and every 256-bit value; `some …` in a hypothesis
means the Rust code did not panic (`unwrap` on an account that was never loaded).

Reading of DESIGN §8: a sum of 256-bit balances is conserved as a natural number; operations that
report failure conserve unconditionally; the only succeeding operation whose arithmetic can wrap on
admissible input is the credit of a self-destruct's beneficiary (`+=` on a 256-bit word), which cannot
wrap when the total fits in 256 bits — that case is characterised exactly. -/
namespace Revm.Props.C08
open Revm Revm.Model.Journal Revm.Model.TxFeeLegs Revm.Spec.JournalAbs Revm.Spec.Ether Revm.Proofs.Ether

/-! ## 1. `transfer` -/

/-- `JournaledState::transfer` leaves the sum unchanged on every path — success, `OutOfFunds`,
`OverflowPayment` — for all balances and values, without any bound on the sum. -/
theorem transfer_conserves {db : Db} {L : List Addr} {s s' : JState} {src dst : Addr} {v : Nat}
    {r : Option TransferErr} (hn : L.Nodup) (hs : src ∈ L) (hd : dst ∈ L) (hok : BalOk db s)
    (h : transfer db s src dst v = some (s', r)) : total L db s' = total L db s :=
  transfer_total hn hs hd hok h

/-- a failing transfer moves nothing at all (the repaired `OverflowPayment` path included) -/
theorem failed_transfer_moves_nothing {db : Db} {s s' : JState} {src dst : Addr} {v : Nat}
    {e : TransferErr} (hok : BalOk db s) (h : transfer db s src dst v = some (s', some e)) :
    bal db s' = bal db s ∧ burnt s' = burnt s :=
  transfer_fail_same hok h (by simp)

/-! ## 2. `create_account_checkpoint` / `make_create_frame` -/

/-- `create_account_checkpoint` conserves on the success path when the caller can pay the endowment
(the debit is a wrapping subtraction), and on both failure paths unconditionally -/
theorem create_conserves {db : Db} {L : List Addr} {s s' : JState} {caller a : Addr} {hs : Bool} {v spec : Nat}
    {r : Except CreateErr Checkpoint} (hn : L.Nodup) (hc : caller ∈ L) (ha : a ∈ L)
    (hfund : caller = a ∨ v ≤ bal db s caller)
    (h : createAccountCheckpoint s caller a hs v spec = some (s', r)) : total L db s' = total L db s :=
  create_total hn hc ha hfund h

/-- collision and endowment overflow leave every balance as it was, whatever the endowment -/
theorem failed_create_moves_nothing {db : Db} {s s' : JState} {caller a : Addr} {hs : Bool} {v spec : Nat}
    {er : CreateErr} (h : createAccountCheckpoint s caller a hs v spec = some (s', .error er)) :
    bal db s' = bal db s ∧ burnt s' = burnt s :=
  create_fail_same h

/-- why the hypothesis of `create_conserves` is needed: called with an endowment the caller cannot
pay, `create_account_checkpoint` mints exactly 2^256 wei -/
theorem create_unfunded_mints {db : Db} {L : List Addr} {s s' : JState} {caller a : Addr} {hs : Bool}
    {v spec : Nat} {cp : Checkpoint} (hn : L.Nodup) (hc : caller ∈ L) (ha : a ∈ L) (hca : caller ≠ a)
    (hlt : bal db s caller < v)
    (h : createAccountCheckpoint s caller a hs v spec = some (s', .ok cp)) :
    total L db s' = total L db s + W :=
  create_unfunded hn hc ha hca hlt h

/-- … and `make_create_frame`, the only caller, establishes that hypothesis itself: the frame
machine's path into `create_account_checkpoint` conserves on every path with no hypothesis -/
theorem make_create_frame_conserves {db : Db} {L : List Addr} {s s' : JState} {caller created : Addr}
    {hs : Bool} {v spec : Nat} {r : CreateFrame} (hn : L.Nodup) (hc : caller ∈ L) (ha : created ∈ L)
    (h : makeCreateFrame db s caller created hs v spec = some (s', r)) : total L db s' = total L db s :=
  makeCreateFrame_conserves hn hc ha h

/-! ## 3. `selfdestruct` -/

/-- the exact effect of `selfdestruct` on the sum, for every fork: the account's balance is burnt iff
it names itself and is really destroyed (before Cancun, or created in the same transaction), and
2^256 wei vanish iff the wrapping `+=` on a different beneficiary overflows -/
theorem selfdestruct_exact {db : Db} {L : List Addr} {s s' : JState} {a t : Addr} {res : Bool × Bool × Bool × Bool}
    (hn : L.Nodup) (ha : a ∈ L) (ht : t ∈ L) (hok : BalOk db s)
    (h : selfdestruct db s a t = some (s', res)) :
    total L db s'
      + (if a = t ∧ ((absAcct db s a).created ∨ !decide (s.spec ≥ CANCUN)) then bal db s a else 0)
      + (if a ≠ t ∧ W ≤ bal db s t + bal db s a then W else 0) = total L db s :=
  selfdestruct_total hn ha ht hok h

/-- beneficiary ≠ self, every fork, created or not: conserved when the credit fits -/
theorem selfdestruct_to_other_conserves {db : Db} {L : List Addr} {s s' : JState} {a t : Addr}
    {res : Bool × Bool × Bool × Bool} (hn : L.Nodup) (ha : a ∈ L) (ht : t ∈ L) (hok : BalOk db s)
    (hat : a ≠ t) (hfit : bal db s t + bal db s a < W)
    (h : selfdestruct db s a t = some (s', res)) : total L db s' = total L db s := by
  have := selfdestruct_total hn ha ht hok h
  rw [if_neg (fun hh => hat hh.1), if_neg (fun hh => by omega)] at this
  omega

/-- in particular when the total fits in 256 bits (DESIGN §8) -/
theorem selfdestruct_to_other_conserves_of_total {db : Db} {L : List Addr} {s s' : JState} {a t : Addr}
    {res : Bool × Bool × Bool × Bool} (hn : L.Nodup) (ha : a ∈ L) (ht : t ∈ L) (hok : BalOk db s)
    (hat : a ≠ t) (hSum : total L db s < W)
    (h : selfdestruct db s a t = some (s', res)) : total L db s' = total L db s :=
  selfdestruct_to_other_conserves hn ha ht hok hat
    (by have := two_le_sumOver (bal db s) hn ht ha (fun e => hat e.symm); unfold total at hSum; omega) h

/-- beneficiary = self before Cancun: the balance is burnt -/
theorem selfdestruct_self_pre_cancun_burns {db : Db} {L : List Addr} {s s' : JState} {a : Addr}
    {res : Bool × Bool × Bool × Bool} (hn : L.Nodup) (ha : a ∈ L) (hok : BalOk db s)
    (hspec : ¬ s.spec ≥ CANCUN)
    (h : selfdestruct db s a a = some (s', res)) : total L db s' + bal db s a = total L db s := by
  have := selfdestruct_total hn ha ha hok h
  rw [if_pos ⟨rfl, Or.inr (by simp [hspec])⟩, if_neg (fun hh => hh.1 rfl)] at this
  omega

/-- beneficiary = self from Cancun on, contract created in this transaction: burnt -/
theorem selfdestruct_self_cancun_created_burns {db : Db} {L : List Addr} {s s' : JState} {a : Addr}
    {res : Bool × Bool × Bool × Bool} (hn : L.Nodup) (ha : a ∈ L) (hok : BalOk db s)
    (hcr : (absAcct db s a).created = true)
    (h : selfdestruct db s a a = some (s', res)) : total L db s' + bal db s a = total L db s := by
  have := selfdestruct_total hn ha ha hok h
  rw [if_pos ⟨rfl, Or.inl hcr⟩, if_neg (fun hh => hh.1 rfl)] at this
  omega

/-- beneficiary = self from Cancun on, contract not created in this transaction (EIP-6780): kept -/
theorem selfdestruct_self_cancun_existing_keeps {db : Db} {L : List Addr} {s s' : JState} {a : Addr}
    {res : Bool × Bool × Bool × Bool} (hn : L.Nodup) (ha : a ∈ L) (hok : BalOk db s)
    (hspec : s.spec ≥ CANCUN) (hcr : (absAcct db s a).created = false)
    (h : selfdestruct db s a a = some (s', res)) : total L db s' = total L db s := by
  have := selfdestruct_total hn ha ha hok h
  rw [if_neg (fun hh => by rcases hh.2 with h1 | h1 <;> simp_all), if_neg (fun hh => hh.1 rfl)] at this
  omega

/-- outside the Σ < 2^256 reading: when beneficiary and contract together hold 2^256 wei or more, the
wrapping credit destroys exactly 2^256 wei (not reachable when the world's total fits in 256 bits) -/
theorem selfdestruct_overflow_destroys {db : Db} {L : List Addr} {s s' : JState} {a t : Addr}
    {res : Bool × Bool × Bool × Bool} (hn : L.Nodup) (ha : a ∈ L) (ht : t ∈ L) (hok : BalOk db s)
    (hat : a ≠ t) (hov : W ≤ bal db s t + bal db s a)
    (h : selfdestruct db s a t = some (s', res)) : total L db s' + W = total L db s := by
  have := selfdestruct_total hn ha ht hok h
  rw [if_neg (fun hh => hat hh.1), if_pos ⟨hat, hov⟩] at this
  omega

/-! ## 4. operations that do not move ether, and reverts -/

/-- load*, initial_account_load, touch, inc_nonce, set_code, sload, sstore, tload, tstore, log,
checkpoint, checkpoint_commit: every observable balance and the burn ledger stay as they are -/
theorem non_ether_op_keeps_balances {db : Db} {r r' : Run} {op : Op} (hop : isEtherOp op = false)
    (h : step db r op = some r') : bal db r'.js = bal db r.js ∧ burnt r'.js = burnt r.js :=
  let e := non_ether_step (db := db) hop h
  ⟨e.1, by unfold burnt; rw [e.2]⟩

/-- undoing one journal entry acts on balances exactly like `undoBal` (wrapping `+=` / `-=`) -/
theorem undo_entry_balances {db : Db} {sd : Bool} {s s' : JState} {e : Entry}
    (h : undoEntry sd s e = some s') : bal db s' = undoBal (bal db s) e :=
  (undoEntry_bal h).1

/-- `checkpoint_revert` conserves: with `B` the balances that undoing the whole journal restores
(the invariant `BInv`, which every history keeps — `history_keeps_invariant`), a revert to any
checkpoint keeps the invariant and the ledger `Σ + burnt`: a reverted frame gives back exactly
what its transfers moved and what its self-destructs burnt -/
theorem undo_conserves {db : Db} {L : List Addr} {B : Addr → Nat} {s s' : JState} {cp : Checkpoint}
    (hn : L.Nodup) (hinv : BInv L B (absB db s)) (h : revert s cp = some s') :
    BInv L B (absB db s') ∧ total L db s' + burnt s' = total L db s + burnt s :=
  revert_ledger hn hinv h

/-! ## 5. histories -/

/-- every history of journal operations — transfers, creations, self-destructs, storage and nonce
operations, checkpoints, commits and reverts to any checkpoint, in any order and nesting — keeps the
invariant, provided the world's total fits in 256 bits, the list contains the addresses named, and
`create_account_checkpoint` is called with a funded caller (`make_create_frame_conserves`) -/
theorem history_keeps_invariant {db : Db} {L : List Addr} {B : Addr → Nat} {ops : List Op} {r r' : Run}
    (hn : L.Nodup) (hB : sumOver L B < W) (hinv : BInv L B (absB db r.js))
    (hL : ∀ op ∈ ops, ∀ a ∈ opAddrs op, a ∈ L) (hf : FundedRun db r ops) (h : run db r ops = some r') :
    BInv L B (absB db r'.js) :=
  run_inv hn hB hinv hL hf h

/-- **conservation over arbitrary histories**, from a state whose journal holds no balance entry
(the start of a transaction): what is left plus what was burnt by self-destructs that were not
reverted equals what was there. Failing operations need no hypothesis (they are part of `run`). -/
theorem history_conserves {db : Db} {L : List Addr} {ops : List Op} {r r' : Run}
    (hn : L.Nodup) (hok : BalOk db r.js) (hj : JB r.js = []) (hSum : total L db r.js < W)
    (hL : ∀ op ∈ ops, ∀ a ∈ opAddrs op, a ∈ L) (hf : FundedRun db r ops) (h : run db r ops = some r') :
    total L db r'.js + burnt r'.js = total L db r.js :=
  ledger_of_inv hn (run_inv hn hSum (binv_fresh hok hj) hL hf h)

/-- the same from any state reached by a history (ledger form) -/
theorem history_conserves_from {db : Db} {L : List Addr} {B : Addr → Nat} {ops : List Op} {r r' : Run}
    (hn : L.Nodup) (hB : sumOver L B < W) (hinv : BInv L B (absB db r.js))
    (hL : ∀ op ∈ ops, ∀ a ∈ opAddrs op, a ∈ L) (hf : FundedRun db r ops) (h : run db r ops = some r') :
    total L db r'.js + burnt r'.js = total L db r.js + burnt r.js := by
  rw [ledger_of_inv hn (run_inv hn hB hinv hL hf h), ledger_of_inv hn hinv]

/-! ## 6. the transaction: fee legs around a conserving execution -/

/-- Σ(post) + burnt base fee + blob fee + self-destruct burns + (beneficiary share if rewards are
disabled) = Σ(pre), for any execution phase that conserves (sections 1–5), under what validation
guarantees about the caller's balance. `burntPerGas` is the part of the effective gas price the
beneficiary does not receive. -/
theorem tx_conserves {db : Db} {L : List Addr} {s0 s1 s2 s3 : JState} {spec : Nat} {e : FeeEnv}
    {rewards : Bool} {remaining spent refunded burntExec : Nat}
    (hn : L.Nodup) (hcL : e.caller ∈ L) (hbL : e.coinbase ∈ L)
    (hok0 : BalOk db s0) (hSum : total L db s0 < W)
    (hval : Validated db s0 spec e) (hgas : GasOk e remaining spent refunded)
    (hded : deductCaller db s0 spec e = some s1)
    (hexec : total L db s2 + burntExec = total L db s1)
    (hpost : postExecution db s2 spec e rewards remaining spent refunded = some s3) :
    total L db s3 + burntPerGas spec e * (spent - refunded) + dataFee spec e + burntExec
      + (if rewards then 0 else coinbaseGasPrice spec e * (spent - refunded)) = total L db s0 :=
  Proofs.Ether.tx_conserves hn hcL hbL hok0 hSum hval hgas hded hexec hpost

/-- from London on, with the validated `effective_gas_price ≥ basefee`, the burnt part is the base
fee times the gas used -/
theorem burnt_per_gas_london {spec : Nat} {e : FeeEnv} (h : spec ≥ LONDON)
    (hbf : e.basefee ≤ effectiveGasPrice e) : burntPerGas spec e = e.basefee := by
  rw [burntPerGas_london h]; omega

/-- before London nothing is burnt by the fee legs -/
theorem burnt_per_gas_pre_london {spec : Nat} {e : FeeEnv} (h : ¬ spec ≥ LONDON) : burntPerGas spec e = 0 :=
  burntPerGas_pre_london h

/-- before Cancun there is no blob fee -/
theorem data_fee_pre_cancun {spec : Nat} {e : FeeEnv} (h : ¬ spec ≥ CANCUN) : dataFee spec e = 0 :=
  dataFee_pre_cancun h

end Revm.Props.C08
