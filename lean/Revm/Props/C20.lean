import Revm.Proofs.Db
/-! C20 — database wrappers answer queries exactly like the data they wrap.

`Model.Db` follows the Rust (`CacheDB`, `EmptyDB`, `WrapDatabaseRef`, the `&mut`/`Box`/`Arc`
forwarders, `DatabaseComponents`, the read side and block-hash cache of `State`); `Spec.Db` is "the
underlying data overlaid with the committed changes" (`Data` = four total functions, updates are
direct overwrites, queries change nothing).

Result. The four data queries (`basic`, `storage`, `code_by_hash`, `block_hash`) of a `CacheDB`
answer like the overlay for every underlying data that is a state (`Consistent`), every history
and every query, and caching never changes an answer — *except* in five situations in which the
real code departs from the overlay semantics. They are excluded by the explicit hypothesis
`GoodRun` (so the headline theorem is `_partial`) and each has a `_counterexample` theorem below
and a witness in the correspondence stream:
  1. `has_storage` is not forwarded by `CacheDB`, `State`, `DatabaseComponents` (trait default `false`);
  2. a code hash that was asked for before the contract is inserted keeps the old (empty) answer;
  3. an address cached as not existing stays not existing after `insert_account_info`;
  4. `replace_account_storage` on a not existing address makes `basic` answer an (empty) account;
  5. after a committed self-destruct, a later plain touch of the address makes the *underlying*
     storage visible again.
The immutable path (`impl DatabaseRef for CacheDB`, which is separate Rust code) is modelled by its
own functions (`CacheDB.basicRef`, `storageRef`, `codeByHashRef`, `blockHashRef`, `hasStorageRef`,
`refQuery`); `ref_path_eq_mut_path` proves that it answers like the mutable path on every cache
state. `State` is covered on its read side (account / storage / code caches, block-hash cache with
pruning) and arbitrary stacks of wrappers by `stack_query`. Not covered here: `State::commit`
(property C15) and error propagation (the generated underlying database is infallible). -/
namespace Revm.Props.C20
open Revm.Model.Db Revm.Spec.Db

/-! ## CacheDB: queries -/

/-- every data query through `Database` answers like the `&self` reading (`DatabaseRef`) -/
theorem cachedb_query_answers_view (b : Data) (hb : Consistent b) (c : CacheDB) (q : DQuery) :
    (c.query b q.toQuery).2 = answer (c.view b) q := Proofs.Db.query_answer b hb c q

/-- The two access paths of a `CacheDB` agree. `CacheDB.refQuery` is the model of
`impl DatabaseRef for CacheDB` (`basic_ref`, `storage_ref`, `code_by_hash_ref`, `block_hash_ref`,
default `has_storage_ref`; also what `&CacheDB`, `WrapDatabaseRef(&cache)` and a `CacheDB` stacked on
`&cache` read), `CacheDB.query` the model of `impl Database for CacheDB`; they are separate
functions, as in the Rust. For every underlying state, EVERY cache state `c` — so in particular
every state a history of commits can produce: account self-destructed (`NotExisting`),
self-destructed and re-created (`StorageCleared`), touched, storage written, `insert_account_info`,
`replace_account_storage` — and each of the five queries: the immutable read answers what the
mutable read answers, and still does after the mutable read has cached what it fetched (for every
later query `q'`, not only the one just asked). -/
theorem ref_path_eq_mut_path (b : Data) (hb : Consistent b) (c : CacheDB) (q : Query) :
    c.refQuery b q = (c.query b q).2 ∧
    ∀ q', (c.query b q).1.refQuery b q' = c.refQuery b q' :=
  ⟨Proofs.Db.ref_eq_mut b hb c q, Proofs.Db.refQuery_after_query b hb c q⟩

/-- in a stack: `r` queries (`DatabaseRef` on the `CacheDB` value, `&`, `WrapDatabaseRef`) read
`Db.view`, which for a `CacheDB` layer is `refQuery` on the reading of what is below -/
theorem stack_cache_ref_path (i : Db) (c : CacheDB) (q : Query) :
    (Db.cache i c).view.answer q = c.refQuery i.view.toData q ∧
    (Db.wrapRef (.cache i c)).query q = (Db.wrapRef (.cache i c), c.refQuery i.view.toData q) := by
  cases q <;> exact ⟨rfl, rfl⟩

/-- caching never changes an answer: whatever a query writes into the cache, the reading of all
four data queries (for every address, slot, hash, number) is the same function as before -/
theorem cachedb_caching_never_changes_an_answer (b : Data) (hb : Consistent b) (c : CacheDB) (q : Query) :
    (c.query b q).1.view b = c.view b := Proofs.Db.query_view b hb c q

/-- caching is idempotent: the same query again gives the same answer and writes nothing -/
theorem cachedb_query_idempotent (b : Data) (c : CacheDB) (q : Query) :
    (c.query b q).1.query b q = ((c.query b q).1, (c.query b q).2) := Proofs.Db.query_idem b c q

/-- `load_account` only caches -/
theorem cachedb_load_account_only_caches (b : Data) (hb : Consistent b) (c : CacheDB) (a : Addr) :
    (c.loadAccount b a).1.view b = c.view b := Proofs.Db.loadAccount_view b hb c a

/-- a fresh `CacheDB` reads exactly like what it wraps -/
theorem cachedb_new_reads_underlying (b : Data) (hb : Consistent b) : CacheDB.new.view b = b :=
  Proofs.Db.view_new b hb

/-! ## CacheDB: updates are overwrites of the data -/

theorem cachedb_insert_account_storage (b : Data) (hb : Consistent b) (c : CacheDB) (a : Addr) (k : Slot) (x : Nat) :
    (c.insertAccountStorage b a k x).view b = setSlot (c.view b) a k x :=
  Proofs.Db.insertAccountStorage_view b hb c a k x

/-- partial: excludes situations 2 and 3 of the header -/
theorem cachedb_insert_account_info_partial (b : Data) (c : CacheDB) (a : Addr) (i : Info)
    (hcode : CodeOk c i) (habs : NotCachedAbsent c a) :
    (c.insertAccountInfo a i).view b = setInfo (c.view b) a i :=
  Proofs.Db.insertAccountInfo_view b c a i hcode habs

/-- partial: excludes situation 4 -/
theorem cachedb_replace_account_storage_partial (b : Data) (c : CacheDB) (a : Addr) (m : List (Slot × Nat))
    (hex : (c.view b).basic a ≠ none) :
    (c.replaceAccountStorage b a m).view b = replaceStorage (c.view b) a m :=
  Proofs.Db.replaceAccountStorage_view b c a m hex

/-- partial: excludes situations 2 and 5 -/
theorem cachedb_commit_partial (b : Data) (c : CacheDB) (chs : List Change) (hg : GoodCommit b c chs) :
    (c.commit chs).view b = commit (c.view b) chs := Proofs.Db.commit_view b chs c hg

/-! ## CacheDB: whole histories (induction over the history) -/

/-- For every underlying state, every history of queries (both traits), `load_account`,
inserts, replacements and commits that stays out of situations 2–5, the replies of the real
`CacheDB` are the replies of "data overlaid with the committed changes". `has_storage` is not among
the queries of a history (situation 1), hence `_partial`. -/
theorem cachedb_history_partial (b : Data) (hb : Consistent b) (ops : List Op)
    (hg : GoodRun b CacheDB.new ops) : crun b CacheDB.new ops = run b ops := by
  have := Proofs.Db.crun_eq b hb ops CacheDB.new hg
  rwa [Proofs.Db.view_new b hb] at this

/-- the same from any cache state (e.g. a `CacheDB` wrapped in another one: take `b := inner.view _`) -/
theorem cachedb_history_from_partial (b : Data) (hb : Consistent b) (c : CacheDB) (ops : List Op)
    (hg : GoodRun b c ops) : crun b c ops = run (c.view b) ops := Proofs.Db.crun_eq b hb ops c hg

/-- final data / final cache of a history, for the full statement -/
def cfinal (b : Data) : CacheDB → List Op → CacheDB
  | c, [] => c
  | c, op :: r => cfinal b (cstep b c op).1 r
def sfinal : Data → List Op → Data
  | v, [] => v
  | v, op :: r => sfinal (step v op).1 r

/-- The property at full strength for `CacheDB`: no `GoodRun` hypothesis, and `has_storage` answers
whether the overlaid data has a non-zero slot at the address. FALSE of the current code
(`cachedb_*_counterexample` below). -/
def CacheDbFullStatement : Prop :=
  ∀ (b : Data), Consistent b → ∀ (ops : List Op),
    crun b CacheDB.new ops = run b ops ∧
    ∀ a, CacheDB.hasStorage b (cfinal b CacheDB.new ops) a = true ↔ ∃ k, (sfinal b ops).storage a k ≠ 0

/-! ## forwarding wrappers and `EmptyDB` -/

/-- `WrapDatabaseRef` answers all five queries from the `DatabaseRef` reading of what it wraps and
writes nothing -/
theorem wrapref_forwards_all_five (i : Db) (q : Query) :
    (Db.wrapRef i).query q = (Db.wrapRef i, i.view.answer q) := rfl

/-- `&mut T` / `Box<T>`: all five queries (and their effects on `T`) are `T`'s -/
theorem mutref_box_forward_all_five (i : Db) (q : Query) :
    (Db.fwd i).query q = (Db.fwd (i.query q).1, (i.query q).2) := rfl

/-- `DatabaseComponents`: the four data queries are forwarded -/
theorem components_forward_data (i : Db) (q : DQuery) :
    (Db.components i).query q.toQuery = (Db.components (i.query q.toQuery).1, (i.query q.toQuery).2) := by
  cases q <;> rfl

/-- `EmptyDB`: no accounts, zero storage, empty code, `keccak256(number.to_string())`, no storage -/
theorem emptydb_answers (k : Nat → Hash) (a : Addr) (s : Slot) (h : Hash) (n : Nat) :
    ((Db.empty k).query (.basic a)).2 = .info none ∧
    ((Db.empty k).query (.storage a s)).2 = .word 0 ∧
    ((Db.empty k).query (.code h)).2 = .code Code.empty ∧
    ((Db.empty k).query (.blockHash n)).2 = .word (k n) ∧
    ((Db.empty k).query (.hasStorage a)).2 = .flag false := ⟨rfl, rfl, rfl, rfl, rfl⟩

/-- a `CacheDB` in a stack answers from the `DatabaseRef` reading of what is below it -/
theorem stack_cache_layer (i : Db) (hc : Consistent i.view.toData) (c : CacheDB) (q : DQuery) :
    ((Db.cache i c).query q.toQuery).2 = answer (c.view i.view.toData) q ∧
    ((Db.cache i c).query q.toQuery).1.view.toData = (Db.cache i c).view.toData := by
  constructor
  · exact Proofs.Db.query_answer i.view.toData hc c q
  · exact Proofs.Db.query_view i.view.toData hc c q.toQuery

/-! ## `State`: the block-hash cache with pruning -/

/-- one `block_hash(n)` of `State` over an inner database answering `f`: the answer is `f n`
whatever has been cached and pruned before, and every pair still cached is correct -/
theorem state_block_hash_step (f : Nat → Hash) (s : StateDb) (hs : Proofs.Db.BhOk f s.blockHashes) (n : Nat) :
    (s.step (.blockHash n) (.word (f n))).2.2 = .word (f n) ∧
    Proofs.Db.BhOk f (s.step (.blockHash n) (.word (f n))).2.1.blockHashes :=
  Proofs.Db.state_blockHash_step f s hs n

/-- block-hash pruning never changes an answer: for every sequence of block numbers asked from a
fresh `State` (before, inside and beyond the 256-block window, in any order, repeated), the answers
are the inner database's -/
theorem state_block_hash_history (f : Nat → Hash) (ns : List Nat) :
    Proofs.Db.stateBhRun f StateDb.new ns = ns.map (fun n => Reply.word (f n)) :=
  Proofs.Db.stateBhRun_eq f ns StateDb.new (by intro p hp; simp [StateDb.new] at hp)

/-- what pruning does remove: after the loop nothing older than `last` is kept (ordered map) -/
theorem state_prune_bound (m : List (Nat × Hash)) (last : Nat)
    (hsorted : List.Pairwise (fun p q : Nat × Hash => p.1 < q.1) m) :
    ∀ p ∈ btPrune m last, last ≤ p.1 := Proofs.Db.btPrune_bound m last hsorted

/-! ## `State`: read caches, and arbitrary stacks of wrappers -/

/-- `State::basic` returns the inner answer except that an *empty* account (no code, zero balance
and nonce) comes back as `AccountInfo::default()` -/
theorem state_basic_normalises_only_empty (oi : Option Info) :
    stateBasic oi = oi.map (fun i => if i.isEmpty then Info.default else i) := by
  cases oi with
  | none => rfl
  | some i => by_cases he : i.isEmpty = true <;> simp [stateBasic, CacheAccount.ofOpt, CacheAccount.accountInfo, he]

/-- one query of `State` whose caches agree with the inner reading `v` (`StOk`; true of a fresh
`State`): the answer is `v`'s (account info normalised as above) and the caches still agree.
`State::storage` on an address that was never loaded is `unreachable!` (a panic in the model),
hence the side condition. -/
theorem state_query_answers_inner (v : Data) (hv : Consistent v) (s : StateDb) (hs : Proofs.Db.StOk v s)
    (q : DQuery) (hl : ∀ a k, q = .storage a k → s.accounts a ≠ none) :
    (s.step q.toQuery (answer v q)).2.2 = answer (Proofs.Db.stateView v) q ∧
    Proofs.Db.StOk v (s.step q.toQuery (answer v q)).2.1 := Proofs.Db.state_step v hv s hs q hl

theorem state_fresh_ok (v : Data) : Proofs.Db.StOk v StateDb.new := Proofs.Db.stOk_new v

/-- Wrappers composed: for every stack built from `CacheDB`, `State`, `WrapDatabaseRef`, `&mut` /
`Box`, `DatabaseComponents` over a generated database or `EmptyDB` whose caches agree with what is
below them (`WF`), every data query answers like the stack's reading `d.view` (the underlying data
with the `CacheDB` overlays; empty accounts normalised by `State`), leaves that reading unchanged
— caching at any layer never changes an answer — and keeps the stack well-formed, so the
statement iterates over query sequences. -/
theorem stack_query (d : Db) (q : DQuery) (hw : Proofs.Db.WF d) (hr : Proofs.Db.Ready d q) :
    (d.query q.toQuery).2 = answer d.view.toData q ∧ (d.query q.toQuery).1.view = d.view ∧
    Proofs.Db.WF (d.query q.toQuery).1 := Proofs.Db.stack_query d q hw hr

/-! ## non-vacuity -/

def exInfo : Info := ⟨5, 0, KECCAK_EMPTY, none⟩
def exCode : Code := ⟨[0x60, 0x00], 0x1234⟩
/-- account 1 (with slot 7 = 9) exists, nothing else -/
def exData : Data :=
  { basic := fun a => if a = 1 then some exInfo else none,
    storage := fun a k => if a = 1 ∧ k = 7 then 9 else 0,
    code := fun _ => Code.empty,
    blockHash := fun n => n + 100 }
def exBase : Base := { toData := exData, hasStorage := fun a => a == 1 }

theorem exData_consistent : Consistent exData :=
  ⟨by intro a h k; by_cases ha : a = 1 <;> simp_all [exData], rfl, rfl⟩

def exOps : List Op :=
  [.query (.storage 1 7), .insertSlot 2 3 4, .query (.storage 2 3), .query (.basic 2),
   .insertInfo 3 ⟨1, 1, KECCAK_EMPTY, some exCode⟩, .query (.code 0x1234), .refQuery (.basic 3),
   .commit [⟨1, exInfo, true, false, false, [(7, 8)]⟩], .query (.storage 1 7), .query (.blockHash 5)]

/-- cache state after the first `n` operations of `exOps` -/
def exState (n : Nat) : CacheDB := cfinal exData CacheDB.new (exOps.take n)

example : GoodRun exData CacheDB.new exOps := by
  have h3 : (exState 4).accounts 3 = none := rfl
  have hk : (exState 4).contracts (codeKey ⟨1, 1, KECCAK_EMPTY, some exCode⟩ exCode) = none := rfl
  have h1 : (exState 7).accounts 1 = some ⟨exInfo, .none, upd (fun _ => none) 7 (some 9)⟩ := rfl
  refine ⟨trivial, trivial, trivial, trivial, ⟨?_, ?_⟩, trivial, trivial, ⟨?_, trivial⟩, trivial, trivial, trivial⟩
  · intro code hc he
    have : code = exCode := by simpa using hc.symm
    subst this; exact Or.inl hk
  · intro acc h
    have h' : (exState 4).accounts 3 = some acc := h
    rw [h3] at h'
    cases h'
  · intro _ _
    refine ⟨?_, ?_⟩
    · intro code hc; simp [exInfo] at hc
    · intro _ acc h hs
      have h' : (exState 7).accounts 1 = some acc := h
      rw [h1] at h'
      cases h'
      cases hs

example : run exData exOps =
    [some (.word 9), none, some (.word 4), some (.info none), none, some (.code exCode),
     some (.info (some ⟨1, 1, 0x1234, some exCode⟩)), none, some (.word 8), some (.word 105)] := by decide

/-- a three-layer stack over the example data is well-formed, and ready for a storage query once
the account has been loaded into the `State` layer -/
example : Proofs.Db.WF (.fwd (.state (.cache (.base exBase) CacheDB.new) StateDb.new)) := by
  have hv : (Db.cache (.base exBase) CacheDB.new).view.toData = exData := Proofs.Db.view_new exData exData_consistent
  refine ⟨⟨exData_consistent, exData_consistent⟩, ?_, ?_⟩
  · rw [hv]; exact exData_consistent
  · exact Proofs.Db.stOk_new _
example :
    let d := Db.fwd (.state (.cache (.base exBase) CacheDB.new) StateDb.new)
    ((d.query (.basic 1)).1.query (.storage 1 7)).2 = .word 9 ∧ (d.query (.storage 1 7)).2 = .panic := by decide

/-! ## counterexamples on the current code (each is also a witness line of the correspondence) -/

/-- 1a. storage in the underlying database: it says `has_storage = true`, `CacheDB` over it,
`State` over it and `DatabaseComponents` over it say `false` -/
theorem has_storage_not_forwarded_counterexample :
    exBase.hasStorage 1 = true ∧ exBase.storage 1 7 ≠ 0 ∧
    ((Db.cache (.base exBase) CacheDB.new).query (.hasStorage 1)).2 = .flag false ∧
    ((Db.state (.base exBase) StateDb.new).query (.hasStorage 1)).2 = .flag false ∧
    ((Db.components (.base exBase)).query (.hasStorage 1)).2 = .flag false ∧
    (Db.cache (.base exBase) CacheDB.new).view.hasStorage 1 = false := by decide

/-- … while the forwarding wrappers do pass it on -/
theorem has_storage_forwarded_by_forwarders :
    ((Db.wrapRef (.base exBase)).query (.hasStorage 1)).2 = .flag true ∧
    ((Db.fwd (.base exBase)).query (.hasStorage 1)).2 = .flag true := by decide

/-- 1b. storage inserted into the `CacheDB` itself: the slot reads 4, `has_storage` is `false` -/
theorem cachedb_inserted_storage_has_storage_counterexample :
    let c := CacheDB.new.insertAccountStorage exData 2 3 4
    (c.storage exData 2 3).2 = 4 ∧ c.hasStorage exData 2 = false := by decide

/-- hence the full statement is false of the code -/
theorem cachedb_full_statement_counterexample : ¬ CacheDbFullStatement := by
  intro h
  have := (h exData exData_consistent [.insertSlot 2 3 4]).2 2
  have h2 : ∃ k, (sfinal exData [.insertSlot 2 3 4]).storage 2 k ≠ 0 := ⟨3, by decide⟩
  have h3 := this.mpr h2
  simp [CacheDB.hasStorage] at h3

/-- 2. a code hash asked for before the contract is inserted keeps answering the empty code -/
theorem cachedb_code_cached_before_insert_counterexample :
    let ops : List Op := [.query (.code 0x1234), .insertInfo 3 ⟨0, 1, KECCAK_EMPTY, some exCode⟩, .query (.code 0x1234)]
    crun exData CacheDB.new ops = [some (.code Code.empty), none, some (.code Code.empty)] ∧
    run exData ops = [some (.code Code.empty), none, some (.code exCode)] ∧
    -- without the first query the code is found
    crun exData CacheDB.new ops.tail = [none, some (.code exCode)] := by decide

/-- 3. an address cached as not existing stays so after `insert_account_info` -/
theorem cachedb_info_after_absent_lookup_counterexample :
    let ops : List Op := [.query (.basic 9), .insertInfo 9 exInfo, .query (.basic 9)]
    crun exData CacheDB.new ops = [some (.info none), none, some (.info none)] ∧
    run exData ops = [some (.info none), none, some (.info (some exInfo))] ∧
    crun exData CacheDB.new ops.tail = [none, some (.info (some exInfo))] := by decide

/-- 4. `replace_account_storage` on a not existing address makes it an (empty) account -/
theorem cachedb_replace_storage_absent_counterexample :
    let ops : List Op := [.replaceStorage 3 [(1, 1)], .query (.basic 3)]
    crun exData CacheDB.new ops = [none, some (.info (some Info.default))] ∧
    run exData ops = [none, some (.info none)] := by decide

/-- 5. committed self-destruct, then a plain touch: the underlying slot value is visible again -/
theorem cachedb_selfdestruct_then_touch_counterexample :
    let ops : List Op := [.commit [⟨1, Info.default, true, true, false, []⟩], .query (.storage 1 7),
                          .commit [⟨1, exInfo, true, false, false, []⟩], .query (.storage 1 7)]
    crun exData CacheDB.new ops = [none, some (.word 0), none, some (.word 9)] ∧
    run exData ops = [none, some (.word 0), none, some (.word 0)] := by decide

/-- the account the seeded-change class is about: underlying slot 7 of account 1 holds 9, the
account is self-destructed through a commit and not re-created; both paths read zero, for the
written-out cache state (non-vacuity of `ref_path_eq_mut_path` on a `NotExisting` entry) -/
example :
    let c := CacheDB.new.commit [⟨1, Info.default, true, true, false, []⟩]
    (c.accounts 1).map (·.state) = some .notExisting ∧ exData.storage 1 7 = 9 ∧
    c.refQuery exData (.storage 1 7) = .word 0 ∧ (c.query exData (.storage 1 7)).2 = .word 0 ∧
    c.refQuery exData (.basic 1) = .info none ∧ (c.query exData (.basic 1)).2 = .info none := by decide

/-- … and why `ref_path_eq_mut_path` assumes `Consistent`: over an underlying database that reports
storage for an account it says does not exist, the two paths differ on a vacant entry (the mutable
path asks `basic` first and answers 0, the immutable path forwards `storage_ref`) -/
theorem ref_path_inconsistent_underlying_counterexample :
    let b : Data := { exData with storage := fun _ _ => 6 }
    CacheDB.new.refQuery b (.storage 9 0) = .word 6 ∧ (CacheDB.new.query b (.storage 9 0)).2 = .word 0 := by decide

/-- why `Consistent` is assumed: if the underlying database reports storage for an account it
says does not exist, `CacheDB` answers 0 where the database answers the value -/
theorem cachedb_inconsistent_underlying_counterexample :
    let b : Data := { exData with storage := fun _ _ => 6 }
    (CacheDB.new.storage b 9 0).2 = 0 ∧ b.storage 9 0 = 6 ∧ b.basic 9 = none := by decide

end Revm.Props.C20
