import Revm.Model.Evm
/-! The journal discipline with the admissibility conditions of C06 checked at run time.

`Spec.JournalAbs.admissible` (C06) states the revert theorem under conditions on the USE of the journal API that the
frame machine meets on every reachable run, but whose proof needs that `keccak256` address derivation never collides:
* `set_code` (end of a creation) is applied to an account whose code is empty — the `CodeChange` journal entry does not
  record the previous code;
* `create_account_checkpoint` that does not end in a collision is applied to a target that is not already marked
  `created` in this transaction (a second creation on an address created earlier in the transaction normally IS a
  collision — nonce 1 from Spurious Dragon on — and that case needs no condition).
`journalOpsStrict` is `journalOps` that stops (a model-level panic) when one of the two would be violated. A completed
run of the strict machine is a run of `journalOps` with the same result (`Proofs/EvmRefineStrict.lean`), so "the strict
run completes" is exactly the hypothesis "the run completes and is admissible" of the whole-transaction refinement
theorem (Props/C01.lean). -/
namespace Revm.Spec.Evm
open Revm Revm.Model Revm.Model.Evm

def journalOpsStrict : CpOps Journal.Checkpoint :=
  { journalOps with
    createCheckpoint := fun w caller a hasStorage value spec =>
      match w.js.state a with
      | some acc =>
        if acc.created ∧ ¬ (acc.info.codeHash ≠ Journal.KECCAK_EMPTY ∨ acc.info.nonce ≠ 0 ∨ hasStorage = true) then
          .error (.panic "inadmissible: create_account_checkpoint without collision on an account created in this transaction")
        else journalOps.createCheckpoint w caller a hasStorage value spec
      | none => journalOps.createCheckpoint w caller a hasStorage value spec
    setCode := fun w a hash =>
      match w.js.state a with
      | some acc =>
        if acc.info.codeHash = Journal.KECCAK_EMPTY then journalOps.setCode w a hash
        else .error (.panic "inadmissible: set_code on an account with code")
      | none => journalOps.setCode w a hash }

/-- the model's transaction under the strict discipline -/
def transactStrict (fuel : Nat) (w : World) (e : Env) (spec : Nat) : R (Outcome × World) :=
  transactWith journalOpsStrict fuel w e spec

end Revm.Spec.Evm
