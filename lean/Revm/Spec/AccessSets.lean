/-! C34 — the access sets of EIP-2929 / EIP-2930 / EIP-3651 / EIP-7702 as pure sets.

`accessed_addresses` and `accessed_storage_keys` are sets (characteristic functions). An access is cold
exactly when its key is not in the current set, and puts it in. Entering a frame (`checkpoint`) saves a
copy; a reverting frame restores the copy it saved (so everything accessed inside is forgotten), a
returning frame keeps the current sets. What the transaction itself pre-warms (`pre`) is never forgotten.

Addresses and storage keys are `Nat`s, forks are the `SpecId` numbers of the Rust enum. -/
namespace Revm.Spec.AccessSets

abbrev Addr := Nat

def BERLIN : Nat := 11
def SHANGHAI : Nat := 16
def PRAGUE : Nat := 18

inductive Access
  | addr (a : Addr)
  | slot (a : Addr) (k : Nat)
deriving DecidableEq, Repr

structure Sets where
  addrs : Addr → Bool
  slots : Addr → Nat → Bool

def Sets.empty : Sets := { addrs := fun _ => false, slots := fun _ _ => false }

def Sets.has (s : Sets) : Access → Bool
  | .addr a => s.addrs a
  | .slot a k => s.slots a k

def Sets.add (s : Sets) : Access → Sets
  | .addr a => { s with addrs := fun b => b = a || s.addrs b }
  | .slot a k => { s with slots := fun b j => (b = a && j = k) || s.slots b j }

def Sets.addAll (s : Sets) (xs : List Access) : Sets := xs.foldl Sets.add s

def Sets.union (s t : Sets) : Sets :=
  { addrs := fun a => s.addrs a || t.addrs a, slots := fun a k => s.slots a k || t.slots a k }

/-- the access-set machine: current sets, the copy saved by each checkpoint handed out so far
(oldest first; a checkpoint is named by its index), and the transaction-level pre-warmed set -/
structure State where
  cur : Sets
  snaps : List Sets
  pre : Sets

def State.init (pre : Sets) : State := { cur := pre, snaps := [], pre := pre }

/-- is the access charged the cold price? -/
def isCold (st : State) (x : Access) : Bool := !st.cur.has x

/-- one access: the reply is "cold", and the key is accessed from now on -/
def access (st : State) (x : Access) : State × Bool := ({ st with cur := st.cur.add x }, isCold st x)

/-- a list of accesses made by one operation, in order -/
def accessAll (st : State) : List Access → State × List Bool
  | [] => (st, [])
  | x :: xs => let (st1, c) := access st x; let (st2, cs) := accessAll st1 xs; (st2, c :: cs)

/-- transaction-level pre-warming (sender, recipient, precompiles, access list, coinbase, authorities) -/
def prewarm (st : State) (x : Access) : State := { st with cur := st.cur.add x, pre := st.pre.add x }

def checkpoint (st : State) : State := { st with snaps := st.snaps ++ [st.cur] }

/-- a frame that returns keeps everything -/
def commit (st : State) : State := st

/-- a frame that reverts forgets what was accessed since its checkpoint — except the pre-warmed set -/
def revert (st : State) (i : Nat) : Option State :=
  (st.snaps[i]?).map fun snap => { st with cur := snap.union st.pre }

/-! ## what a transaction pre-warms, per fork (the EIP texts) -/

structure TxEnv where
  spec : Nat
  sender : Addr
  /-- the recipient, or for a creation the address that will be created -/
  target : Addr
  coinbase : Addr
  precompiles : List Addr
  accessList : List (Addr × List Nat)
  /-- EIP-7702: the authorities of the tuples that pass the chain-id, nonce-range and signature checks -/
  authorities : List Addr
  /-- EIP-7702: the delegation target of the recipient, if it is a delegated account when the call starts -/
  targetDelegate : Option Addr

def accessListKeys (al : List (Addr × List Nat)) : List Access :=
  al.flatMap fun e => Access.addr e.1 :: e.2.map (Access.slot e.1)

/-- EIP-2929 (sender, recipient or created address, precompiles), EIP-2930 (access list), EIP-3651 (coinbase
from Shanghai), EIP-7702 (authorities and the recipient's delegation target from Prague); nothing before Berlin
(where no access is priced by warmth) -/
def eipPrewarm (e : TxEnv) : List Access :=
  if e.spec < BERLIN then [] else
  [Access.addr e.sender, Access.addr e.target] ++ e.precompiles.map Access.addr ++ accessListKeys e.accessList ++
  (if e.spec ≥ SHANGHAI then [Access.addr e.coinbase] else []) ++
  (if e.spec ≥ PRAGUE then e.authorities.map Access.addr ++ (e.targetDelegate.map Access.addr).toList else [])

def txInit (e : TxEnv) : State := State.init (Sets.empty.addAll (eipPrewarm e))

end Revm.Spec.AccessSets
