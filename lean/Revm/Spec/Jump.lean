/-! What "a valid jump destination" means (Yellow Paper 9.4.3 / EELS `get_valid_jump_destinations`),
stated three ways:

* `ValidDest code t` — declarative: `t` is inside the code, the byte there is JUMPDEST (0x5b) and `t` is an
  instruction boundary, where the boundaries are the inductive set reached from 0 by stepping over one
  opcode and its `pushLen` immediate bytes;
* `InPushData code t` — `t` lies in the immediate data of a PUSH1..PUSH32 that starts at a boundary
  (the wording of property C04); `Proofs.Jump.instrStart_iff_not_inPushData` shows that inside the code
  "boundary" and "not in push data" are the same thing;
* `validDests code` — executable: the textbook byte-by-byte scan with a counter of immediate bytes
  still to be skipped (structurally different from revm's pointer-skipping loop). -/
namespace Revm.Spec.Jump

/-- byte strings: every element is a byte -/
def Bytes (code : List Nat) : Prop := ∀ x ∈ code, x < 256

instance (code : List Nat) : Decidable (Bytes code) := by unfold Bytes; exact inferInstance

/-- number of immediate bytes of an opcode: PUSH1 (0x60) .. PUSH32 (0x7f) have 1..32, all others 0 -/
def pushLen (op : Nat) : Nat := if 0x60 ≤ op ∧ op ≤ 0x7f then op - 0x5f else 0

/-- instruction boundaries of `code`: 0 is one; after an instruction at `i` (inside the code) the next
one starts at `i + 1 + pushLen code[i]` (which may lie beyond the end for a truncated PUSH) -/
inductive InstrStart (code : List Nat) : Nat → Prop
  | zero : InstrStart code 0
  | step {i op : Nat} : InstrStart code i → code[i]? = some op → InstrStart code (i + 1 + pushLen op)

/-- `t` is a byte of the immediate data of a PUSH instruction -/
def InPushData (code : List Nat) (t : Nat) : Prop :=
  ∃ i op, InstrStart code i ∧ code[i]? = some op ∧ i < t ∧ t ≤ i + pushLen op

/-- valid jump destination -/
def ValidDest (code : List Nat) (t : Nat) : Prop :=
  t < code.length ∧ code[t]? = some 0x5b ∧ InstrStart code t

/-- the wording of the property: inside the code, JUMPDEST byte, not push data -/
def ValidDestText (code : List Nat) (t : Nat) : Prop :=
  t < code.length ∧ code[t]? = some 0x5b ∧ ¬ InPushData code t

/-- executable scan: `skip` = immediate bytes still to be skipped; one Bool per byte -/
def classify : List Nat → Nat → List Bool
  | [], _ => []
  | _ :: rest, skip + 1 => false :: classify rest skip
  | b :: rest, 0 => (b == 0x5b) :: classify rest (pushLen b)

/-- positions (counted from `i`) of the `true` entries -/
def trueIdx : List Bool → Nat → List Nat
  | [], _ => []
  | b :: r, i => if b then i :: trueIdx r (i + 1) else trueIdx r (i + 1)

/-- all valid destinations, ascending -/
def validDests (code : List Nat) : List Nat := trueIdx (classify code 0) 0

def validDestB (code : List Nat) (t : Nat) : Bool := (classify code 0)[t]? == some true

end Revm.Spec.Jump
