import Revm.Model.Backend
/-! C24 — what the two ECDSA libraries are assumed to share: the group they compute in.
`CurveLaws C` says that the parameter `C : Curve` is an abelian group in which every element is killed
by `n` (prime order is used only through the existence of scalar inverses), that `inv` inverts
scalars mod n, and that decompression `lift r b` returns a point whose x coordinate is `r` and whose
mirror image is the point of the other parity. Nothing else about secp256k1 is used. -/
namespace Revm.Spec.Backend
open Revm.Model.Backend

structure CurveLaws (C : Curve) : Prop where
  n_gt_one : 1 < C.n
  add_assoc : ∀ a b c : C.Pt, C.add (C.add a b) c = C.add a (C.add b c)
  add_comm : ∀ a b : C.Pt, C.add a b = C.add b a
  add_zero : ∀ a : C.Pt, C.add a C.zero = a
  add_neg : ∀ a : C.Pt, C.add a (C.neg a) = C.zero
  /-- the group has exponent n -/
  order : ∀ a : C.Pt, smul C C.n a = C.zero
  /-- n is prime: every non-zero scalar has an inverse, and `inv` computes it -/
  inv_mul : ∀ a, 0 < a → a < C.n → a * C.inv a % C.n = 1
  /-- the decompressed point has x coordinate r (r < n < p, so reducing x mod n changes nothing) -/
  lift_x : ∀ r b R, r < C.n → C.lift r b = some R → C.xmodn R = r
  /-- the two parities give mirror images, and decompression fails for both or for none -/
  lift_neg : ∀ r b, C.lift r (!b) = (C.lift r b).map C.neg

/-- textbook public-key recovery: `Q = r^-1 (s R - z G)` with `R = lift r parity`, `none` when R does
not exist or Q is the identity (the scalar range conditions are the caller's) -/
def recover (C : Curve) (z r s : Nat) (odd : Bool) : Option C.Pt :=
  match C.lift r odd with
  | none => none
  | some R =>
    let Q := smul C (C.inv r) (C.add (smul C s R) (C.neg (smul C z C.G)))
    if Q = C.zero then none else some Q

end Revm.Spec.Backend
