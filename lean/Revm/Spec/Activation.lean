/-! When each opcode and precompile exists — written by hand from the EIPs / Yellow Paper,
independently of revm's `opcodes!` table. Specs are numbered as `SpecId as u8` (mainnet build):
0 Frontier, 2 Homestead, 4 Tangerine, 5 Spurious Dragon, 6 Byzantium, 7 Constantinople,
8 Petersburg, 9 Istanbul, 11 Berlin, 12 London, 15 Merge, 16 Shanghai, 17 Cancun, 18 Prague,
19 Osaka, 255 Latest. -/
namespace Revm.Spec.Activation

def FRONTIER := 0
def HOMESTEAD := 2
def BYZANTIUM := 6
def CONSTANTINOPLE := 7
def ISTANBUL := 9
def LONDON := 12
def SHANGHAI := 16
def CANCUN := 17
def PRAGUE := 18

/-- the hardfork that introduced a *legacy* opcode, `none` if the byte is not a legacy opcode
(undefined, or one of the EOF-only opcodes, which legacy code can never execute) -/
def introducedIn (op : Nat) : Option Nat :=
  if op ≤ 0x0b then some FRONTIER                       -- STOP … SIGNEXTEND
  else if 0x10 ≤ op ∧ op ≤ 0x1a then some FRONTIER      -- LT … BYTE
  else if 0x1b ≤ op ∧ op ≤ 0x1d then some CONSTANTINOPLE -- SHL SHR SAR (EIP-145)
  else if op = 0x20 then some FRONTIER                  -- KECCAK256
  else if 0x30 ≤ op ∧ op ≤ 0x3c then some FRONTIER      -- ADDRESS … EXTCODECOPY
  else if op = 0x3d ∨ op = 0x3e then some BYZANTIUM     -- RETURNDATASIZE/COPY (EIP-211)
  else if op = 0x3f then some CONSTANTINOPLE            -- EXTCODEHASH (EIP-1052)
  else if 0x40 ≤ op ∧ op ≤ 0x45 then some FRONTIER      -- BLOCKHASH … GASLIMIT
  else if op = 0x46 ∨ op = 0x47 then some ISTANBUL      -- CHAINID (EIP-1344), SELFBALANCE (EIP-1884)
  else if op = 0x48 then some LONDON                    -- BASEFEE (EIP-3198)
  else if op = 0x49 ∨ op = 0x4a then some CANCUN        -- BLOBHASH (EIP-4844), BLOBBASEFEE (EIP-7516)
  else if 0x50 ≤ op ∧ op ≤ 0x5b then some FRONTIER      -- POP … JUMPDEST
  else if op = 0x5c ∨ op = 0x5d then some CANCUN        -- TLOAD/TSTORE (EIP-1153)
  else if op = 0x5e then some CANCUN                    -- MCOPY (EIP-5656)
  else if op = 0x5f then some SHANGHAI                  -- PUSH0 (EIP-3855)
  else if 0x60 ≤ op ∧ op ≤ 0xa4 then some FRONTIER      -- PUSH1…32, DUP1…16, SWAP1…16, LOG0…4
  else if 0xf0 ≤ op ∧ op ≤ 0xf3 then some FRONTIER      -- CREATE CALL CALLCODE RETURN
  else if op = 0xf4 then some HOMESTEAD                 -- DELEGATECALL (EIP-7)
  else if op = 0xf5 then some CONSTANTINOPLE            -- CREATE2 (EIP-1014)
  else if op = 0xfa then some BYZANTIUM                 -- STATICCALL (EIP-214)
  else if op = 0xfd then some BYZANTIUM                 -- REVERT (EIP-140)
  else if op = 0xfe then some FRONTIER                  -- INVALID (EIP-141: the designated invalid instruction)
  else if op = 0xff then some FRONTIER                  -- SELFDESTRUCT
  else none

/-- EOF-only opcodes (EIP-7692 family): never available to legacy code -/
def eofOnly (op : Nat) : Bool :=
  (0xd0 ≤ op ∧ op ≤ 0xd3) ∨ (0xe0 ≤ op ∧ op ≤ 0xe8) ∨ op = 0xec ∨ op = 0xee ∨ op = 0xf7 ∨ op = 0xf8 ∨ op = 0xf9 ∨ op = 0xfb

/-- the opcode is undefined for legacy code under `spec` -/
def undefinedIn (spec op : Nat) : Bool :=
  match introducedIn op with
  | none => true
  | some f => spec < f

/-- the hardfork from which an address is a precompile -/
def precompileSince (addr : Nat) : Option Nat :=
  if 1 ≤ addr ∧ addr ≤ 4 then some FRONTIER            -- ecrecover, sha256, ripemd160, identity
  else if 5 ≤ addr ∧ addr ≤ 8 then some BYZANTIUM      -- modexp (EIP-198), bn254 add/mul/pairing (EIP-196/197)
  else if addr = 9 then some ISTANBUL                  -- blake2f (EIP-152)
  else if addr = 10 then some CANCUN                   -- KZG point evaluation (EIP-4844)
  else if 11 ≤ addr ∧ addr ≤ 17 then some PRAGUE       -- BLS12-381 (EIP-2537, final address layout)
  else none

def isPrecompileIn (spec addr : Nat) : Bool :=
  match precompileSince addr with
  | none => false
  | some f => spec ≥ f

end Revm.Spec.Activation
