import Revm.Model.Stack
/-! What C12 *means*: the EVM stack is a last-in-first-out list of at most 1024 words.

Here the stack is a `List Nat` whose **head is the top** (the usual functional stack); an operation
either yields the new list or reports overflow / underflow and yields the old list. Nothing here
mentions buffer indices, limbs or lengths of a `Vec`. `dup n` / `swap n` / `exchange n m` use the
EVM numbering (`dup 1` copies the top, `swap 1` exchanges the top two, `exchange n m` exchanges the
items at depth `n` and `n + m`, depth 0 = top). -/
namespace Revm.Spec.Stack
open Revm
open Revm.Model.Stack (Err Out Op)

def LIMIT : Nat := 1024

def push (s : List Nat) (v : Nat) : List Nat × Out :=
  if s.length < LIMIT then (v :: s, .unit) else (s, .err .StackOverflow)

def pop : List Nat → List Nat × Out
  | [] => ([], .err .StackUnderflow)
  | v :: s => (s, .word v)

def peek (s : List Nat) (n : Nat) : List Nat × Out :=
  match s[n]? with
  | some v => (s, .word v)
  | none => (s, .err .StackUnderflow)

/-- `dup n`, `n ≥ 1`: push a copy of the item at depth `n - 1`; underflow is reported before overflow -/
def dup (s : List Nat) (n : Nat) : List Nat × Out :=
  match s[n - 1]? with
  | none => (s, .err .StackUnderflow)
  | some v => if s.length < LIMIT then (v :: s, .unit) else (s, .err .StackOverflow)

/-- exchange the items at depths `n` and `n + m` (`m ≥ 1`) -/
def exchange (s : List Nat) (n m : Nat) : List Nat × Out :=
  match s[n]?, s[n + m]? with
  | some a, some b => ((s.set n b).set (n + m) a, .unit)
  | _, _ => (s, .err .StackUnderflow)

def swap (s : List Nat) (n : Nat) : List Nat × Out := exchange s 0 n

def set (s : List Nat) (n : Nat) (v : Nat) : List Nat × Out :=
  if n < s.length then (s.set n v, .unit) else (s, .err .StackUnderflow)

/-- pop `k` words at once (what an instruction with `k` operands does); all or nothing -/
def popN (s : List Nat) (k : Nat) : List Nat × Out :=
  if s.length < k then (s, .err .StackUnderflow) else (s.drop k, .words (s.take k))

/-- an instruction with `k ≥ 1` operands and one result: needs `k` words, pops `k - 1` of them and
replaces the next one (the `k`-th operand) by the result `v` -/
def popTop (s : List Nat) (k : Nat) (v : Nat) : List Nat × Out :=
  if s.length < k then (s, .err .StackUnderflow)
  else match s.drop (k - 1) with
    | t :: rest => (v :: rest, .wordsTop (s.take (k - 1)) t)
    | [] => (s, .err .StackUnderflow)

/-- big-endian value of a byte string: `Σ bᵢ · 256^(len-1-i)` -/
def beNat : List Nat → Nat
  | [] => 0
  | b :: bs => b * 256 ^ bs.length + beNat bs

/-- consecutive 32-byte chunks of a byte string; the last one may be shorter (never empty) -/
def chunks32 (bs : List Nat) : List (List Nat) :=
  if _h : bs = [] then [] else bs.take 32 :: chunks32 (bs.drop 32)
termination_by bs.length
decreasing_by
  have : bs.length ≠ 0 := fun h0 => ‹¬ bs = []› (List.eq_nil_of_length_eq_zero h0)
  simp only [List.length_drop]; omega

/-- number of words a slice of `n` bytes occupies: `⌈n / 32⌉` -/
def ceil32 (n : Nat) : Nat := (n + 31) / 32

/-- push a byte slice: one word per 32-byte chunk, first chunk deepest, each word the big-endian
*value* of its chunk. (For the short last chunk this is a zero-*extension*: `push_slice [0x2a]`
pushes 42. See DESIGN §8 on the "right-padded" wording of the property text.) All or nothing. -/
def pushSlice (s : List Nat) (bs : List Nat) : List Nat × Out :=
  if s.length + ceil32 bs.length > LIMIT then (s, .err .StackOverflow)
  else (((chunks32 bs).map beNat).reverse ++ s, .unit)

def step (s : List Nat) : Op → List Nat × Out
  | .push v => push s v
  | .pushB256 bs => push s (beNat bs)
  | .pop => pop s
  | .peek n => peek s n
  | .dup n => dup s n
  | .swap n => swap s n
  | .exchange n m => exchange s n m
  | .set n v => set s n v
  | .pushSlice bs => pushSlice s bs
  | .popN k => popN s k
  | .popTop k v => popTop s k v

def run (s : List Nat) : List Op → List Nat × List Out
  | [] => (s, [])
  | op :: ops =>
    let r := step s op
    let rest := run r.1 ops
    (rest.1, r.2 :: rest.2)

end Revm.Spec.Stack
