import Revm.Model.Bundle
/-! Reference plain state for C16–C18: two tables as a database keeps them
(`accounts : Address → Option info`, `storage : Address → Slot → value`, absent = 0), the direct
application of committed EVM states to it, and the meaning of a `StateChangeset` / of one block of
`PlainStateReverts` as functions on plain states. Short on purpose. -/
namespace Revm.Spec.Bundle
open Revm.Model.Bundle

/-- plain state; `accts` newest entry first (`none` = deleted), `stor` triples (address, slot, value)
newest first; reading goes through `acct` / `slot` only -/
structure Plain where
  accts : List (Nat × Option Info) := []
  stor : List (Nat × Nat × Nat) := []
deriving Repr

namespace Plain
def acct (p : Plain) (a : Nat) : Option Info :=
  match p.accts.find? (fun e => e.1 == a) with
  | some e => e.2
  | none => none
def slot (p : Plain) (a k : Nat) : Nat :=
  match p.stor.find? (fun e => e.1 == a && e.2.1 == k) with
  | some e => e.2.2
  | none => 0
def setAcct (p : Plain) (a : Nat) (i : Option Info) : Plain := { p with accts := (a, i) :: p.accts }
def setSlot (p : Plain) (a k v : Nat) : Plain := { p with stor := (a, k, v) :: p.stor }
def wipe (p : Plain) (a : Nat) : Plain := { p with stor := p.stor.filter (fun e => e.1 != a) }
def setSlots (p : Plain) (a : Nat) (l : List (Nat × Nat)) : Plain :=
  l.foldl (fun p e => p.setSlot a e.1 e.2) p
end Plain

/-- direct application of one committed account (DESIGN A.2), info stored without code -/
def applyCommitAcct (sc : Bool) (p : Plain) (a : Nat) (ea : EvmAcct) : Plain :=
  if !ea.touched then p else
  let changed := (ea.storage.filter (fun e => e.2.isChanged)).map (fun e => (e.1, e.2.present))
  if ea.selfdestructed then (p.wipe a).setAcct a none
  else if ea.created then ((p.wipe a).setSlots a changed).setAcct a (some ea.info.withoutCode)
  else if ea.info.isEmpty then
    if sc then (p.wipe a).setAcct a none
    else (p.setSlots a changed).setAcct a (some Info.dflt.withoutCode)
  else (p.setSlots a changed).setAcct a (some ea.info.withoutCode)

def applyCommit (sc : Bool) (p : Plain) (l : List (Nat × EvmAcct)) : Plain :=
  l.foldl (fun p e => applyCommitAcct sc p e.1 e.2) p

def applyIncrement (p : Plain) (l : List (Nat × Nat)) : Plain :=
  l.foldl (fun p e => if e.2 = 0 then p else
    let i := ((p.acct e.1).getD Info.dflt).withoutCode
    p.setAcct e.1 (some { i with balance := satAddW i.balance e.2 })) p

def applyDrain (p : Plain) (l : List Nat) : Plain :=
  l.foldl (fun p a =>
    let i := ((p.acct a).getD Info.dflt).withoutCode
    p.setAcct a (some { i with balance := 0 })) p

/-- a `StateChangeset` applied to a database: account rows, then per address wipe + slot writes -/
def applyChangeset (cs : Changeset) (p : Plain) : Plain :=
  let p := cs.accounts.foldl (fun p e => p.setAcct e.1 (e.2.map Info.withoutCode)) p
  cs.storage.foldl (fun p e => (if e.2.1 then p.wipe e.1 else p).setSlots e.1 e.2.2) p

/-- one block of `PlainStateReverts` applied to the state after that block. `p0` is the pre-bundle
state: a wiped account's unlisted slots read as their pre-bundle value (C17 statement). A listed
`Destroyed` slot reads as 0 (`RevertToSlot::to_previous_value`, the literal reading, `dbReading = false`)
or, with `dbReading = true`, as the pre-bundle value when the same revert wipes the storage (the
reading database writers such as reth implement: "if it is destroyed, previous values can be found in
database or it can be zero") -/
def applyRevertBlock (dbReading : Bool) (p0 : Plain) (blk : PlainRevertBlock) (p : Plain) : Plain :=
  let p := blk.accounts.foldl (fun p e => p.setAcct e.1 (e.2.map Info.withoutCode)) p
  blk.storage.foldl (fun p e =>
    let base : Plain := if e.2.1 then
        { p with stor := p0.stor.filter (fun t => t.1 == e.1) ++ (p.wipe e.1).stor } else p
    base.setSlots e.1 (e.2.2.map (fun s => (s.1,
      match s.2 with
      | .some v => v
      | .destroyed => if dbReading && e.2.1 then p0.slot e.1 s.1 else 0)))) p


/-! ## histories, EVM reachability, and the full statements of C16–C18 -/

/-- observational equality of plain states -/
def PlainEq (p q : Plain) : Prop := (∀ a, p.acct a = q.acct a) ∧ (∀ a k, p.slot a k = q.slot a k)

def hasStorage (p : Plain) (a : Nat) : Bool := p.stor.any (fun e => e.1 == a && p.slot a e.2.1 != 0)

/-- the keys of an association list are pairwise distinct (an `EvmState` and the storage of each of its
accounts are `HashMap`s) -/
def distinctKeys {α : Type} : List (Nat × α) → Bool
  | [] => true
  | e :: r => !(r.any (fun x => x.1 == e.1)) && distinctKeys r

/-- a database keeps no storage for an account that does not exist -/
def plainWF (p : Plain) : Prop := ∀ a, p.acct a = none → ∀ k, p.slot a k = 0

/-- what the EVM can commit for one account when the plain state is `p` (the conditions the generator
of the correspondence stream obeys; DESIGN A.2 "Reach") -/
def evmOk (_sc : Bool) (p : Plain) (a : Nat) (e : EvmAcct) : Bool :=
  if !e.touched then true else
  let old := p.acct a
  let origOk := e.storage.all (fun s => s.2.orig == (if e.created then 0 else p.slot a s.1))
  let changed := e.storage.any (fun s => s.2.isChanged)
  distinctKeys e.storage && origOk &&
  (if e.created then
     -- creation target: absent, or no nonce / code / storage (EIP-684, EIP-7610)
     (match old with | none => true | some o => o.nonce == 0 && o.codeHash == 0 && !hasStorage p a)
   else if e.selfdestructed then
     (match old with | some o => o.codeHash != 0 | none => false)
   else if e.info.isEmpty then
     (match old with | none => true | some o => o.isEmpty) && !changed
   else
     (match old with
      | none => e.info.nonce == 0 && e.info.codeHash == 0 && !changed
      | some o => o.nonce ≤ e.info.nonce && (o.codeHash == e.info.codeHash || e.info.nonce ≥ 1)
                  && (!changed || o.codeHash != 0)))

/-- a merge group is a list of commits; a history a list of groups (any schedule: per tx, per block, mixed) -/
abbrev Group := List (List (Nat × EvmAcct))

def runGroup (s : SState) (p : Plain) : Group → Option (SState × Plain)
  | [] => (s.merge true).map (fun s' => (s', p))
  | c :: cs => (s.commit c).bind (fun s' => runGroup s' (applyCommit s.sc p c) cs)

/-- states and reference states after each group: `[(S_1, R_1), …, (S_n, R_n)]`; `none` = panic -/
def runHistory (s : SState) (p : Plain) : List Group → Option (List (SState × Plain))
  | [] => some []
  | g :: gs => (runGroup s p g).bind (fun r => (runHistory r.1 r.2 gs).map (fun l => r :: l))

/-- every commit of the history is EVM-reachable from the reference state it is applied to -/
def reachGroup (sc : Bool) (p : Plain) : Group → Bool
  | [] => true
  | c :: cs => distinctKeys c && c.all (fun e => evmOk sc p e.1 e.2) && reachGroup sc (applyCommit sc p c) cs
def groupEnd (sc : Bool) (p : Plain) (g : Group) : Plain := g.foldl (applyCommit sc) p
def reachHistory (sc : Bool) (p : Plain) : List Group → Bool
  | [] => true
  | g :: gs => reachGroup sc p g && reachHistory sc (groupEnd sc p g) gs

/-- the database a `State` is built over agrees with the plain state `p` -/
def dbMatches (db : BMap Info) (p : Plain) : Prop := ∀ a, (db.get a).map Info.withoutCode = p.acct a

/-- **C16, full statement**: for every database (`plainWF`: no storage under absent accounts), both
state-clear settings, every EVM-reachable history and merge schedule and both `OriginalValuesKnown`
settings, merging never panics and the changeset applied to the pre-history plain state is the
post-history plain state. (The bundle is built by a fresh `State` from an empty bundle; for bundles
started with `take_bundle` on a continuing `State` see finding F3.) -/
def ChangesetCorrectStatement : Prop :=
  ∀ (db : BMap Info) (sc : Bool) (p0 : Plain) (h : List Group) (known : Bool),
    dbMatches db p0 → plainWF p0 → reachHistory sc p0 h = true →
    ∃ l, runHistory { db := db, sc := sc } p0 h = some l ∧
      ∀ s r, l.getLast? = some (s, r) → PlainEq (applyChangeset (toPlainState s.bundle known) p0) r

/-- **C17, first sentence, full statement** (with the `dbReading` of `Destroyed` slots fixed by the caller):
block k of the plain reverts maps the reference state after group k to the one before it. -/
def RevertKCorrectStatement (dbReading : Bool) : Prop :=
  ∀ (db : BMap Info) (sc : Bool) (p0 : Plain) (h : List Group),
    dbMatches db p0 → plainWF p0 → reachHistory sc p0 h = true →
    ∃ l, runHistory { db := db, sc := sc } p0 h = some l ∧
      ∀ s r, l.getLast? = some (s, r) →
        ∀ (k : Nat) blk before after, (toPlainStateReverts s.bundle)[k]? = some blk →
          ((p0 :: l.map (·.2))[k]? = some before) → ((l.map (·.2))[k]? = some after) →
          PlainEq (applyRevertBlock dbReading p0 blk after) before

/-- **C17, second sentence, full statement**: reverting the last j groups leaves a bundle whose changeset
describes the state after the first n - j groups. -/
def RevertJEqualsPrefixStatement : Prop :=
  ∀ (db : BMap Info) (sc : Bool) (p0 : Plain) (h : List Group) (j : Nat) (known : Bool),
    dbMatches db p0 → plainWF p0 → reachHistory sc p0 h = true →
    ∃ l, runHistory { db := db, sc := sc } p0 h = some l ∧
      ∀ s r, l.getLast? = some (s, r) →
        ∀ tgt, (p0 :: l.map (·.2))[h.length - j]? = some tgt →
          PlainEq (applyChangeset (toPlainState (revertN s.bundle j) known) p0) tgt

/-! ## decidable region of C17's second sentence (`revert(j)` = prefix bundle) -/

/-- `BundleState::revert_latest` applies a storage-wiping `AccountRevert` exactly only when the revert lists
no slot and the bundle account it is applied to holds no slot entries (findings F2a / F2b: `BundleAccount::revert`
ignores `wipe_storage`, so original values and stale entries are not restored) -/
def wipeOk (b? : Option BAcct) (r : ARevert) : Bool :=
  !r.wipe || (r.storage.isEmpty && (match b? with | some b => b.storage.isEmpty | none => true))

/-- every revert of the latest block is in that region -/
def revertStepOk (b : BState) : Bool :=
  match b.reverts.getLast? with
  | none => true
  | some blk => blk.all (fun e => wipeOk (b.state.get e.1) e.2)

/-- every one of the j `revert_latest` steps of `revert(j)` is in that region -/
def revertOk (b : BState) : Nat → Bool
  | 0 => true
  | j + 1 => revertStepOk b && (if (revertLatest b).2 then revertOk (revertLatest b).1 j else true)

/-- simpler sufficient condition: none of the last j blocks holds a storage-wiping revert -/
def noWipeInLast (b : BState) (j : Nat) : Bool :=
  (b.reverts.drop (b.reverts.length - j)).all (fun blk => blk.all (fun e => !e.2.wipe))

/-! ## decidable regions of C17 (first sentence, literal reading) and C18 (pre-values after `extend`) -/

/-- no wiping revert of the block lists a `Destroyed` slot (outside this region the literal reading of
`RevertToSlot::Destroyed` as zero is wrong: finding F1) -/
def literalOk (blk : BMap ARevert) : Bool :=
  blk.all (fun e => !e.2.wipe || e.2.storage.all (fun s => s.2 != RevSlot.destroyed))

/-- region outside finding F4 (decidable): no storage-wiping revert of the second bundle lists as `Destroyed`
a slot that the first bundle's account of the same address holds -/
def extendOk (b1 b2 : BState) : Bool :=
  b2.reverts.all (fun blk => blk.all (fun e => !e.2.wipe ||
    match b1.state.get e.1 with
    | none => true
    | some ta => e.2.storage.all (fun s => s.2 != RevSlot.destroyed || (ta.storage.get s.1).isNone)))

/-- region in which `revert(j)` on `extend(b1, b2)` is claimed by the correspondence oracle (outside finding F5:
the reverts of the second half carry `previous_status` of the second `State`'s cache, so an account that the
first bundle holds with a destroyed status loses its wipe): j reaches into the second half only, none of the
reverted blocks holds a storage-wiping revert, and no account destroyed in the first bundle is present in the second -/
def extRevertOk (b1 b2 : BState) (j : Nat) : Bool :=
  decide (j ≤ b2.reverts.length) && noWipeInLast b2 j &&
  b1.state.all (fun e => !e.2.status.wasDestroyed || (b2.state.get e.1).isNone)

/-- **C18, full statement** (split by a fresh `State` over the committed first half): the extended
bundle describes the same post-state and the same per-block pre-values as the monolithic one. -/
def ExtendStatement (dbReading : Bool) : Prop :=
  ∀ (db db2 : BMap Info) (sc : Bool) (p0 : Plain) (h1 h2 : List Group) (known : Bool),
    dbMatches db p0 → plainWF p0 → reachHistory sc p0 (h1 ++ h2) = true →
    ∃ l1 l2, runHistory { db := db, sc := sc } p0 h1 = some l1 ∧
      ∀ s1 r1, l1.getLast? = some (s1, r1) → dbMatches db2 r1 →
        runHistory { db := db2, sc := sc } r1 h2 = some l2 ∧
        ∀ s2 r2, l2.getLast? = some (s2, r2) →
          let e := extend s1.bundle s2.bundle
          PlainEq (applyChangeset (toPlainState e known) p0) r2 ∧
          ∀ (k : Nat) blk before after, (toPlainStateReverts e)[k]? = some blk →
            ((p0 :: (l1 ++ l2).map (·.2))[k]? = some before) → (((l1 ++ l2).map (·.2))[k]? = some after) →
            PlainEq (applyRevertBlock dbReading p0 blk after) before

end Revm.Spec.Bundle
