import Revm.Spec.EvmRules2Call
/-! The table of ALL legacy opcode bytes: every byte `0x00 … 0xff` belongs to at most one row; a row names the rule of
its instruction family (`Spec/EvmRules.lean`, `Spec/EvmRules2.lean`, `Spec/EvmRules2Call.lean`); a byte without a row
names no instruction (`unknownRule`). Yellow Paper appendix H.2 + the EIPs that added opcodes up to Prague. -/
namespace Revm.Spec.EvmRules2
open Revm Revm.Model Revm.Model.Interp
open Revm.Spec.EvmRules
open Revm.Spec.GasCalc (Fork)

/-- a row: the opcode bytes `lo … hi` and the rule of the byte (given the fork of the cost formulas) -/
structure Row where
  lo : Nat
  hi : Nat
  family : String
  rule : Fork → Nat → IState → Outcome

def Row.covers (r : Row) (op : Nat) : Bool := decide (r.lo ≤ op) && decide (op ≤ r.hi)

/-- a single opcode with a `Done`-valued rule -/
def rowD (op : Nat) (family : String) (r : IState → Done) : Row := ⟨op, op, family, fun _ _ s => .pure (r s)⟩
/-- a single opcode with an `Outcome`-valued rule -/
def rowO (op : Nat) (family : String) (r : IState → Outcome) : Row := ⟨op, op, family, fun _ _ s => r s⟩
/-- a single opcode whose rule depends on the fork -/
def rowF (op : Nat) (family : String) (r : Fork → IState → Outcome) : Row := ⟨op, op, family, fun f _ s => r f s⟩

/-- rows of `Props.C01.step_pure_agrees` -/
def pureRows : List Row :=
  wordTable.map (fun e => rowD e.op "word" e.rule) ++ envTable.map (fun e => rowD e.op "env" e.rule) ++
  [rowD 0x0a "exp" expRule, rowD 0x44 "env" difficultyRule, rowD 0x50 "stack" popRule, rowD 0x5f "stack" push0Rule,
   rowD 0x56 "control" jumpRule, rowD 0x57 "control" jumpiRule, rowD 0x5b "control" jumpdestRule,
   rowO 0x54 "storage-read" sloadRule, rowO 0x5c "storage-read" tloadRule,
   ⟨0x60, 0x7f, "stack", fun _ op s => .pure (pushRule (op - 0x60 + 1) s)⟩,
   ⟨0x80, 0x8f, "stack", fun _ op s => .pure (dupRule (op - 0x80 + 1) s)⟩,
   ⟨0x90, 0x9f, "stack", fun _ op s => .pure (swapRule (op - 0x90 + 1) s)⟩]

/-- rows of this development -/
def newRows : List Row :=
  [rowD 0x51 "memory" mloadRule, rowD 0x52 "memory" mstoreRule, rowD 0x53 "memory" mstore8Rule,
   rowD 0x5e "memory" mcopyRule,
   rowD 0x35 "copy" calldataloadRule, rowD 0x37 "copy" calldatacopyRule, rowD 0x39 "copy" codecopyRule,
   rowD 0x3e "copy" returndatacopyRule,
   rowD 0x00 "halt" stopRule, rowD 0xf3 "halt" retRule, rowD 0xfd "halt" revertRule, rowD 0xfe "halt" invalidRule,
   rowO 0x20 "keccak" keccakRule, ⟨0xa0, 0xa4, "log", fun _ op s => logRule (op - 0xa0) s⟩,
   rowF 0x31 "state" balanceRule, rowO 0x47 "state" selfbalanceRule, rowF 0x3b "state" extcodesizeRule,
   rowF 0x3f "state" extcodehashRule, rowF 0x3c "state" extcodecopyRule, rowO 0x40 "state" blockhashRule,
   rowF 0x55 "state" sstoreRule, rowO 0x5d "state" tstoreRule, rowF 0xff "state" selfdestructRule,
   rowD 0x49 "env" blobhashRule,
   rowF 0xf1 "call" callRule, rowF 0xf2 "call" callcodeRule, rowF 0xf4 "call" delegatecallRule,
   rowF 0xfa "call" staticcallRule,
   rowF 0xf0 "create" (fun f s => .pure (createRule f false s)),
   rowF 0xf5 "create" (fun f s => .pure (createRule f true s)),
   ⟨0xd0, 0xd3, "eof-only", fun _ _ s => .pure (eofOnlyRule s)⟩,
   ⟨0xe0, 0xe8, "eof-only", fun _ _ s => .pure (eofOnlyRule s)⟩,
   rowD 0xec "eof-only" eofOnlyRule, rowD 0xee "eof-only" returnContractRule, rowD 0xf7 "eof-only" eofOnlyRule,
   ⟨0xf8, 0xf9, "eof-only", fun _ _ s => .pure (eofOnlyRule s)⟩, rowD 0xfb "eof-only" eofOnlyRule]

def ruleTable : List Row := pureRows ++ newRows

/-- the row of an opcode byte -/
def lookup (op : Nat) : Option Row := ruleTable.find? (·.covers op)

/-- the rule of an opcode byte: its row's rule, `unknownRule` without a row -/
def ruleOf (f : Fork) (op : Nat) (s : IState) : Outcome :=
  match lookup op with
  | some r => r.rule f op s
  | none => .pure (unknownRule s)

end Revm.Spec.EvmRules2
