import Revm.Util.Word
import Revm.Spec.Arith
/-! What the dynamic gas costs *mean*: the formulas of the Yellow Paper (memory, copy, KECCAK256,
LOG, EXP, intrinsic gas) and of EIP-2 / 150 / 160 / 161 / 1884 / 2028 / 2200 / 2929 / 2930 / 3529 /
3860 / 7623 / 7702, over unbounded `Nat` (refunds over `Int`), written per *named hardfork*.
Nothing here mentions 64-bit arithmetic: "the true value does not fit in 64 bits" is `v ≥ 2^64`
for the `Nat` value `v` computed here. -/
namespace Revm.Spec.GasCalc
open Revm

/-- the hardforks (every `SpecId` of the default build) -/
inductive Fork
  | frontier | frontierThawing | homestead | daoFork | tangerine | spuriousDragon | byzantium
  | constantinople | petersburg | istanbul | muirGlacier | berlin | london | arrowGlacier
  | grayGlacier | merge | shanghai | cancun | prague | osaka | latest
  deriving DecidableEq, Repr

namespace Fork
def all : List Fork :=
  [frontier, frontierThawing, homestead, daoFork, tangerine, spuriousDragon, byzantium, constantinople,
   petersburg, istanbul, muirGlacier, berlin, london, arrowGlacier, grayGlacier, merge, shanghai,
   cancun, prague, osaka, latest]

/-- the discriminant `SpecId as u8` (tied to the Rust enum by the correspondence stream: every
request carries the name and the number printed by the implementation) -/
def id : Fork → Nat
  | frontier => 0 | frontierThawing => 1 | homestead => 2 | daoFork => 3 | tangerine => 4
  | spuriousDragon => 5 | byzantium => 6 | constantinople => 7 | petersburg => 8 | istanbul => 9
  | muirGlacier => 10 | berlin => 11 | london => 12 | arrowGlacier => 13 | grayGlacier => 14
  | merge => 15 | shanghai => 16 | cancun => 17 | prague => 18 | osaka => 19 | latest => 255

/-- the implementation's name of the fork (`Into<&'static str>`, spaces removed) -/
def name : Fork → String
  | frontier => "Frontier" | frontierThawing => "FrontierThawing" | homestead => "Homestead"
  | daoFork => "DAOFork" | tangerine => "Tangerine" | spuriousDragon => "Spurious"
  | byzantium => "Byzantium" | constantinople => "Constantinople" | petersburg => "Petersburg"
  | istanbul => "Istanbul" | muirGlacier => "MuirGlacier" | berlin => "Berlin" | london => "London"
  | arrowGlacier => "ArrowGlacier" | grayGlacier => "GrayGlacier" | merge => "Merge"
  | shanghai => "Shanghai" | cancun => "Cancun" | prague => "Prague" | osaka => "Osaka"
  | latest => "Latest"

def ofName (s : String) : Option Fork := all.find? (fun f => f.name == s)

/-! Activation of each EIP, as an explicit list of the forks that precede it. -/

/-- EIP-2 (Homestead): contract-creating transactions cost 53000 -/
def hasEIP2 : Fork → Bool
  | frontier | frontierThawing => false
  | _ => true
/-- EIP-150 (Tangerine Whistle): IO-heavy operations repriced -/
def hasEIP150 : Fork → Bool
  | frontier | frontierThawing | homestead | daoFork => false
  | _ => true
/-- EIP-160 (EXP byte cost 50) and EIP-161 (state clearing), Spurious Dragon -/
def hasEIP160 : Fork → Bool
  | frontier | frontierThawing | homestead | daoFork | tangerine => false
  | _ => true
/-- EIP-1884 (SLOAD 800), EIP-2028 (calldata 16), EIP-2200 (net gas metering), Istanbul -/
def hasEIP2200 : Fork → Bool
  | frontier | frontierThawing | homestead | daoFork | tangerine | spuriousDragon | byzantium
  | constantinople | petersburg => false
  | _ => true
/-- EIP-2929 (cold / warm access) and EIP-2930 (access lists), Berlin -/
def hasEIP2929 : Fork → Bool
  | frontier | frontierThawing | homestead | daoFork | tangerine | spuriousDragon | byzantium
  | constantinople | petersburg | istanbul | muirGlacier => false
  | _ => true
/-- EIP-3529 (reduction in refunds), London -/
def hasEIP3529 : Fork → Bool
  | frontier | frontierThawing | homestead | daoFork | tangerine | spuriousDragon | byzantium
  | constantinople | petersburg | istanbul | muirGlacier | berlin => false
  | _ => true
/-- EIP-3860 (initcode metering), Shanghai -/
def hasEIP3860 : Fork → Bool
  | shanghai | cancun | prague | osaka | latest => true
  | _ => false
/-- EIP-7623 (calldata floor) and EIP-7702 (set-code transactions), Prague -/
def hasEIP7623 : Fork → Bool
  | prague | osaka | latest => true
  | _ => false
end Fork
open Fork

/-! ### words, memory, copy, hash, log, create (Yellow Paper appendix G/H) -/

/-- number of 32-byte words needed for `n` bytes: ⌈n / 32⌉ -/
def ceil32 (n : Nat) : Nat := (n + 31) / 32

/-- C_mem(a) = G_memory · a + ⌊a² / 512⌋ -/
def memCost (a : Nat) : Nat := 3 * a + a * a / 512

/-- cost of growing the active memory from `oldBytes` to `newBytes` -/
def memExpansion (oldBytes newBytes : Nat) : Nat :=
  memCost (ceil32 newBytes) - memCost (ceil32 oldBytes)

/-- `G_x · ⌈len / 32⌉` -/
def wordCost (len perWord : Nat) : Nat := perWord * ceil32 len
/-- CALLDATACOPY / CODECOPY / RETURNDATACOPY / MCOPY: G_verylow + G_copy · words -/
def copyCost (len : Nat) : Nat := 3 + 3 * ceil32 len
/-- KECCAK256: G_keccak256 + G_keccak256word · words -/
def keccak256Cost (len : Nat) : Nat := 30 + 6 * ceil32 len
/-- LOGn: G_log + G_logdata · len + n · G_logtopic -/
def logCost (n len : Nat) : Nat := 375 + 8 * len + 375 * n
/-- CREATE2 (EIP-1014): G_create + G_keccak256word · words of the init code -/
def create2Cost (len : Nat) : Nat := 32000 + 6 * ceil32 len
/-- EIP-3860: 2 gas per 32-byte word of init code -/
def initcodeCost (len : Nat) : Nat := 2 * ceil32 len
/-- EXP: 10 + (10, from EIP-160: 50) per byte of the exponent -/
def expCost (f : Fork) (power : Nat) : Nat := Spec.Arith.expCost (hasEIP160 f) power

/-- account access: 20 / 40 originally, 700 from EIP-150, cold 2600 / warm 100 from EIP-2929 -/
def accountAccess (f : Fork) (legacy : Nat) (cold : Bool) : Nat :=
  if hasEIP2929 f then (if cold then 2600 else 100)
  else if hasEIP150 f then 700
  else legacy
/-- EXTCODECOPY: account access + G_copy · words -/
def extcodecopyCost (f : Fork) (len : Nat) (cold : Bool) : Nat :=
  accountAccess f 20 cold + 3 * ceil32 len

/-! ### SLOAD / SSTORE -/

/-- SLOAD: 50, EIP-150: 200, EIP-1884: 800, EIP-2929: cold 2100 / warm 100 -/
def sloadCost (f : Fork) (cold : Bool) : Nat :=
  if hasEIP2929 f then (if cold then 2100 else 100)
  else if hasEIP2200 f then 800
  else if hasEIP150 f then 200
  else 50

/-- The value patterns of (original, current, new): `0` is zero, `X`, `Y`, `Z` are pairwise
different non-zero values. Every triple of words has exactly one pattern. -/
inductive Pattern
  | p000 | pXXX | p00X | pXX0 | pXXY | p0X0 | pX0X | pXYX | pX00 | p0XX | pXYY | p0XY | pX0Y | pXY0 | pXYZ
  deriving DecidableEq, Repr

def Pattern.holds : Pattern → Nat → Nat → Nat → Prop
  | .p000, o, c, n => o = 0 ∧ c = 0 ∧ n = 0
  | .pXXX, o, c, n => o ≠ 0 ∧ c = o ∧ n = o
  | .p00X, o, c, n => o = 0 ∧ c = 0 ∧ n ≠ 0
  | .pXX0, o, c, n => o ≠ 0 ∧ c = o ∧ n = 0
  | .pXXY, o, c, n => o ≠ 0 ∧ c = o ∧ n ≠ 0 ∧ n ≠ o
  | .p0X0, o, c, n => o = 0 ∧ c ≠ 0 ∧ n = 0
  | .pX0X, o, c, n => o ≠ 0 ∧ c = 0 ∧ n = o
  | .pXYX, o, c, n => o ≠ 0 ∧ c ≠ 0 ∧ c ≠ o ∧ n = o
  | .pX00, o, c, n => o ≠ 0 ∧ c = 0 ∧ n = 0
  | .p0XX, o, c, n => o = 0 ∧ c ≠ 0 ∧ n = c
  | .pXYY, o, c, n => o ≠ 0 ∧ c ≠ 0 ∧ c ≠ o ∧ n = c
  | .p0XY, o, c, n => o = 0 ∧ c ≠ 0 ∧ n ≠ 0 ∧ n ≠ c
  | .pX0Y, o, c, n => o ≠ 0 ∧ c = 0 ∧ n ≠ 0 ∧ n ≠ o
  | .pXY0, o, c, n => o ≠ 0 ∧ c ≠ 0 ∧ c ≠ o ∧ n = 0
  | .pXYZ, o, c, n => o ≠ 0 ∧ c ≠ 0 ∧ n ≠ 0 ∧ c ≠ o ∧ n ≠ c ∧ n ≠ o

/-- executable classification (proved sound and unique in `Proofs.GasCalc`) -/
def classify (o c n : Nat) : Pattern :=
  if o = 0 then
    if c = 0 then (if n = 0 then .p000 else .p00X)
    else if n = 0 then .p0X0 else if n = c then .p0XX else .p0XY
  else if c = o then
    if n = 0 then .pXX0 else if n = o then .pXXX else .pXXY
  else if c = 0 then
    if n = 0 then .pX00 else if n = o then .pX0X else .pX0Y
  else
    if n = 0 then .pXY0 else if n = o then .pXYX else if n = c then .pXYY else .pXYZ

/-- the parameters of net gas metering for a fork with EIP-2200:
EIP-2200: SLOAD_GAS 800, SSTORE_SET_GAS 20000, SSTORE_RESET_GAS 5000, SSTORE_CLEARS_SCHEDULE 15000;
EIP-2929: SLOAD_GAS → 100 (warm read), SSTORE_RESET_GAS → 5000 − 2100;
EIP-3529: SSTORE_CLEARS_SCHEDULE → SSTORE_RESET_GAS + ACCESS_LIST_STORAGE_KEY_COST = 4800 -/
structure NetParams where
  sload : Nat
  set : Nat
  reset : Nat
  clears : Nat

def netParams (f : Fork) : NetParams :=
  if hasEIP3529 f then ⟨100, 20000, 2900, 4800⟩
  else if hasEIP2929 f then ⟨100, 20000, 2900, 15000⟩
  else ⟨800, 20000, 5000, 15000⟩

/-- EIP-2200 gas table: what is charged (before the EIP-2929 cold surcharge) -/
def netCost (q : NetParams) : Pattern → Nat
  | .p000 | .pXXX | .pX00 | .p0XX | .pXYY => q.sload          -- no-op: new = current
  | .p00X => q.set                                              -- clean slot, 0 → non-zero
  | .pXX0 | .pXXY => q.reset                                    -- clean slot, non-zero → other
  | .p0X0 | .pX0X | .pXYX | .p0XY | .pX0Y | .pXY0 | .pXYZ => q.sload  -- dirty slot

/-- EIP-2200 refund table (change of the refund counter, may be negative) -/
def netRefund (q : NetParams) : Pattern → Int
  | .p000 | .pXXX | .pX00 | .p0XX | .pXYY => 0
  | .p00X => 0
  | .pXX0 => q.clears
  | .pXXY => 0
  | .p0X0 => (q.set : Int) - q.sload                            -- reset to original zero
  | .pX0X => (q.reset : Int) - q.sload - q.clears               -- un-clear and reset to original
  | .pXYX => (q.reset : Int) - q.sload                          -- reset to original non-zero
  | .p0XY => 0
  | .pX0Y => - (q.clears : Int)                                 -- un-clear
  | .pXY0 => q.clears                                           -- clear a dirty slot
  | .pXYZ => 0

/-- original rule (Yellow Paper): 20000 when a zero slot becomes non-zero, otherwise 5000 -/
def legacyCost : Pattern → Nat
  | .p00X | .pX0X | .pX0Y => 20000
  | _ => 5000
/-- original rule: refund 15000 when a non-zero slot becomes zero -/
def legacyRefund : Pattern → Int
  | .pXX0 | .p0X0 | .pXY0 => 15000
  | _ => 0

/-- SSTORE gas; `none` = the EIP-2200 failure "gasleft ≤ 2300" -/
def sstoreCost (f : Fork) (pat : Pattern) (gasLeft : Nat) (cold : Bool) : Option Nat :=
  if hasEIP2200 f then
    if gasLeft ≤ 2300 then none
    else some (netCost (netParams f) pat + (if hasEIP2929 f ∧ cold then 2100 else 0))
  else some (legacyCost pat)

def sstoreRefund (f : Fork) (pat : Pattern) : Int :=
  if hasEIP2200 f then netRefund (netParams f) pat else legacyRefund pat

/-! ### SELFDESTRUCT, CALL -/

/-- SELFDESTRUCT: 0 originally; EIP-150: 5000 + 25000 when the beneficiary does not exist;
EIP-161: the 25000 only when value is moved to a dead account; EIP-2929: + 2600 when cold -/
def selfdestructCost (f : Fork) (hadValue targetExists cold : Bool) : Nat :=
  if !hasEIP150 f then 0 else
  5000
  + (if hasEIP160 f then (if hadValue && !targetExists then 25000 else 0)
     else (if !targetExists then 25000 else 0))
  + (if hasEIP2929 f && cold then 2600 else 0)

/-- CALL-family access cost: 40 / 700 / (2600 | 100), plus for an EIP-7702 delegated target the
access of the delegate; + 9000 with value; + 25000 for a new account (EIP-161: only with value and a
dead target) -/
def callCost (f : Fork) (transfersValue cold : Bool) (delegateCold : Option Bool) (isEmpty : Bool) : Nat :=
  accountAccess f 40 cold
  + (match delegateCold with
     | some c => if hasEIP2929 f then (if c then 2600 else 100) else 0
     | none => 0)
  + (if transfersValue then 9000 else 0)
  + (if isEmpty ∧ (transfersValue ∨ !hasEIP160 f) then 25000 else 0)

/-! ### transaction intrinsic gas and floor -/

def zeroBytes (input : List Nat) : Nat := input.countP (· = 0)
def nonZeroBytes (input : List Nat) : Nat := input.countP (· ≠ 0)

/-- EIP-7623 tokens: zero bytes + 4 · non-zero bytes -/
def tokens7623 (input : List Nat) : Nat := zeroBytes input + 4 * nonZeroBytes input

/-- intrinsic gas: 21000 (+ 32000 for creation from EIP-2) + 4 per zero byte + 68 (EIP-2028: 16) per
non-zero byte + EIP-2930 access list (2400 per address, 1900 per key) + EIP-3860 init code words
+ EIP-7702 25000 per authorization -/
def intrinsicGas (f : Fork) (input : List Nat) (isCreate : Bool) (accessList : List Nat) (auths : Nat) : Nat :=
  21000
  + (if isCreate ∧ hasEIP2 f then 32000 else 0)
  + 4 * zeroBytes input + (if hasEIP2200 f then 16 else 68) * nonZeroBytes input
  + (if hasEIP2929 f then 2400 * accessList.length + 1900 * accessList.sum else 0)
  + (if hasEIP3860 f ∧ isCreate then 2 * ceil32 input.length else 0)
  + (if hasEIP7623 f then 25000 * auths else 0)

/-- EIP-7623 floor: 21000 + 10 per token (0 = no floor before Prague) -/
def floorGas (f : Fork) (input : List Nat) : Nat :=
  if hasEIP7623 f then 21000 + 10 * tokens7623 input else 0

/-- a transaction's gas limit is acceptable iff it covers the intrinsic gas and the floor -/
def gasLimitOk (f : Fork) (input : List Nat) (isCreate : Bool) (accessList : List Nat) (auths gasLimit : Nat) : Prop :=
  intrinsicGas f input isCreate accessList auths ≤ gasLimit ∧ floorGas f input ≤ gasLimit

end Revm.Spec.GasCalc
