import Revm.Model.OpFees
/-! What C33 means, over unbounded naturals: the fee equations of an Optimism transaction.

* gas: `spent` = limit − gas left (the whole limit after a halt), refund = min(counter, spent/5) for a
  successful transaction, EIP-7623 floor from Isthmus on; Bedrock deposits report the limit (0 for system
  transactions) and get no refund;
* L1 cost of the enveloped transaction per fork (Bedrock/Regolith, Ecotone with the empty-scalars case, Fjord
  with the FastLZ estimate), 0 for an empty or `0x7f…` envelope;
* operator fee (Isthmus): `⌊gas·scalar/10^6⌋ + constant`;
* a regular transaction: the sender pays `egp·used + l1 + operator(used) + value moved (+ blob fee) − mint`,
  the coinbase gets `(egp − basefee)·used`, the base fee vault `basefee·used`, the L1 fee vault `l1`, the
  operator fee vault `operator(used)`;
* a deposit (gas price 0): the sender gets the mint and pays only the value moved; a deposit that halts from
  Regolith on is reported as `FailedDeposit` with the state discarded except mint and nonce + 1.

`expected?` is defined exactly on the domain on which the property's equations are claimed; the driver
prints it as the Spec column (three-way differential check). `Props/C33.lean` proves the credits, the
conservation identity and the deposit rules of the model itself. -/
namespace Revm.Spec.OpFees
open Revm Revm.Model.OpFees

def gasSpent (limit : Nat) (fr : Frame) : Nat :=
  match fr.cls with
  | .halt => limit
  | _ => limit - fr.remaining

def gasRefund (limit : Nat) (fr : Frame) : Nat :=
  match fr.cls with
  | .ok => min fr.refunded.toNat (gasSpent limit fr / 5)
  | _ => 0

/-- `(gas used, gas refunded)` of a regular transaction or a deposit from Regolith on -/
def usedRefunded (limit floor : Nat) (fr : Frame) : Nat × Nat :=
  let s := gasSpent limit fr
  let r := gasRefund limit fr
  if s - r < floor then (floor, 0) else (s - r, r)

/-- `(gas used, gas refunded)` of a Bedrock deposit -/
def usedRefundedBedrockDeposit (limit : Nat) (isSystem : Bool) (fr : Frame) : Nat × Nat :=
  match fr.cls with
  | .ok => if isSystem then (0, 0) else (limit, 0)
  | _ => (limit, 0)

def floorGas (tx : Tx) : Nat := if enabled tx.spec PRAGUE then tokens tx.data * 10 + 21000 else 0

def txUsedRefunded (tx : Tx) (fr : Frame) : Nat × Nat :=
  if tx.isDeposit && !enabled tx.spec REGOLITH then
    usedRefundedBedrockDeposit tx.gasLimit (tx.isSystem.getD false) fr
  else usedRefunded tx.gasLimit (floorGas tx) fr

/-- operator fee of `gas` units -/
def opFee (spec scalar const gas : Nat) : Nat :=
  if enabled spec ISTHMUS then gas * scalar / 1000000 + const else 0

/-- calldata gas of the envelope before Fjord: 4 per zero byte, 16 per non-zero byte, + 68·16 before Regolith -/
def calldataGas (input : List Nat) (spec : Nat) : Nat :=
  (input.filter (· = 0)).length * 4 + (input.filter (· ≠ 0)).length * 16 + (if enabled spec REGOLITH then 0 else 1088)

/-- Fjord: `max(100·10^6, 836500·fastlz − 42585600)` (FastLZ length: the model's transcription) -/
def estimatedSize (input : List Nat) : Nat := max (flzCompressLen input * 836500 - 42585600) 100000000

def feeScaled (info : L1Info) : Nat :=
  info.l1BaseFee * 16 * info.l1BaseFeeScalar + info.l1BlobBaseFee.getD 0 * info.l1BlobBaseFeeScalar.getD 0

def l1Bedrock (info : L1Info) (input : List Nat) (spec : Nat) : Nat :=
  (calldataGas input spec + info.l1FeeOverhead.getD 0) * info.l1BaseFee * info.l1BaseFeeScalar / 1000000

/-- L1 cost of an enveloped transaction -/
def l1Cost (info : L1Info) (input : List Nat) (spec : Nat) : Nat :=
  if zeroCostEnvelope input then 0
  else if enabled spec FJORD then estimatedSize input * feeScaled info / 1000000000000
  else if enabled spec ECOTONE then
    if info.emptyEcotoneScalars then l1Bedrock info input spec
    else feeScaled info * calldataGas input spec / 16000000
  else l1Bedrock info input spec

structure Expected where
  kind : Kind
  gasUsed : Nat
  gasRefunded : Nat
  bal : Nat → Nat
  nonce : Nat

def kindOf : Cls → Kind
  | .ok => .success
  | .revert => .revert
  | .halt => .halt

/-- value that the first frame moved from the sender to the target -/
def moved (tx : Tx) (fr : Frame) : Nat := if fr.cls = .ok then tx.value else 0

/-- the fee equations of a regular (non-deposit) transaction -/
def expectedRegular (tx : Tx) (info : L1Info) (env : List Nat) (scalar const : Nat) (pre : St) (fr : Frame) : Expected :=
  let egp := effectiveGasPrice tx
  let ur := txUsedRefunded tx fr
  let used := ur.1
  let l1 := l1Cost info env tx.spec
  let op := opFee tx.spec scalar const used
  let dataFee := if enabled tx.spec CANCUN then tx.dataFee else 0
  let b := pre.bal
  let b := upd b tx.caller (b tx.caller + tx.mint.getD 0 - (egp * used + l1 + op + moved tx fr + dataFee))
  let b := upd b tx.target (b tx.target + moved tx fr)
  let b := upd b tx.coinbase (b tx.coinbase + (egp - tx.basefee) * used)
  let b := upd b L1_FEE_RECIPIENT (b L1_FEE_RECIPIENT + l1)
  let b := upd b BASE_FEE_RECIPIENT (b BASE_FEE_RECIPIENT + tx.basefee * used)
  let b := upd b OPERATOR_FEE_RECIPIENT (b OPERATOR_FEE_RECIPIENT + op)
  { kind := kindOf fr.cls, gasUsed := used, gasRefunded := ur.2, bal := b, nonce := pre.nonce + 1 }

/-- a deposit with gas price 0: the mint is credited, the value moves if the frame succeeds, nothing else;
a deposit that fails validation (gas limit below the intrinsic gas / the floor) or halts from Regolith on
is a `FailedDeposit` that keeps only mint and nonce -/
def expectedDeposit (tx : Tx) (pre : St) (fr : Frame) : Expected :=
  let ur := txUsedRefunded tx fr
  let b := upd pre.bal tx.caller (pre.bal tx.caller + tx.mint.getD 0)
  if (validateInitialGas tx).isSome then
    { kind := .failedDeposit,
      gasUsed := if enabled tx.spec REGOLITH || !(tx.isSystem.getD false) then tx.gasLimit else 0,
      gasRefunded := 0, bal := b, nonce := pre.nonce + 1 }
  else if fr.cls = .halt ∧ enabled tx.spec REGOLITH then
    { kind := .failedDeposit, gasUsed := tx.gasLimit, gasRefunded := 0, bal := b, nonce := pre.nonce + 1 }
  else
    let b := upd b tx.caller (b tx.caller - moved tx fr)
    let b := upd b tx.target (b tx.target + moved tx fr)
    { kind := kindOf fr.cls, gasUsed := ur.1, gasRefunded := ur.2, bal := b, nonce := pre.nonce + 1 }

def distinct (tx : Tx) : Bool :=
  ([tx.caller, tx.coinbase, BASE_FEE_RECIPIENT, L1_FEE_RECIPIENT, OPERATOR_FEE_RECIPIENT, tx.target] : List Nat).Nodup

/-- frame accounting: the frame got `gas_limit − initial_gas`, gives back at most that, refund counter ≥ 0 -/
def frameOk (tx : Tx) (fr : Frame) : Bool :=
  decide (fr.remaining ≤ tx.gasLimit) && decide (0 ≤ fr.refunded) && decide (fr.refunded ≤ Revm.Model.Gas.I64MAX)

/-- domain of the regular-transaction equations: the transaction passes validation (so nothing saturates on
the debit side), the credits fit into 256 bits, the six accounts are different, and a successful frame is one
whose value transfer fitted -/
def inDomainRegular (tx : Tx) (info : L1Info) (env : List Nat) (scalar const : Nat) (pre : St) (fr : Frame) : Bool :=
  let egp := effectiveGasPrice tx
  let used := (txUsedRefunded tx fr).1
  let l1 := l1Cost info env tx.spec
  let maxData := if enabled tx.spec CANCUN then tx.maxDataFee else 0
  let dataFee := if enabled tx.spec CANCUN then tx.dataFee else 0
  !tx.isDeposit && distinct tx && frameOk tx fr
  && decide (tx.gasLimit < U64) && decide (pre.nonce + 1 < U64)
  && (validateEnv tx).isNone && (validateInitialGas tx).isNone
  && (match tx.txNonce with | some n => decide (n = pre.nonce) | none => true)
  && (match tx.priorityFee with | some p => decide (tx.basefee + p < W) | none => true)
  && decide (dataFee ≤ maxData)
  && decide (tx.gasLimit * tx.gasPrice + tx.value + l1 + opFee tx.spec scalar const tx.gasLimit + maxData ≤ pre.bal tx.caller)
  && decide (pre.bal tx.caller + tx.mint.getD 0 < W)
  && decide (pre.bal tx.target + tx.value < W)
  && decide (pre.bal tx.coinbase + (egp - tx.basefee) * used < W)
  && decide (pre.bal L1_FEE_RECIPIENT + l1 < W)
  && decide (pre.bal BASE_FEE_RECIPIENT + tx.basefee * used < W)
  && decide (pre.bal OPERATOR_FEE_RECIPIENT + opFee tx.spec scalar const used < W)
  -- the L1 parameters do not saturate the 256-bit intermediates of the cost function
  && decide ((calldataGas env tx.spec + info.l1FeeOverhead.getD 0) * info.l1BaseFee * info.l1BaseFeeScalar < W)
  && decide (estimatedSize env * feeScaled info < W) && decide (feeScaled info * calldataGas env tx.spec < W)
  && decide (flzCompressLen env * 836500 < U64)

/-- domain of the deposit equations: gas price 0 (as in the protocol),
balances that fit, a create that can pay its value (see the Bedrock counterexample) -/
def inDomainDeposit (tx : Tx) (pre : St) (fr : Frame) : Bool :=
  tx.isDeposit && distinct tx
  && decide (tx.gasLimit < U64) && decide (pre.nonce + 1 < U64)
  && decide (effectiveGasPrice tx = 0) && decide (tx.dataFee = 0)
  && decide (pre.bal tx.caller + tx.mint.getD 0 < W)
  && ((validateInitialGas tx).isSome ||
      (frameOk tx fr
       && decide (pre.bal tx.target + tx.value < W)
       && (if fr.cls = .ok then decide (tx.value ≤ pre.bal tx.caller + tx.mint.getD 0) else true)
       && (if tx.isCreate then decide (tx.value ≤ pre.bal tx.caller + tx.mint.getD 0) else true)))

/-- the Spec column: defined on the claimed domain only -/
def expected? (tx : Tx) (s : Slots) (pre : St) (fr : Frame) : Option Expected :=
  if tx.isDeposit then
    if inDomainDeposit tx pre fr then some (expectedDeposit tx pre fr) else none
  else
    match tx.enveloped with
    | none => none
    | some env =>
      let info := tryFetch s tx.spec
      let scalar := info.operatorFeeScalar.getD 0
      let const := info.operatorFeeConstant.getD 0
      if inDomainRegular tx info env scalar const pre fr then some (expectedRegular tx info env scalar const pre fr)
      else none

end Revm.Spec.OpFees
