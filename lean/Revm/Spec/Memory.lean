/-! What C11 *means*: the memory of an execution is a stack of frames, each frame a byte list of its
own; every operation acts on the top frame only; a new frame is empty; growing a frame appends
zeros; the price of `w` words is the Yellow-Paper formula `3·w + ⌊w²/512⌋`. Unbounded `Nat`, no
shared buffer, no checkpoints. -/
namespace Revm.Spec.Memory

abbrev Frame := List Nat
/-- head = the running (innermost) frame -/
abbrev Frames := List Frame

/-- number of 32-byte words covering `n` bytes: ⌈n/32⌉ -/
def words (n : Nat) : Nat := (n + 31) / 32
/-- C_mem(w) = 3·w + ⌊w²/512⌋ -/
def memGas (w : Nat) : Nat := 3 * w + w * w / 512

/-- a frame set to length `n`: cut, or extended **with zeros** -/
def resizeF (n : Nat) (f : Frame) : Frame := f.take n ++ List.replicate (n - f.length) 0

/-- overwrite `f[off .. off+val.length]` by `val`; defined only inside the frame -/
def writeF (off : Nat) (val : List Nat) (f : Frame) : Option Frame :=
  if off + val.length ≤ f.length then some (f.take off ++ val ++ f.drop (off + val.length)) else none

/-- the `len` bytes that CALLDATACOPY-like operations store: `data[dOff ..]` cut to `len` and
right-padded with zeros to `len` -/
def paddedSlice (data : List Nat) (dOff len : Nat) : List Nat :=
  let s := (data.drop dOff).take len
  s ++ List.replicate (len - s.length) 0

def setDataF (off dOff len : Nat) (data : List Nat) (f : Frame) : Option Frame :=
  writeF off (paddedSlice data dOff len) f

/-- memmove inside the frame (source read before anything is written) -/
def copyF (dst src len : Nat) (f : Frame) : Option Frame :=
  if src + len ≤ f.length then writeF dst ((f.drop src).take len) f else none

/-- the state-changing operations -/
inductive Op where
  | push                                   -- a child frame starts
  | pop                                    -- the running frame ends
  | resize (n : Nat)
  | write (off : Nat) (val : List Nat)
  | writeData (off dOff len : Nat) (data : List Nat)
  | copy (dst src len : Nat)
  deriving Repr, DecidableEq

def onHead (g : Frame → Option Frame) : Frames → Option Frames
  | [] => none
  | f :: rest => (g f).map (· :: rest)

/-- by construction only the head frame is ever touched; `pop` of the outermost frame is a no-op
(that is what `free_context` does without a checkpoint) -/
def step : Op → Frames → Option Frames
  | .push, fs => some ([] :: fs)
  | .pop, [] => none
  | .pop, [f] => some [f]
  | .pop, _ :: g :: rest => some (g :: rest)
  | .resize n, fs => onHead (fun f => some (resizeF n f)) fs
  | .write off val, fs => onHead (writeF off val) fs
  | .writeData off dOff len data, fs => onHead (setDataF off dOff len data) fs
  | .copy dst src len, fs => onHead (copyF dst src len) fs

def run : List Op → Frames → Option Frames
  | [], fs => some fs
  | op :: ops, fs => (step op fs).bind (run ops)

/-- `ops`, started at relative depth `d` (number of frames opened and not yet closed since the
point of reference), never closes a frame that it did not open -/
def StaysAbove : Nat → List Op → Prop
  | _, [] => True
  | d, op :: ops =>
    match op with
    | .push => StaysAbove (d + 1) ops
    | .pop => 0 < d ∧ StaysAbove (d - 1) ops
    | _ => StaysAbove d ops

/-- relative depth after `ops` -/
def depthAfter : Nat → List Op → Nat
  | d, [] => d
  | d, op :: ops =>
    match op with
    | .push => depthAfter (d + 1) ops
    | .pop => depthAfter (d - 1) ops
    | _ => depthAfter d ops

end Revm.Spec.Memory
