import Revm.Model.Interp
import Revm.Spec.Arith
import Revm.Spec.Stack
import Revm.Model.Jump
/-! Yellow-Paper-style rules of the PURE instructions (C01): for each opcode family the number of popped words δ, the
pushed word (α ≤ 1) as a function of the popped words / the machine state, the static gas and the fork of activation,
and the exceptional halts in the order these instructions report them (not activated, out of gas, stack underflow,
stack overflow). The machine state is the interpreter state of the model (`IState`: pc, stack with the top LAST, gas
meter, memory, environment); a rule is a function `IState → Done`.

`Proofs/EvmStep.lean` proves `Interp.step s = .pure (rule s)` for every state whose next opcode belongs to the family;
`wordTable` lists the word operations with their `Spec.Arith` meaning (unbounded `Nat` / `Int` arithmetic mod 2^256),
`envTable` the environment reads. -/
namespace Revm.Spec.EvmRules
open Revm Revm.Model Revm.Model.Interp
open Revm.Model.GasCalc (enabled)

/-- state after the opcode byte is consumed -/
def adv (s : IState) : IState := { s with pc := s.pc + 1 }
def charge (s : IState) (g : Nat) : IState := { s with gas := { s.gas with remaining := s.gas.remaining - g } }

def binopRule (g fork : Nat) (f : Nat → Nat → Nat) (s : IState) : Done :=
  if !enabled s.spec fork then .halt .NotActivated [] (adv s)
  else if s.gas.remaining < g then .halt .OutOfGas [] (adv s)
  else match s.stack.reverse with
    | a :: b :: rest => .next { charge (adv s) g with stack := (f a b :: rest).reverse }
    | _ => .halt .StackUnderflow [] (charge (adv s) g)

def unopRule (g : Nat) (f : Nat → Nat) (s : IState) : Done :=
  if s.gas.remaining < g then .halt .OutOfGas [] (adv s)
  else match s.stack.reverse with
    | a :: rest => .next { charge (adv s) g with stack := (f a :: rest).reverse }
    | _ => .halt .StackUnderflow [] (charge (adv s) g)

def teropRule (g : Nat) (f : Nat → Nat → Nat → Nat) (s : IState) : Done :=
  if s.gas.remaining < g then .halt .OutOfGas [] (adv s)
  else match s.stack.reverse with
    | a :: b :: c :: rest => .next { charge (adv s) g with stack := (f a b c :: rest).reverse }
    | _ => .halt .StackUnderflow [] (charge (adv s) g)

/-- δ = 0, α = 1 -/
def pushValRule (g fork : Nat) (v : IState → Nat) (s : IState) : Done :=
  if !enabled s.spec fork then .halt .NotActivated [] (adv s)
  else if s.gas.remaining < g then .halt .OutOfGas [] (adv s)
  else if s.stack.length = 1024 then .halt .StackOverflow [] (charge (adv s) g)
  else .next { charge (adv s) g with stack := s.stack ++ [v (charge (adv s) g)] }

/-- DIFFICULTY / PREVRANDAO (EIP-4399): from the Merge on the block's `prevrandao`, before it the difficulty; an unset
`prevrandao` is a panic of the code (`unwrap()`), which transaction validation excludes -/
def difficultyRule (s : IState) : Done :=
  if s.gas.remaining < GasCalc.BASE then .halt .OutOfGas [] (adv s)
  else
    let s2 := charge (adv s) GasCalc.BASE
    let value : Option Nat := if enabled s.spec GasCalc.SpecId.MERGE then s.env.prevrandao else some s.env.difficulty
    match value with
    | none => .fault .panic
    | some w =>
      if s.stack.length = 1024 then .halt .StackOverflow [] s2
      else .next { s2 with stack := s.stack ++ [w] }

def popRule (s : IState) : Done :=
  if s.gas.remaining < GasCalc.BASE then .halt .OutOfGas [] (adv s)
  else match s.stack.reverse with
    | _ :: rest => .next { charge (adv s) GasCalc.BASE with stack := rest.reverse }
    | [] => .halt .StackUnderflow [] (charge (adv s) GasCalc.BASE)

def jumpdestRule (s : IState) : Done :=
  if s.gas.remaining < GasCalc.JUMPDEST then .halt .OutOfGas [] (adv s)
  else .next (charge (adv s) GasCalc.JUMPDEST)

/-- DUPn, `1 ≤ n ≤ 16`: the word at depth `n - 1` is pushed; underflow is reported before overflow -/
def dupRule (n : Nat) (s : IState) : Done :=
  if s.gas.remaining < GasCalc.VERYLOW then .halt .OutOfGas [] (adv s)
  else match s.stack.reverse[n - 1]? with
    | none => .halt .StackUnderflow [] (charge (adv s) GasCalc.VERYLOW)
    | some v =>
      if s.stack.length < 1024 then .next { charge (adv s) GasCalc.VERYLOW with stack := s.stack ++ [v] }
      else .halt .StackOverflow [] (charge (adv s) GasCalc.VERYLOW)

/-- SWAPn, `1 ≤ n ≤ 16`: the top and the word at depth `n` change places -/
def swapRule (n : Nat) (s : IState) : Done :=
  if s.gas.remaining < GasCalc.VERYLOW then .halt .OutOfGas [] (adv s)
  else match s.stack.reverse[0]?, s.stack.reverse[n]? with
    | some a, some b =>
      .next { charge (adv s) GasCalc.VERYLOW with stack := ((s.stack.reverse.set 0 b).set n a).reverse }
    | _, _ => .halt .StackUnderflow [] (charge (adv s) GasCalc.VERYLOW)

/-- PUSH0 (EIP-3855) -/
def push0Rule (s : IState) : Done :=
  if !enabled s.spec GasCalc.SpecId.SHANGHAI then .halt .NotActivated [] (adv s)
  else if s.gas.remaining < GasCalc.BASE then .halt .OutOfGas [] (adv s)
  else if s.stack.length = 1024 then .halt .StackOverflow [] (charge (adv s) GasCalc.BASE)
  else .next { charge (adv s) GasCalc.BASE with stack := s.stack ++ [0] }

/-- PUSHn, `1 ≤ n ≤ 32`: the `n` bytes behind the opcode, big-endian; reading past the code buffer is a fault of the
model (the analysed code is padded so that it cannot happen, C25) -/
def pushRule (n : Nat) (s : IState) : Done :=
  if s.gas.remaining < GasCalc.VERYLOW then .halt .OutOfGas [] (adv s)
  else if s.pc + 1 + n ≤ s.code.length then
    if s.stack.length = 1024 then .halt .StackOverflow [] (charge (adv s) GasCalc.VERYLOW)
    else .next { charge (adv s) GasCalc.VERYLOW with
                 stack := s.stack ++ [Spec.Stack.beNat ((s.code.drop (s.pc + 1)).take n)], pc := s.pc + 1 + n }
  else .fault .oobCode

/-! ## EXP -/

/-- EXP: δ = 2, α = 1, gas `10 + (10 | 50 from Spurious Dragon) · byteLen(exponent)`; the stack is checked before the
gas (`pop_top!` precedes `gas_or_fail!`) -/
def expRule (s : IState) : Done :=
  match s.stack.reverse with
  | a :: b :: rest =>
    let c := Spec.Arith.expCost (enabled s.spec GasCalc.SpecId.SPURIOUS_DRAGON) b
    if s.gas.remaining < c then .halt .OutOfGas [] { adv s with stack := (b :: rest).reverse }
    else .next { charge (adv s) c with stack := (Spec.Arith.exp a b :: rest).reverse }
  | _ => .halt .StackUnderflow [] (adv s)

/-! ## control flow -/

/-- the destination check of JUMP / JUMPI on the state left after the pops -/
def jumpTo (s2 : IState) (target : Nat) : Done :=
  match Jump.asUsizeOrFail target with
  | some x => if Jump.isValid s2.jumpTable x then .next { s2 with pc := x } else .halt .InvalidJump [] s2
  | none => .halt .InvalidJump [] s2

/-- JUMP: δ = 1, α = 0, `G_mid`; the destination must be a JUMPDEST of the analysed code (C04) -/
def jumpRule (s : IState) : Done :=
  if s.gas.remaining < GasCalc.MID then .halt .OutOfGas [] (adv s)
  else match s.stack.reverse with
    | t :: rest => jumpTo { charge (adv s) GasCalc.MID with stack := rest.reverse } t
    | [] => .halt .StackUnderflow [] (charge (adv s) GasCalc.MID)

/-- JUMPI: δ = 2, α = 0, `G_high`; falls through when the condition word is zero -/
def jumpiRule (s : IState) : Done :=
  if s.gas.remaining < GasCalc.HIGH then .halt .OutOfGas [] (adv s)
  else match s.stack.reverse with
    | t :: c :: rest =>
      let s2 := { charge (adv s) GasCalc.HIGH with stack := rest.reverse }
      if c ≠ 0 then jumpTo s2 t else .next s2
    | _ => .halt .StackUnderflow [] (charge (adv s) GasCalc.HIGH)

/-! ## storage reads: the instruction asks the host one question and continues from the answer -/

/-- what SLOAD does with the host's answer `r` on the state `s1` left after the key was read: `r.word` replaces the
key on the stack, the gas is `sloadCost` of the fork and of the answer's cold flag (EIP-2929: 2100 cold / 100 warm;
800 from Istanbul, 200 from Tangerine Whistle, 50 before) -/
def sloadAfter (s1 : IState) (rest : List Nat) (r : HostResp) : Done :=
  if !r.ok then .halt .FatalExternalError [] s1
  else if s1.gas.remaining < GasCalc.sloadCost s1.spec r.isCold then .halt .OutOfGas [] s1
  else .next { charge s1 (GasCalc.sloadCost s1.spec r.isCold) with stack := (r.word :: rest).reverse }

/-- SLOAD: δ = 1, α = 1; asks the host for the slot of the executing account -/
def sloadRule (s : IState) : Outcome :=
  match s.stack.reverse with
  | key :: rest => .host (.sload s.target key) (sloadAfter (adv s) rest)
  | [] => .halt .StackUnderflow [] (adv s)

/-- TLOAD (EIP-1153): δ = 1, α = 1, 100 gas, from Cancun -/
def tloadRule (s : IState) : Outcome :=
  if !enabled s.spec GasCalc.SpecId.CANCUN then .halt .NotActivated [] (adv s)
  else if s.gas.remaining < GasCalc.WARM_STORAGE_READ_COST then .halt .OutOfGas [] (adv s)
  else match s.stack.reverse with
    | key :: rest =>
      .host (.tload s.target key) (fun r =>
        .next { charge (adv s) GasCalc.WARM_STORAGE_READ_COST with stack := (r.word :: rest).reverse })
    | [] => .halt .StackUnderflow [] (charge (adv s) GasCalc.WARM_STORAGE_READ_COST)

/-! ## the table of word operations -/

inductive WordShape
  | un (f : Nat → Nat)
  | bin (f : Nat → Nat → Nat)
  | ter (f : Nat → Nat → Nat → Nat)

/-- opcode, static gas, fork of activation, meaning (first popped word first) -/
structure WordEntry where
  op : Nat
  gas : Nat
  fork : Nat
  shape : WordShape

open GasCalc GasCalc.SpecId Spec.Arith in
/-- ADD … SAR without EXP (whose gas is dynamic): Yellow Paper appendix H, EIP-145 -/
def wordTable : List WordEntry :=
  [⟨0x01, VERYLOW, FRONTIER, .bin add⟩, ⟨0x02, LOW, FRONTIER, .bin mul⟩, ⟨0x03, VERYLOW, FRONTIER, .bin sub⟩,
   ⟨0x04, LOW, FRONTIER, .bin div⟩, ⟨0x05, LOW, FRONTIER, .bin sdiv⟩, ⟨0x06, LOW, FRONTIER, .bin mod⟩,
   ⟨0x07, LOW, FRONTIER, .bin smod⟩, ⟨0x08, MID, FRONTIER, .ter addmod⟩, ⟨0x09, MID, FRONTIER, .ter mulmod⟩,
   ⟨0x0b, LOW, FRONTIER, .bin signextend⟩, ⟨0x10, VERYLOW, FRONTIER, .bin lt⟩, ⟨0x11, VERYLOW, FRONTIER, .bin gt⟩,
   ⟨0x12, VERYLOW, FRONTIER, .bin slt⟩, ⟨0x13, VERYLOW, FRONTIER, .bin sgt⟩, ⟨0x14, VERYLOW, FRONTIER, .bin eq⟩,
   ⟨0x15, VERYLOW, FRONTIER, .un iszero⟩, ⟨0x16, VERYLOW, FRONTIER, .bin and⟩, ⟨0x17, VERYLOW, FRONTIER, .bin or⟩,
   ⟨0x18, VERYLOW, FRONTIER, .bin xor⟩, ⟨0x19, VERYLOW, FRONTIER, .un not⟩, ⟨0x1a, VERYLOW, FRONTIER, .bin byte⟩,
   ⟨0x1b, VERYLOW, CONSTANTINOPLE, .bin shl⟩, ⟨0x1c, VERYLOW, CONSTANTINOPLE, .bin shr⟩,
   ⟨0x1d, VERYLOW, CONSTANTINOPLE, .bin sar⟩]

/-- the rule of a word operation (unary and ternary operations exist from Frontier on) -/
def WordEntry.rule (e : WordEntry) : IState → Done :=
  match e.shape with
  | .un f => unopRule e.gas f
  | .bin f => binopRule e.gas e.fork f
  | .ter f => teropRule e.gas f

/-- opcode, fork of activation, the value pushed (all cost `G_base = 2`) -/
structure EnvEntry where
  op : Nat
  fork : Nat
  value : IState → Nat

open GasCalc GasCalc.SpecId in
/-- the environment reads and PC / MSIZE / GAS: δ = 0, α = 1. `value` sees the state after the opcode byte is consumed
and the gas is charged (PC is the position of the opcode itself, GAS the gas after the charge). -/
def envTable : List EnvEntry :=
  [⟨0x30, FRONTIER, fun s => s.target⟩, ⟨0x32, FRONTIER, fun s => s.env.origin⟩,
   ⟨0x33, FRONTIER, fun s => s.caller⟩, ⟨0x34, FRONTIER, fun s => s.callValue⟩,
   ⟨0x36, FRONTIER, fun s => s.input.length⟩, ⟨0x38, FRONTIER, fun s => s.origLen⟩,
   ⟨0x3a, FRONTIER, fun s => s.env.effectiveGasPrice⟩, ⟨0x3d, BYZANTIUM, fun s => s.returnData.length⟩,
   ⟨0x41, FRONTIER, fun s => s.env.coinbase⟩, ⟨0x42, FRONTIER, fun s => s.env.timestamp⟩,
   ⟨0x43, FRONTIER, fun s => s.env.number⟩,
   ⟨0x45, FRONTIER, fun s => s.env.gasLimit⟩, ⟨0x46, ISTANBUL, fun s => s.env.chainId⟩,
   ⟨0x48, LONDON, fun s => s.env.basefee⟩, ⟨0x4a, CANCUN, fun s => s.env.blobGasPrice.getD 0⟩,
   ⟨0x58, FRONTIER, fun s => s.pc - 1⟩, ⟨0x59, FRONTIER, fun s => Memory.len s.mem⟩,
   ⟨0x5a, FRONTIER, fun s => s.gas.remaining⟩]

def EnvEntry.rule (e : EnvEntry) : IState → Done := pushValRule GasCalc.BASE e.fork e.value

/-- what the rules assume of a machine state: the gas meter holds a `u64`, the stack at most 1024 words `< 2^256` -/
structure WF (s : IState) : Prop where
  gas : s.gas.remaining < U64
  depth : s.stack.length ≤ 1024
  words : ∀ w ∈ s.stack, w < W

end Revm.Spec.EvmRules
