import Revm.Model.Gas
/-! What C13 means: a gas meter over UNBOUNDED integers (no wrap, no casts).

A meter has a fixed `limit`, a `remaining` amount and a signed refund counter. Charging more than
what remains fails and changes nothing; a successful charge takes exactly the cost; unused gas of a
sub-frame is given back; `spent` is `limit - remaining`; the final refund is the recorded refund
capped at `spent / 5` (London and later) or `spent / 2`.

`Admissible` is the frame-accounting condition under which the Rust code is claimed to implement this
meter: gas given back never exceeds what was spent, the refund counter stays an `i64`, and the refund
is non-negative when the cap is applied. (Only the operation type `Op` is shared with the model.) -/
namespace Revm.Spec.Gas
open Revm Revm.Model.Gas

structure Meter where
  limit : Nat
  remaining : Nat
  refunded : Int
  deriving DecidableEq, Repr

def spent (m : Meter) : Nat := m.limit - m.remaining
/-- gas actually paid for: spent minus refund, never negative (for a non-negative refund) -/
def spentSubRefunded (m : Meter) : Nat := (((spent m : Nat) : Int) - m.refunded).toNat
/-- all but one 64th of the remaining gas (EIP-150) -/
def remaining63of64 (m : Meter) : Nat := m.remaining - m.remaining / 64

def charge (m : Meter) (cost : Nat) : Meter × Bool :=
  if cost ≤ m.remaining then ({ m with remaining := m.remaining - cost }, true) else (m, false)
def giveBack (m : Meter) (returned : Nat) : Meter := { m with remaining := m.remaining + returned }
def refund (m : Meter) (r : Int) : Meter := { m with refunded := m.refunded + r }
def refundQuotient (isLondon : Bool) : Nat := if isLondon then 5 else 2
def finalRefund (m : Meter) (isLondon : Bool) : Meter :=
  { m with refunded := min m.refunded ((spent m / refundQuotient isLondon : Nat) : Int) }
def setRefund (m : Meter) (r : Int) : Meter := { m with refunded := r }
/-- spent := min s limit -/
def setSpent (m : Meter) (s : Nat) : Meter := { m with remaining := m.limit - min s m.limit }
def spendAll (m : Meter) : Meter := { m with remaining := 0 }

def step (m : Meter) : Op → Meter × Bool
  | .recordCost c => charge m c
  | .eraseCost r => (giveBack m r, true)
  | .recordRefund r => (refund m r, true)
  | .setFinalRefund b => (finalRefund m b, true)
  | .setRefund r => (setRefund m r, true)
  | .setSpent s => (setSpent m s, true)
  | .spendAll => (spendAll m, true)

def run (m : Meter) : List Op → Meter × List Bool
  | [] => (m, [])
  | op :: ops => ((run (step m op).1 ops).1, (step m op).2 :: (run (step m op).1 ops).2)

/-- frame accounting, per operation, in the state in which it is applied -/
def Admissible (m : Meter) : Op → Prop
  | .eraseCost r => m.remaining + r ≤ m.limit           -- returned ≤ spent
  | .recordRefund r => I64MIN ≤ m.refunded + r ∧ m.refunded + r ≤ I64MAX
  | .setFinalRefund _ => 0 ≤ m.refunded
  | _ => True

instance (m : Meter) (op : Op) : Decidable (Admissible m op) := by
  cases op <;> unfold Admissible <;> infer_instance

/-- every operation of the sequence is typed and admissible in the state it is applied to -/
def AdmissibleRun (m : Meter) : List Op → Prop
  | [] => True
  | op :: ops => op.typed ∧ Admissible m op ∧ AdmissibleRun (step m op).1 ops

instance decAdmissibleRun : (m : Meter) → (ops : List Op) → Decidable (AdmissibleRun m ops)
  | _, [] => isTrue trivial
  | m, op :: ops =>
    have := decAdmissibleRun (step m op).1 ops
    inferInstanceAs (Decidable (op.typed ∧ Admissible m op ∧ AdmissibleRun (step m op).1 ops))

/-- the meter a `Gas` value stands for -/
def abs (g : Model.Gas.Gas) : Meter := { limit := g.limit, remaining := g.remaining, refunded := g.refunded }

end Revm.Spec.Gas
