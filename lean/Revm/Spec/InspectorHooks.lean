import Revm.Model.InspectorHooks
/-! What C29 means: the callback word of a transaction is a Dyck word over three kinds of brackets whose
closing bracket repeats the inputs of its opening bracket (`Balanced`), decided by the usual one-stack
scan (`check`, proved equivalent in `Proofs/InspectorHooks.lean`); and the obviously right discipline the
three `Vec`s of the handler are compared with: ONE stack of open notifications (`ASt`). -/
namespace Revm.Spec.InspectorHooks
open Revm.Model.InspectorHooks

/-- callbacks that are not brackets -/
def Ev.neutral : Ev → Bool
  | .opn .. => false
  | .cls .. => false
  | _ => true

/-- well-bracketed words: every `call`/`create`/`eofcreate` is closed by exactly one `*_end` of the same
kind carrying the same inputs, last opened first closed; other callbacks may occur anywhere -/
inductive Balanced : List Ev → Prop
  | nil : Balanced []
  | neutral (e : Ev) (w : List Ev) : Ev.neutral e = true → Balanced w → Balanced (e :: w)
  | bracket (k : Kind) (i o : Nat) (u v : List Ev) :
      Balanced u → Balanced v → Balanced (.opn k i :: (u ++ .cls k i o :: v))

/-- scan with one stack of open brackets; `none`: a `*_end` that does not match the innermost open
notification (wrong kind, wrong inputs, or nothing open) -/
def scan (st : List (Kind × Nat)) : List Ev → Option (List (Kind × Nat))
  | [] => some st
  | .opn k i :: w => scan ((k, i) :: st) w
  | .cls k i _ :: w =>
    match st with
    | [] => none
    | (k', i') :: st' => if k' = k ∧ i' = i then scan st' w else none
  | _ :: w => scan st w

/-- the decidable checker -/
def check (w : List Ev) : Bool := scan [] w == some []

/-- `step`/`step_end` pairing when no `step` stops the interpreter: the two always come as an adjacent pair -/
def stepsPaired : List Ev → Bool
  | [] => true
  | .step :: .stepEnd :: w => stepsPaired w
  | .step :: _ => false
  | .stepEnd :: _ => false
  | _ :: w => stepsPaired w

def logProj : Ev → Option Nat
  | .log l => some l
  | _ => none
def sdProj : Ev → Option (Nat × Nat × Nat)
  | .selfdestruct a t v => some (a, t, v)
  | _ => none
def stepProj : Ev → Option Ev
  | .step => some .step
  | .stepEnd => some .stepEnd
  | _ => none

def isOpn (k : Kind) : Ev → Bool
  | .opn k' _ => k' = k
  | _ => false
def isCls (k : Kind) : Ev → Bool
  | .cls k' _ _ => k' = k
  | _ => false

/-- the `log` callbacks of a word, in order -/
def logsOf (w : List Ev) : List Nat := w.filterMap logProj
/-- the `selfdestruct` callbacks of a word, in order -/
def sdsOf (w : List Ev) : List (Nat × Nat × Nat) := w.filterMap sdProj
/-- the `step` / `step_end` callbacks of a word, in order -/
def stepsOf (w : List Ev) : List Ev := w.filterMap stepProj

/-- the log an executed LOG0..LOG4 appended (`none`: it failed and appended nothing) -/
def insnLog : Insn → Option Nat
  | .logOp prevLen after => if after.length = prevLen + 1 then after.getLast? else none
  | _ => none
/-- what the wrapper reports for an executed SELFDESTRUCT -/
def insnSd : Insn → Option (Nat × Nat × Nat)
  | .sdOp n => n
  | _ => none
/-- dispatched opcodes of a turn: the executed ones, then the one (if any) the inspector's `step` stopped at -/
def turnInsns (t : Turn) : List Insn := t.ins ++ t.halt.toList

/-! ### the reference discipline: one stack of open notifications -/

structure ASt where
  /-- open notifications, innermost first -/
  opened : List (Kind × Nat)
  word : List Ev
deriving DecidableEq, Repr

/-- a result reaches its consumer: the innermost open notification is closed with its own inputs -/
def aDeliver (a : ASt) (o : Nat) (insertErr : Bool) : Status × ASt :=
  match a.opened with
  | [] => (.panicked, a)
  | (k, i) :: rest =>
    let a' : ASt := { opened := rest, word := a.word ++ [Ev.cls k i o] }
    match rest with
    | [] => (.finished, a')
    | _ :: _ => if insertErr then (.aborted, a') else (.running, a')

def aSpawn (a : ASt) (s : Spawn) (insertErr : Bool) : Status × ASt :=
  let a : ASt := { opened := (s.k, s.i) :: a.opened, word := a.word ++ [Ev.opn s.k s.i] }
  match s.insp with
  | some o => aDeliver a o insertErr
  | none =>
    match s.h with
    | .err => (.aborted, a)
    | .result o => aDeliver a o insertErr
    | .frame => (.running, { a with word := a.word ++ [Ev.initInterp] })

def aTurn (a : ASt) (t : Turn) : Status × ASt :=
  let a := { a with word := a.word ++ turnEvents t }
  match t.next with
  | .fatal => (.aborted, a)
  | .spawn s ie => aSpawn a s ie
  | .ret o ie =>
    match o with
    | none => (.aborted, a)
    | some o => aDeliver a o ie

def aRunTurns (a : ASt) : List Turn → Status × ASt
  | [] => (.running, a)
  | t :: ts =>
    match aTurn a t with
    | (.running, a') => aRunTurns a' ts
    | r => r

def aRunTx (first : Spawn) (turns : List Turn) : Status × ASt :=
  match aSpawn { opened := [], word := [] } first false with
  | (.running, a) => aRunTurns a turns
  | r => r

/-- the three stacks that correspond to a list of open notifications over leftovers `b` -/
def stacksOf : List (Kind × Nat) → Stacks → Stacks
  | [], b => b
  | (k, i) :: rest, b => (stacksOf rest b).push k i

end Revm.Spec.InspectorHooks
