import Revm.Spec.JournalAbs
import Revm.Model.TxFeeLegs
/-! C08 — what "ether is conserved" means.

`bal db s a` is the observable balance of an address (the journal's entry if the account is loaded,
the database's otherwise; `absAcct` of `Spec/JournalAbs.lean`), `total L db s` the sum of the
observable balances over a duplicate-free finite list `L` of addresses — an unbounded natural number,
so the sum itself never wraps; everything outside `L` is the constant database.

The *balance machine* below is the specification of what the journal operations may do to balances:
a state is a balance function together with the list of balance-moving journal entries that are
still revertible (newest first). `Proofs/Ether.lean` shows that every operation of the code-shaped
model `Model/Journal.lean` acts on `(bal, JB)` exactly like the corresponding function here, and the
conservation theorems are statements about these functions.

Ether leaves the sum only through an `AccountDestroyed` entry whose target is the destroyed account
itself (`burntEntry`); `burnt s` adds those up over the entries that are still in the journal, so a
reverted frame un-burns what it burnt. -/
namespace Revm.Spec.Ether
open Revm Revm.Model.Journal Revm.Model.TxFeeLegs Revm.Spec.JournalAbs

/-- observable balance of `a` -/
def bal (db : Db) (s : JState) (a : Addr) : Nat := (absAcct db s a).balance

def sumOver : List Addr → (Addr → Nat) → Nat
  | [], _ => 0
  | a :: L, f => f a + sumOver L f

/-- Σ of the observable balances over `L` -/
def total (L : List Addr) (db : Db) (s : JState) : Nat := sumOver L (bal db s)

/-- every observable balance is a 256-bit word -/
def BalOk (db : Db) (s : JState) : Prop := ∀ a, bal db s a < W

def isBal : Entry → Bool
  | .balanceTransfer .. => true
  | .accountDestroyed .. => true
  | _ => false

/-- the balance-moving entries of the whole journal, newest first -/
def JB (s : JState) : List Entry := s.journal.flatten.filter isBal

/-- ether destroyed by the operation that pushed this entry -/
def burntEntry : Entry → Nat
  | .accountDestroyed a t _ had => if a = t then had else 0
  | _ => 0

def burntJ : List Entry → Nat
  | [] => 0
  | e :: es => burntEntry e + burntJ es

/-- ether burnt by the self-destructs that are (still) part of the journal -/
def burnt (s : JState) : Nat := burntJ (JB s)

def entryAddrs : Entry → List Addr
  | .balanceTransfer src dst _ => [src, dst]
  | .accountDestroyed a t _ _ => [a, t]
  | _ => []

def upd (f : Addr → Nat) (a : Addr) (v : Nat) : Addr → Nat := fun x => if x = a then v else f x

/-! ## the balance machine -/

/-- balance effect of undoing one entry (`journal_revert`): wrapping `+=` on the source,
wrapping `-=` on the destination -/
def undoBal (f : Addr → Nat) : Entry → (Addr → Nat)
  | .balanceTransfer src dst v =>
    let f1 := upd f src (U256.wadd (f src) v)
    upd f1 dst (bsub (f1 dst) v)
  | .accountDestroyed a t _ had =>
    let f1 := upd f a (U256.wadd (f a) had)
    if a ≠ t then upd f1 t (bsub (f1 t) had) else f1
  | _ => f

def undoAll (f : Addr → Nat) : List Entry → (Addr → Nat)
  | [] => f
  | e :: es => undoAll (undoBal f e) es

structure BState where
  f : Addr → Nat
  j : List Entry

inductive TransferResult | ok | outOfFunds | overflowPayment deriving DecidableEq, Repr

/-- `transfer`: all or nothing -/
def bTransfer (b : BState) (src dst v : Nat) : BState × TransferResult :=
  if b.f src < v then (b, .outOfFunds) else
  let f1 := upd b.f src (b.f src - v)
  if f1 dst + v ≥ W then (b, .overflowPayment) else
  ({ f := upd f1 dst (f1 dst + v), j := .balanceTransfer src dst v :: b.j }, .ok)

/-- `selfdestruct` of `a` naming `t`, `created` = the account was created in this transaction,
`cancun` = EIP-6780 is active, `prev` = the flag recorded in the entry -/
def bSelfdestruct (b : BState) (a t : Addr) (created cancun prev : Bool) : BState :=
  let f1 := if a ≠ t then upd b.f t (U256.wadd (b.f t) (b.f a)) else b.f
  let balance := f1 a
  if created ∨ !cancun then
    { f := upd f1 a 0, j := .accountDestroyed a t prev balance :: b.j }
  else if a ≠ t then
    { f := upd f1 a 0, j := .balanceTransfer a t balance :: b.j }
  else { f := f1, j := b.j }

/-- `create_account_checkpoint`, success path: the endowment is added to the new account (checked)
and subtracted from the caller with a *wrapping* subtraction -/
def bCreateOk (b : BState) (caller a : Addr) (v : Nat) : BState :=
  let f1 := upd b.f a (b.f a + v)
  { f := upd f1 caller (bsub (f1 caller) v), j := .balanceTransfer caller a v :: b.j }

/-- `checkpoint_revert`: the newest `n` balance entries are undone, newest first -/
def bRevert (b : BState) (n : Nat) : BState :=
  { f := undoAll b.f (b.j.take n), j := b.j.drop n }

/-! ## when undoing an entry moves no ether in or out (beyond giving back what it burnt) -/

/-- the wrapping arithmetic of `undoBal` does not wrap on `f` -/
def NoWrap (f : Addr → Nat) : Entry → Prop
  | .balanceTransfer src dst v => src = dst ∨ (f src + v < W ∧ v ≤ f dst)
  | .accountDestroyed a t _ had => f a + had < W ∧ (a ≠ t → had ≤ f t)
  | _ => True

/-- every entry of the list can be undone in turn without wrapping -/
def Good (f : Addr → Nat) : List Entry → Prop
  | [] => True
  | e :: es => NoWrap f e ∧ Good (undoBal f e) es

def EntriesIn (L : List Addr) (es : List Entry) : Prop := ∀ e ∈ es, ∀ a ∈ entryAddrs e, a ∈ L

/-! ## histories -/

/-- the addresses whose balances an operation may move -/
def opAddrs : Op → List Addr
  | .transfer src dst _ => [src, dst]
  | .selfdestruct a t => [a, t]
  | .create caller a _ _ _ => [caller, a]
  | _ => []

/-- `create_account_checkpoint` is only called with an endowment the caller can pay: the check
`caller_balance < value ⇒ OutOfFunds` of `make_create_frame` (see `Model/TxFeeLegs.lean`,
`makeCreateFrame`). Every other operation is unrestricted. -/
def Funded (db : Db) (r : Run) : Op → Prop
  | .create caller _ _ v _ => v ≤ bal db r.js caller
  | _ => True

/-- all operations of a history are funded, evaluated along the run -/
def FundedRun (db : Db) (r : Run) : List Op → Prop
  | [] => True
  | op :: ops => Funded db r op ∧ ∀ r', step db r op = some r' → FundedRun db r' ops

/-- local form of the hypotheses of the history theorem, decidable on the current state: a creation
is funded, and the beneficiary's credit of a self-destruct fits in 256 bits (implied by Σ < 2^256) -/
def StepOk (db : Db) (r : Run) : Op → Prop
  | .create caller _ _ v _ => v ≤ bal db r.js caller
  | .selfdestruct a t => a ≠ t → bal db r.js t + bal db r.js a < W
  | _ => True

def StepOkRun (db : Db) (r : Run) : List Op → Prop
  | [] => True
  | op :: ops => StepOk db r op ∧ ∀ r', step db r op = some r' → StepOkRun db r' ops

/-! ## fee legs of a transaction (EIP-1559, EIP-4844) over unbounded integers -/

/-- the blob fee that is charged (and burnt): zero before Cancun -/
def dataFee (spec : Nat) (e : FeeEnv) : Nat := if spec ≥ CANCUN then (calcDataFee e).getD 0 else 0

/-- ether that the fee legs burn per unit of gas: the part of the effective price the beneficiary
does not get (the base fee from London on, nothing before) -/
def burntPerGas (spec : Nat) (e : FeeEnv) : Nat := effectiveGasPrice e - coinbaseGasPrice spec e

/-- what validation establishes (`validate_tx_against_state`, `validate_tx`): the caller's balance
covers `gas_limit * gas_price + value + max blob fee` without 256-bit overflow, the effective price
is at most the fee cap, the blob gas price at most the blob fee cap; hence the caller covers
`gas_limit * effective_gas_price + blob fee`. `Validated` keeps only that consequence. -/
def Validated (db : Db) (s : JState) (spec : Nat) (e : FeeEnv) : Prop :=
  e.gasLimit * effectiveGasPrice e + dataFee spec e ≤ bal db s e.caller ∧
  (spec ≥ CANCUN → e.blobGasPrice.isSome)

/-- the gas figures of a finished first frame as the handler sees them: `spent + remaining` is the
gas limit and the (final, capped) refund does not exceed what was spent (C09 / C13) -/
def GasOk (e : FeeEnv) (remaining spent refunded : Nat) : Prop :=
  spent + remaining = e.gasLimit ∧ refunded ≤ spent ∧ e.gasLimit < U64

/-- the amounts of the three legs over unbounded integers -/
def specDebit (spec : Nat) (e : FeeEnv) : Nat := e.gasLimit * effectiveGasPrice e + dataFee spec e
def specReimbursement (e : FeeEnv) (remaining refunded : Nat) : Nat := effectiveGasPrice e * (remaining + refunded)
def specReward (spec : Nat) (e : FeeEnv) (spent refunded : Nat) : Nat := coinbaseGasPrice spec e * (spent - refunded)

/-- what a transaction takes out of the sum of all balances -/
def specTxBurn (spec : Nat) (e : FeeEnv) (rewards : Bool) (spent refunded burntExec : Nat) : Nat :=
  burntPerGas spec e * (spent - refunded) + dataFee spec e + burntExec
    + (if rewards then 0 else specReward spec e spent refunded)

end Revm.Spec.Ether
