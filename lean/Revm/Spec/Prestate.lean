import Revm.Spec.StateDb
/-! Reference for C19: the database obtained by applying a bundle's plain-state changeset
(`BundleState::to_plain_state` + the obvious application to a plain database: set / remove the
account, wipe the storage of destroyed accounts, write the listed slots, insert the contracts). -/
namespace Revm.Spec.Prestate
open Revm Revm.Model.StateDb Revm.Spec.StateDb

/-- `AccountInfo: PartialEq` ignores the `code` field -/
def infoEq (i j : Info) : Bool := i.balance == j.balance && i.nonce == j.nonce && i.codeHash == j.codeHash
def infoOptEq : Option Info → Option Info → Bool
  | none, none => true
  | some i, some j => infoEq i j
  | _, _ => false

/-- `copy_without_code` -/
def withoutCode (i : Info) : Info := { i with code := none }

/-- `D` with the changeset of the bundle `(B, BC)` applied; `known` = `OriginalValuesKnown::Yes`
(only changed infos / slots are written) -/
def merged (D : Db) (B : Addr → Option BundleAccount) (BC : Nat → Option Code) (known : Bool) : Db :=
  { basic := fun a => match B a with
      | none => D.basic a
      | some b =>
        if !known || !infoOptEq b.info b.originalInfo then b.info.map withoutCode else D.basic a,
    storage := fun a k => match B a with
      | none => D.storage a k
      | some b =>
        let destroyed := b.status.wasDestroyed
        let base := if destroyed then 0 else D.storage a k
        match b.storage k with
        | none => base
        | some op =>
          if !known || (destroyed && op.2 != 0) || (!destroyed && op.1 != op.2) then op.2 else base,
    code := fun h => match BC h with
      | some c => if h = KECCAK_EMPTY then D.code h else c
      | none => D.code h }

/-- well-formedness of one bundle account against the database it was built over (what the bundle
construction guarantees outside the C15 excluded region; see C16 for the construction itself) -/
def BundleAcctWf (D E : Db) (known : Bool) (a : Addr) (b : BundleAccount) : Prop :=
  -- originals are the database's values
  (known = true → infoOptEq b.info b.originalInfo = true → infoOptEq b.info (D.basic a) = true) ∧
  match b.info with
  | none => b.status = .Destroyed ∨ b.status = .DestroyedAgain ∨ b.status = .LoadedNotExisting
  | some i =>
    WfInfo i ∧
    (b.status = .InMemoryChange ∨ b.status = .Changed ∨ b.status = .DestroyedChanged) ∧
    (b.status = .Changed → i.isEmpty = false) ∧
    -- the code bytes the bundle info carries are what the merged code table resolves to
    (∀ j, E.basic a = some j → resolveCode E.code i = resolveCode E.code j) ∧
    -- storage of accounts that were not destroyed: listed slots that are unchanged carry the
    -- database's value
    (b.status.wasDestroyed = false → ∀ k,
      match b.storage k with
      | some op => known = true → op.1 = op.2 → D.storage a k = op.2
      | none => True)

/-- EXCLUDED REGION (DESIGN §9 #11 seen from C19): an `InMemoryChange` bundle account is read as
"storage known" (unlisted slots are zero), which is only true if the database has no other storage
for it; the bundle of a history that changed a code-less account with storage violates this -/
def InMemoryStorageZero (D : Db) (B : Addr → Option BundleAccount) : Prop :=
  ∀ a b, B a = some b → b.status = .InMemoryChange → ∀ k, b.storage k = none → D.storage a k = 0

def BundleWf (D : Db) (B : Addr → Option BundleAccount) (BC : Nat → Option Code) (known : Bool) : Prop :=
  (∀ a b, B a = some b → BundleAcctWf D (merged D B BC known) known a b) ∧
  -- the bundle does not redefine code the database already knows under the empty hash
  (∀ h c, BC h = some c → h = KECCAK_EMPTY → D.code h = c)

end Revm.Spec.Prestate
