import Revm.Model.Db
/-! What C20 means: a wrapper answers like "the underlying data overlaid with the changes
committed through it". The data is a `Data` (four total functions); each update of a wrapper
corresponds to a direct overwrite of the data; queries do not change the data at all (that is
"caching never changes an answer"). Nothing here mentions caches, account states or occupied /
vacant entries. `normInfo` / `codeKey` (the hash a piece of code is filed under) are shared with the
model: they define *what* is committed, not how it is stored. -/
namespace Revm.Spec.Db
open Revm.Model.Db

/-- the four data queries (has_storage is treated separately, see `Props/C20.lean`) -/
inductive DQuery
  | basic (a : Addr)
  | storage (a : Addr) (k : Slot)
  | code (h : Hash)
  | blockHash (n : Nat)

def DQuery.toQuery : DQuery → Query
  | .basic a => .basic a
  | .storage a k => .storage a k
  | .code h => .code h
  | .blockHash n => .blockHash n

def answer (v : Data) : DQuery → Reply
  | .basic a => .info (v.basic a)
  | .storage a k => .word (v.storage a k)
  | .code h => .code (v.code h)
  | .blockHash n => .word (v.blockHash n)

/-- committing an info that carries non-empty code makes that code the answer for its hash -/
def addCode (v : Data) (i : Info) : Data :=
  match i.code with
  | some code => if !code.isEmpty then { v with code := fun h => if h = codeKey i code then code else v.code h } else v
  | none => v

/-- `insert_account_info`: the account now has this info; its storage is untouched -/
def setInfo (v : Data) (a : Addr) (i : Info) : Data :=
  { addCode v i with basic := fun x => if x = a then some (normInfo i) else v.basic x }

/-- `insert_account_storage`: one slot overwritten -/
def setSlot (v : Data) (a : Addr) (k : Slot) (x : Nat) : Data :=
  { v with storage := fun a' k' => if a' = a ∧ k' = k then x else v.storage a' k' }

/-- `replace_account_storage`: the storage of the account is exactly the given map -/
def replaceStorage (v : Data) (a : Addr) (m : List (Slot × Nat)) : Data :=
  { v with storage := fun a' k' =>
      if a' = a then (match lookupSlot m k' with | some x => x | none => 0) else v.storage a' k' }

/-- one account of a committed EVM state: untouched ⇒ nothing; self-destructed ⇒ the account and
its storage are gone; created ⇒ new info, storage = exactly the written slots; otherwise new info
and the written slots over the old storage -/
def commitOne (v : Data) (ch : Change) : Data :=
  if !ch.touched then v else
  if ch.selfdestructed then
    { v with basic := fun x => if x = ch.addr then none else v.basic x,
             storage := fun a' k' => if a' = ch.addr then 0 else v.storage a' k' }
  else
    { addCode v ch.info with
      basic := fun x => if x = ch.addr then some (normInfo ch.info) else v.basic x,
      storage := fun a' k' =>
        if a' = ch.addr then
          (match lookupSlot ch.storage k' with
           | some x => x
           | none => if ch.created then 0 else v.storage a' k')
        else v.storage a' k' }

def commit (v : Data) (chs : List Change) : Data := chs.foldl commitOne v

/-- operations of a history -/
inductive Op
  | query (q : DQuery)        -- through `Database` (`&mut self`, may cache)
  | refQuery (q : DQuery)     -- through `DatabaseRef` (`&self`)
  | load (a : Addr)           -- `load_account` (only caches)
  | insertInfo (a : Addr) (i : Info)
  | insertSlot (a : Addr) (k : Slot) (x : Nat)
  | replaceStorage (a : Addr) (m : List (Slot × Nat))
  | commit (chs : List Change)

/-- the reference semantics: queries read, updates overwrite -/
def step (v : Data) : Op → Data × Option Reply
  | .query q => (v, some (answer v q))
  | .refQuery q => (v, some (answer v q))
  | .load _ => (v, none)
  | .insertInfo a i => (setInfo v a i, none)
  | .insertSlot a k x => (setSlot v a k x, none)
  | .replaceStorage a m => (replaceStorage v a m, none)
  | .commit chs => (commit v chs, none)

def run (v : Data) : List Op → List (Option Reply)
  | [] => []
  | op :: r => (step v op).2 :: run (step v op).1 r

/-- the same history on a real `CacheDB` over the data `b` -/
def cstep (b : Data) (c : CacheDB) : Op → CacheDB × Option Reply
  | .query q => let r := c.query b q.toQuery; (r.1, some r.2)
  | .refQuery q => (c, some (answer (c.view b) q))
  | .load a => ((c.loadAccount b a).1, none)
  | .insertInfo a i => (c.insertAccountInfo a i, none)
  | .insertSlot a k x => (c.insertAccountStorage b a k x, none)
  | .replaceStorage a m => (c.replaceAccountStorage b a m, none)
  | .commit chs => (c.commit chs, none)

def crun (b : Data) (c : CacheDB) : List Op → List (Option Reply)
  | [] => []
  | op :: r => (cstep b c op).2 :: crun b (cstep b c op).1 r

/-- Underlying data is a *state*: an account that does not exist has no storage, and the two
hashes of "no code" map to the empty code (`CacheDB::new` pre-fills exactly these). -/
structure Consistent (b : Data) : Prop where
  absent_zero : ∀ a, b.basic a = none → ∀ k, b.storage a k = 0
  code_empty : b.code KECCAK_EMPTY = Code.empty
  code_zero : b.code 0 = Code.empty

/-! ### The situations in which the real `CacheDB` departs from the overlay semantics
(each one has a `_counterexample` theorem in `Props/C20.lean`). `Good…` is their exact complement,
stated on the cache's internal state because that is where the code branches. -/

/-- the hash this info's code is filed under is still free, or already holds the same code -/
def CodeOk (c : CacheDB) (i : Info) : Prop :=
  ∀ code, i.code = some code → code.isEmpty = false →
    c.contracts (codeKey i code) = none ∨ c.contracts (codeKey i code) = some code

/-- the address is not cached as `NotExisting` -/
def NotCachedAbsent (c : CacheDB) (a : Addr) : Prop :=
  ∀ acc, c.accounts a = some acc → acc.state ≠ .notExisting

def GoodChange (b : Data) (c : CacheDB) (ch : Change) : Prop :=
  ch.touched = true → ch.selfdestructed = false →
    CodeOk c ch.info ∧
    (ch.created = false → ∀ acc, c.accounts ch.addr = some acc → acc.state = .notExisting →
      ∀ k, acc.storage k = none → b.storage ch.addr k = 0)

def GoodCommit (b : Data) : CacheDB → List Change → Prop
  | _, [] => True
  | c, ch :: r => GoodChange b c ch ∧ GoodCommit b (c.commitOne ch) r

def GoodOp (b : Data) (c : CacheDB) : Op → Prop
  | .insertInfo a i => CodeOk c i ∧ NotCachedAbsent c a
  | .replaceStorage a _ => (c.view b).basic a ≠ none
  | .commit chs => GoodCommit b c chs
  | _ => True

def GoodRun (b : Data) : CacheDB → List Op → Prop
  | _, [] => True
  | c, op :: r => GoodOp b c op ∧ GoodRun b (cstep b c op).1 r

end Revm.Spec.Db
