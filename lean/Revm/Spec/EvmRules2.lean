import Revm.Spec.EvmRules
import Revm.Spec.GasCalc
import Revm.Spec.Memory
/-! Yellow-Paper-style rules of the instructions that touch MEMORY, end the frame, talk to the HOST or start a
child frame (C01, continuation of `Spec/EvmRules.lean`).

The rules are written over an ABSTRACT view of the machine state:
* `memOf s` is μ_m, the memory of the running frame, a byte list (the bytes of the shared buffer behind the frame's
  checkpoint); `setMem s μ` replaces it and leaves the memory of the parent frames alone;
* making a range addressable (`touch`) appends ZEROS up to the next multiple of 32 bytes covering it, and costs
  `C_mem(μ_i') − C_mem(μ_i)` with `μ_i' = max(μ_i, ⌈(off + len) / 32⌉)` (`touchCost`, over unbounded `Nat`);
* the stack is matched with the top FIRST (`s.stack.reverse`);
* gas formulas are those of `Spec/GasCalc.lean` (unbounded `Nat`, per named hardfork), never the 64-bit code paths.
`Proofs/EvmStep2*.lean` prove `Interp.step s = rule s` for every well-formed state whose next opcode belongs to
the family. -/
namespace Revm.Spec.EvmRules2
open Revm Revm.Model Revm.Model.Interp
open Revm.Spec.EvmRules
open Revm.Model.GasCalc (enabled)
open Revm.Spec.GasCalc (Fork ceil32 memCost)

/-! ## abstract memory -/

/-- μ_m: the memory of the running frame -/
def memOf (s : IState) : List Nat := s.mem.buffer.drop s.mem.lastCheckpoint

/-- the state with the memory of the running frame replaced by `μ` (parent frames untouched) -/
def setMem (s : IState) (μ : List Nat) : IState :=
  { s with mem := { s.mem with buffer := s.mem.buffer.take s.mem.lastCheckpoint ++ μ } }

/-- memory after `[off, off + len)` has been made addressable: zero-extended to the word boundary covering it -/
def touch (μ : List Nat) (off len : Nat) : List Nat :=
  if off + len ≤ μ.length then μ else μ ++ List.replicate (32 * ceil32 (off + len) - μ.length) 0

/-- `C_mem(μ_i') − C_mem(μ_i)`, `μ_i' = max(μ_i, ⌈(off + len) / 32⌉)` (Yellow Paper (326), appendix H) -/
def touchCost (μ : List Nat) (off len : Nat) : Nat :=
  memCost (max (ceil32 μ.length) (ceil32 (off + len))) - memCost (ceil32 μ.length)

/-- `μ[off .. off + len)` -/
def load (μ : List Nat) (off len : Nat) : List Nat := (μ.drop off).take len

/-- `μ[off .. off + val.length) := val` -/
def store (μ : List Nat) (off : Nat) (val : List Nat) : List Nat :=
  μ.take off ++ val ++ μ.drop (off + val.length)

/-- the 32 big-endian bytes of a word -/
def wordBytes (v : Nat) : List Nat := (List.range 32).map fun i => v / 256 ^ (31 - i) % 256

/-- big-endian value of a byte string -/
abbrev beNat := Spec.Stack.beNat

/-! ## combinators -/

/-- pay `c` or stop with `OutOfGas` -/
def needGas (s : IState) (c : Nat) (k : IState → Done) : Done :=
  if s.gas.remaining < c then .halt .OutOfGas [] s else k (charge s c)

/-- make `[off, off + len)` addressable: pay the expansion or stop with `MemoryOOG` -/
def memAccess (s : IState) (off len : Nat) (k : IState → Done) : Done :=
  if s.gas.remaining < touchCost (memOf s) off len then .halt .MemoryOOG [] s
  else k (setMem (charge s (touchCost (memOf s) off len)) (touch (memOf s) off len))

/-! ## (a) MLOAD, MSTORE, MSTORE8, MSIZE, MCOPY -/

/-- MLOAD: δ = 1, α = 1, `G_verylow` + expansion to `off + 32`; an offset that does not fit 64 bits is the
exceptional halt `InvalidOperandOOG` (no gas could pay for it) -/
def mloadRule (s : IState) : Done :=
  needGas (adv s) GasCalc.VERYLOW fun s1 =>
    match s.stack.reverse with
    | off :: rest =>
      if U64 ≤ off then .halt .InvalidOperandOOG [] s1
      else memAccess s1 off 32 fun s2 =>
        .next { s2 with stack := (beNat (load (memOf s2) off 32) :: rest).reverse }
    | [] => .halt .StackUnderflow [] s1

/-- MSTORE: δ = 2, α = 0 -/
def mstoreRule (s : IState) : Done :=
  needGas (adv s) GasCalc.VERYLOW fun s1 =>
    match s.stack.reverse with
    | off :: v :: rest =>
      let s2 := { s1 with stack := rest.reverse }
      if U64 ≤ off then .halt .InvalidOperandOOG [] s2
      else memAccess s2 off 32 fun s3 => .next (setMem s3 (store (memOf s3) off (wordBytes v)))
    | _ => .halt .StackUnderflow [] s1

/-- MSTORE8: the least significant byte of the word -/
def mstore8Rule (s : IState) : Done :=
  needGas (adv s) GasCalc.VERYLOW fun s1 =>
    match s.stack.reverse with
    | off :: v :: rest =>
      let s2 := { s1 with stack := rest.reverse }
      if U64 ≤ off then .halt .InvalidOperandOOG [] s2
      else memAccess s2 off 1 fun s3 => .next (setMem s3 (store (memOf s3) off [v % 256]))
    | _ => .halt .StackUnderflow [] s1

/-- MSIZE: the number of active bytes, `32 · μ_i` -/
def msizeRule : IState → Done := pushValRule GasCalc.BASE GasCalc.SpecId.FRONTIER fun s => (memOf s).length

/-- MCOPY (EIP-5656, Cancun): δ = 3, α = 0, `G_verylow + G_copy · ⌈len / 32⌉` + expansion to `max(dst, src) + len`;
nothing is touched for `len = 0`; the source is read before the destination is written (memmove) -/
def mcopyRule (s : IState) : Done :=
  if !enabled s.spec GasCalc.SpecId.CANCUN then .halt .NotActivated [] (adv s)
  else match s.stack.reverse with
    | dst :: src :: len :: rest =>
      let s1 := { adv s with stack := rest.reverse }
      if U64 ≤ len then .halt .InvalidOperandOOG [] s1
      else needGas s1 (Spec.GasCalc.copyCost len) fun s2 =>
        if len = 0 then .next s2
        else if U64 ≤ dst ∨ U64 ≤ src then .halt .InvalidOperandOOG [] s2
        else memAccess s2 (max dst src) len fun s3 =>
          .next (setMem s3 (store (memOf s3) dst (load (memOf s3) src len)))
    | _ => .halt .StackUnderflow [] (adv s)

/-! ## (b) CALLDATALOAD, CALLDATACOPY, CODECOPY, RETURNDATACOPY

(CALLDATASIZE, CODESIZE, RETURNDATASIZE are rows of `EvmRules.envTable`.) A read behind the end of the source yields
zeros (`Spec.Memory.paddedSlice`), except for RETURNDATACOPY, which halts (EIP-211). -/

/-- CALLDATALOAD: δ = 1, α = 1, `G_verylow`; the 32 bytes of the input at `off`, zero-padded, big-endian -/
def calldataloadRule (s : IState) : Done :=
  unopRule GasCalc.VERYLOW (fun off => beNat (Spec.Memory.paddedSlice s.input off 32)) s

/-- CALLDATACOPY / CODECOPY: δ = 3, α = 0, `G_verylow + G_copy · ⌈len / 32⌉` + expansion to `memOff + len`;
`len = 0` touches nothing (not even for an absurd offset) -/
def copyRule (data : List Nat) (s : IState) : Done :=
  match s.stack.reverse with
  | memOff :: dataOff :: len :: rest =>
    let s1 := { adv s with stack := rest.reverse }
    if U64 ≤ len then .halt .InvalidOperandOOG [] s1
    else needGas s1 (Spec.GasCalc.copyCost len) fun s2 =>
      if len = 0 then .next s2
      else if U64 ≤ memOff then .halt .InvalidOperandOOG [] s2
      else memAccess s2 memOff len fun s3 =>
        .next (setMem s3 (store (memOf s3) memOff (Spec.Memory.paddedSlice data dataOff len)))
  | _ => .halt .StackUnderflow [] (adv s)

def calldatacopyRule (s : IState) : Done := copyRule s.input s
/-- CODECOPY (legacy code) copies the contract's own bytes (without the analysis padding of the running buffer) -/
def codecopyRule (s : IState) : Done := copyRule (s.code.take s.origLen) s

/-- RETURNDATACOPY (EIP-211, Byzantium): as above from the return-data buffer, but reading behind its end is the
exceptional halt `OutOfOffset` (checked after the copy cost is paid, also for `len = 0`; not in EOF code, which pads) -/
def returndatacopyRule (s : IState) : Done :=
  if !enabled s.spec GasCalc.SpecId.BYZANTIUM then .halt .NotActivated [] (adv s)
  else match s.stack.reverse with
    | memOff :: off :: len :: rest =>
      let s1 := { adv s with stack := rest.reverse }
      if U64 ≤ len then .halt .InvalidOperandOOG [] s1
      else needGas s1 (Spec.GasCalc.copyCost len) fun s2 =>
        if s.returnData.length < off + len ∧ !s.isEof then .halt .OutOfOffset [] s2
        else if len = 0 then .next s2
        else if U64 ≤ memOff then .halt .InvalidOperandOOG [] s2
        else memAccess s2 memOff len fun s3 =>
          .next (setMem s3 (store (memOf s3) memOff (Spec.Memory.paddedSlice s.returnData off len)))
    | _ => .halt .StackUnderflow [] (adv s)

/-! ## (c) STOP, RETURN, REVERT, INVALID: the frame ends

`Done.halt r out s`: the frame's result is `r`, its output `out` (H_return), `s` the final machine state (its gas
meter is what the caller gets back for `Return` / `Stop` / `Revert`; every other result forfeits it). -/

/-- STOP: no gas, empty output -/
def stopRule (s : IState) : Done := .halt .Stop [] (adv s)

/-- INVALID (0xfe) -/
def invalidRule (s : IState) : Done := .halt .InvalidFEOpcode [] (adv s)

/-- an opcode byte that names no instruction -/
def unknownRule (s : IState) : Done := .halt .OpcodeNotFound [] (adv s)

/-- RETURN / REVERT: δ = 2, zero static gas, expansion to `off + len`; the output is `μ[off .. off + len)`;
`len = 0` touches nothing -/
def returnRule (r : IResult) (s : IState) : Done :=
  match s.stack.reverse with
  | off :: len :: rest =>
    let s1 := { adv s with stack := rest.reverse }
    if U64 ≤ len then .halt .InvalidOperandOOG [] s1
    else if len = 0 then .halt r [] s1
    else if U64 ≤ off then .halt .InvalidOperandOOG [] s1
    else memAccess s1 off len fun s2 => .halt r (load (memOf s2) off len) s2
  | _ => .halt .StackUnderflow [] (adv s)

def retRule (s : IState) : Done := returnRule .Return s

/-- REVERT (EIP-140): from Byzantium -/
def revertRule (s : IState) : Done :=
  if !enabled s.spec GasCalc.SpecId.BYZANTIUM then .halt .NotActivated [] (adv s) else returnRule .Revert s

/-! ## (d) KECCAK256 and LOG0 … LOG4: one question to the outside, then a continuation

`Outcome.host op k`: the instruction hands `op` to the host (for KECCAK256: to the hash function) and continues with
`k answer`. -/

def needGasO (s : IState) (c : Nat) (k : IState → Outcome) : Outcome :=
  if s.gas.remaining < c then .halt .OutOfGas [] s else k (charge s c)

def memAccessO (s : IState) (off len : Nat) (k : IState → Outcome) : Outcome :=
  if s.gas.remaining < touchCost (memOf s) off len then .halt .MemoryOOG [] s
  else k (setMem (charge s (touchCost (memOf s) off len)) (touch (memOf s) off len))

/-- KECCAK256: δ = 2, α = 1, `G_keccak256 + G_keccak256word · ⌈len / 32⌉` + expansion to `off + len`; the hash of
`μ[off .. off + len)` replaces the operands; the empty string is hashed without asking (its hash is a constant) and
without touching memory. The length stays on the stack until the result overwrites it (`pop_top!`). -/
def keccakRule (s : IState) : Outcome :=
  match s.stack.reverse with
  | off :: len :: rest =>
    let s1 := { adv s with stack := (len :: rest).reverse }
    if U64 ≤ len then .halt .InvalidOperandOOG [] s1
    else needGasO s1 (Spec.GasCalc.keccak256Cost len) fun s2 =>
      if len = 0 then .next { s2 with stack := (KECCAK_EMPTY :: rest).reverse }
      else if U64 ≤ off then .halt .InvalidOperandOOG [] s2
      else memAccessO s2 off len fun s3 =>
        .host (.keccak (load (memOf s3) off len)) fun r => .next { s3 with stack := (r.word :: rest).reverse }
  | _ => .halt .StackUnderflow [] (adv s)

/-- the topics are popped after gas and memory are paid for; the log is emitted for the executing account -/
def logEmit (n : Nat) (s : IState) (rest data : List Nat) : Outcome :=
  if rest.length < n then .halt .StackUnderflow [] s
  else .host (.log s.target (rest.take n) data) fun _ => .next { s with stack := (rest.drop n).reverse }

/-- LOGn, `0 ≤ n ≤ 4`: δ = n + 2, α = 0, `G_log + G_logdata · len + n · G_logtopic` + expansion; forbidden in a
static context (checked first) -/
def logRule (n : Nat) (s : IState) : Outcome :=
  if s.isStatic then .halt .StateChangeDuringStaticCall [] (adv s)
  else match s.stack.reverse with
    | off :: len :: rest =>
      let s1 := { adv s with stack := rest.reverse }
      if U64 ≤ len then .halt .InvalidOperandOOG [] s1
      else needGasO s1 (Spec.GasCalc.logCost n len) fun s2 =>
        if len = 0 then logEmit n s2 rest []
        else if U64 ≤ off then .halt .InvalidOperandOOG [] s2
        else memAccessO s2 off len fun s3 => logEmit n s3 rest (load (memOf s3) off len)
    | _ => .halt .StackUnderflow [] (adv s)

/-! ## (e) instructions that read or change the state through the host: the gas is a function of the answer

The fork `f` of the cost formulas is a parameter; the theorems assume `s.spec = f.id`. -/

/-- the low 160 bits of a word -/
def addrOf (w : Nat) : Nat := w % 2 ^ 160

/-- the refund counter over unbounded integers -/
def addRefund (s : IState) (r : Int) : IState := { s with gas := { s.gas with refunded := s.gas.refunded + r } }

/-- BALANCE: 20, EIP-150: 400, EIP-1884: 700, EIP-2929: cold 2600 / warm 100 -/
def balanceCost (f : Fork) (cold : Bool) : Nat :=
  if f.hasEIP2929 then (if cold then 2600 else 100) else if f.hasEIP2200 then 700 else if f.hasEIP150 then 400 else 20

/-- EXTCODEHASH (EIP-1052): 400, EIP-1884: 700, EIP-2929: cold 2600 / warm 100 -/
def extcodehashCost (f : Fork) (cold : Bool) : Nat :=
  if f.hasEIP2929 then (if cold then 2600 else 100) else if f.hasEIP2200 then 700 else 400

/-- BALANCE / EXTCODESIZE / EXTCODEHASH: δ = 1, α = 1; the address is asked about first, the price depends on the
answer's cold flag, a host failure is `FatalExternalError` -/
def accountQueryRule (op : Nat → HostOp) (price : Bool → Nat) (value : HostResp → Nat) (s : IState) : Outcome :=
  match s.stack.reverse with
  | a :: rest =>
    let s1 := { adv s with stack := rest.reverse }
    .host (op (addrOf a)) fun r =>
      if !r.ok then .halt .FatalExternalError [] s1
      else needGas s1 (price r.isCold) fun s2 => .next { s2 with stack := (value r :: rest).reverse }
  | [] => .halt .StackUnderflow [] (adv s)

def balanceRule (f : Fork) (s : IState) : Outcome := accountQueryRule .balance (balanceCost f) (·.word) s
def extcodesizeRule (f : Fork) (s : IState) : Outcome :=
  accountQueryRule .code (Spec.GasCalc.accountAccess f 20) (·.bytes.length) s
def extcodehashRule (f : Fork) (s : IState) : Outcome :=
  if !enabled s.spec GasCalc.SpecId.CONSTANTINOPLE then .halt .NotActivated [] (adv s)
  else accountQueryRule .codeHash (extcodehashCost f) (·.word) s

/-- SELFBALANCE (EIP-1884, Istanbul): `G_low`, the balance of the executing account -/
def selfbalanceRule (s : IState) : Outcome :=
  if !enabled s.spec GasCalc.SpecId.ISTANBUL then .halt .NotActivated [] (adv s)
  else needGasO (adv s) GasCalc.LOW fun s1 =>
    .host (.balance s.target) fun r =>
      if !r.ok then .halt .FatalExternalError [] s1
      else if s.stack.length = 1024 then .halt .StackOverflow [] s1
      else .next { s1 with stack := s.stack ++ [r.word] }

/-- BLOCKHASH: `G_blockhash = 20`; the host is asked for the number saturated to 64 bits -/
def blockhashRule (s : IState) : Outcome :=
  needGasO (adv s) GasCalc.BLOCKHASH fun s1 =>
    match s.stack.reverse with
    | n :: rest =>
      .host (.blockHash (min n (U64 - 1))) fun r =>
        if !r.ok then .halt .FatalExternalError [] s1
        else .next { s1 with stack := (r.word :: rest).reverse }
    | [] => .halt .StackUnderflow [] s1

/-- EXTCODECOPY: δ = 4; account access + `G_copy · ⌈len / 32⌉` + expansion, all after the host answered; the
address is popped before the other three operands are checked -/
def extcodecopyRule (f : Fork) (s : IState) : Outcome :=
  match s.stack.reverse with
  | a :: memOff :: codeOff :: len :: rest =>
    let s1 := { adv s with stack := rest.reverse }
    .host (.code (addrOf a)) fun r =>
      if !r.ok then .halt .FatalExternalError [] s1
      else if U64 ≤ len then .halt .InvalidOperandOOG [] s1
      else needGas s1 (Spec.GasCalc.extcodecopyCost f len r.isCold) fun s2 =>
        if len = 0 then .next s2
        else if U64 ≤ memOff then .halt .InvalidOperandOOG [] s2
        else memAccess s2 memOff len fun s3 =>
          .next (setMem s3 (store (memOf s3) memOff (Spec.Memory.paddedSlice r.bytes codeOff len)))
  | _ :: rest => .halt .StackUnderflow [] { adv s with stack := rest.reverse }
  | [] => .halt .StackUnderflow [] (adv s)

/-- SSTORE: δ = 2; static context first; the host stores and answers (original, present, new, cold); the price is the
EIP-2200 / 2929 table of the value pattern (`none`: the 2300-gas sentry), then the refund of EIP-2200 / 3529 -/
def sstoreRule (f : Fork) (s : IState) : Outcome :=
  if s.isStatic then .halt .StateChangeDuringStaticCall [] (adv s)
  else match s.stack.reverse with
    | key :: v :: rest =>
      let s1 := { adv s with stack := rest.reverse }
      .host (.sstore s.target key v) fun r =>
        if !r.ok then .halt .FatalExternalError [] s1
        else
          let pat := Spec.GasCalc.classify r.original r.present r.new
          match Spec.GasCalc.sstoreCost f pat s1.gas.remaining r.isCold with
          | none => .halt .OutOfGas [] s1
          | some c => needGas s1 c fun s2 => .next (addRefund s2 (Spec.GasCalc.sstoreRefund f pat))
    | _ => .halt .StackUnderflow [] (adv s)

/-- TSTORE (EIP-1153, Cancun): 100 gas, forbidden in a static context -/
def tstoreRule (s : IState) : Outcome :=
  if !enabled s.spec GasCalc.SpecId.CANCUN then .halt .NotActivated [] (adv s)
  else if s.isStatic then .halt .StateChangeDuringStaticCall [] (adv s)
  else needGasO (adv s) GasCalc.WARM_STORAGE_READ_COST fun s1 =>
    match s.stack.reverse with
    | key :: v :: rest =>
      .host (.tstore s.target key v) fun _ => .next { s1 with stack := rest.reverse }
    | _ => .halt .StackUnderflow [] s1

/-- SELFDESTRUCT: δ = 1; static context first; the host moves the balance and answers (had value, target exists,
previously destroyed, cold); before EIP-3529 a first destruction earns the 24000 refund (recorded before the charge);
price per EIP-150 / 161 / 2929; the frame ends with `SelfDestruct` -/
def selfdestructRule (f : Fork) (s : IState) : Outcome :=
  if s.isStatic then .halt .StateChangeDuringStaticCall [] (adv s)
  else match s.stack.reverse with
    | t :: rest =>
      let s1 := { adv s with stack := rest.reverse }
      .host (.selfdestruct s.target (addrOf t)) fun r =>
        if !r.ok then .halt .FatalExternalError [] s1
        else
          let s2 := if !f.hasEIP3529 && !r.previouslyDestroyed then addRefund s1 24000 else s1
          needGas s2 (Spec.GasCalc.selfdestructCost f r.hadValue r.targetExists r.isCold) fun s3 =>
            .halt .SelfDestruct [] s3
    | [] => .halt .StackUnderflow [] (adv s)

/-- two outcomes agree for every host answer satisfying `P`: the same pure result, or the same question and the same
continuation on those answers -/
def AgreeOn (P : HostResp → Prop) : Outcome → Outcome → Prop
  | .pure d, .pure d' => d = d'
  | .host op k, .host op' k' => op = op' ∧ ∀ r, P r → k r = k' r
  | _, _ => False

/-! ## BLOBHASH, and the EOF-only opcode bytes in legacy code -/

/-- BLOBHASH (EIP-4844, Cancun): δ = 1, α = 1, `G_verylow`; the versioned hash at the index, 0 behind the end -/
def blobhashRule (s : IState) : Done :=
  if !enabled s.spec GasCalc.SpecId.CANCUN then .halt .NotActivated [] (adv s)
  else unopRule GasCalc.VERYLOW (fun i => (s.env.blobHashes[min i (U64 - 1)]?).getD 0) s

/-- the running code is legacy code (no EOF container, not EOF init code) -/
def Legacy (s : IState) : Prop := s.isEof = false ∧ s.isEofInit = false

/-- an opcode byte that only EOF code may use (DATALOAD … DATACOPY, RJUMP … EXCHANGE, EOFCREATE, RETURNDATALOAD,
EXTCALL, EXTDELEGATECALL, EXTSTATICCALL) ends a legacy frame exceptionally -/
def eofOnlyRule (s : IState) : Done := .halt .EOFOpcodeDisabledInLegacy [] (adv s)

/-- RETURNCONTRACT (0xee) outside EOF init code -/
def returnContractRule (s : IState) : Done := .halt .ReturnContractInNotInitEOF [] (adv s)

end Revm.Spec.EvmRules2
