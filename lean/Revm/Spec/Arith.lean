import Revm.Util.Word
/-! What the 25 arithmetic / comparison / bitwise / shift opcodes *mean*: unbounded `Nat`/`Int`
arithmetic reduced modulo 2^256, two's complement for the signed ones (Yellow Paper, EIP-145). -/
namespace Revm.Spec.Arith
open Revm Revm.U256

def b2w (b : Bool) : Nat := if b then 1 else 0

def add (a b : Nat) : Nat := (a + b) % W
def mul (a b : Nat) : Nat := (a * b) % W
def sub (a b : Nat) : Nat := ofInt ((a : Int) - (b : Int))
def div (a b : Nat) : Nat := if b = 0 then 0 else a / b
def sdiv (a b : Nat) : Nat := if b = 0 then 0 else ofInt (Int.tdiv (toInt a) (toInt b))
def mod (a b : Nat) : Nat := if b = 0 then 0 else a % b
def smod (a b : Nat) : Nat := if b = 0 then 0 else ofInt (Int.tmod (toInt a) (toInt b))
def addmod (a b n : Nat) : Nat := if n = 0 then 0 else (a + b) % n
def mulmod (a b n : Nat) : Nat := if n = 0 then 0 else (a * b) % n
def exp (a b : Nat) : Nat := (a ^ b) % W
/-- sign-extend from byte `k` (0 = lowest): the low `8(k+1)` bits read as a signed number -/
def signextend (k x : Nat) : Nat :=
  if k < 31 then
    let n := 8 * (k + 1)
    let lo := x % 2^n
    if lo ≥ 2^(n-1) then ofInt ((lo : Int) - (2^n : Nat)) else lo
  else x
def lt (a b : Nat) : Nat := b2w (a < b)
def gt (a b : Nat) : Nat := b2w (a > b)
def slt (a b : Nat) : Nat := b2w (toInt a < toInt b)
def sgt (a b : Nat) : Nat := b2w (toInt a > toInt b)
def eq (a b : Nat) : Nat := b2w (a = b)
def iszero (a : Nat) : Nat := b2w (a = 0)
def and (a b : Nat) : Nat := a &&& b
def or (a b : Nat) : Nat := a ||| b
def xor (a b : Nat) : Nat := a ^^^ b
def not (a : Nat) : Nat := W - 1 - a
/-- byte `i` counted from the most significant end -/
def byte (i x : Nat) : Nat := if i < 32 then (x / 2^(8 * (31 - i))) % 256 else 0
def shl (s x : Nat) : Nat := (x * 2^s) % W
def shr (s x : Nat) : Nat := x / 2^s
/-- floor division of the signed reading -/
def sar (s x : Nat) : Nat := ofInt (toInt x / ((2^s : Nat) : Int))
/-- EXP gas: 10 + (10 | 50) per byte of the exponent -/
def byteLen (n : Nat) : Nat := if n = 0 then 0 else n.log2 / 8 + 1
def expCost (sd : Bool) (power : Nat) : Nat := 10 + (if sd then 50 else 10) * byteLen power

end Revm.Spec.Arith
