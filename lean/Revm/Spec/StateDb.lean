import Revm.Model.StateDb
/-! Reference for C15 / C19: a plain state `Address → Option (info, Slot → U256)` to which committed
changes are applied directly (DESIGN Appendix A.2), and the reachability predicate on histories. -/
namespace Revm.Spec.StateDb
open Revm Revm.Model.StateDb

abbrev Ref := Addr → Option (Info × (Slot → Word))

/-- the plain state held by a database -/
def refOfDb (D : Db) : Ref := fun a => (D.basic a).map (fun i => (i, D.storage a))

/-- write the changed slots over `σ` -/
def over (l : Changes) (σ : Slot → Word) : Slot → Word := fun k =>
  match l.get k with
  | some v => v
  | none => σ k

def zeroStorage : Slot → Word := fun _ => 0

/-- storage of a reference entry (all zero for an absent account) -/
def storageOf (ra : Option (Info × (Slot → Word))) : Slot → Word :=
  match ra with
  | some p => p.2
  | none => zeroStorage

/-- one account of a committed `EvmState`: untouched accounts are ignored; self-destructed ⇒ removed;
created ⇒ the new info with exactly the changed slots; touched and empty while state clearing is
active ⇒ removed; otherwise the new info with the changed slots written over the old storage -/
def applyAcct (stateClear : Bool) (ra : Option (Info × (Slot → Word))) (a : CommitAcct) :
    Option (Info × (Slot → Word)) :=
  if !a.touched then ra
  else if a.selfdestructed then none
  else if a.created then some (a.info, over a.changed zeroStorage)
  else if a.info.isEmpty && stateClear then none
  else some (a.info, over a.changed (storageOf ra))

/-- reference state + the set of addresses that have been asked for (the cache never forgets) -/
structure St where
  ref : Ref
  loaded : Addr → Bool

def St.init (D : Db) : St := ⟨refOfDb D, fun _ => false⟩
def St.load (s : St) (a : Addr) : St := { s with loaded := fun x => if x = a then true else s.loaded x }
def St.set (s : St) (a : Addr) (v : Option (Info × (Slot → Word))) : St :=
  { s with ref := fun x => if x = a then v else s.ref x }

def applyCommit (stateClear : Bool) (s : St) : List CommitAcct → St
  | [] => s
  | a :: rest => applyCommit stateClear (s.set a.addr (applyAcct stateClear (s.ref a.addr) a)) rest

def incAcct (ra : Option (Info × (Slot → Word))) (amount : Nat) : Option (Info × (Slot → Word)) :=
  match ra with
  | some (i, σ) => some ({ i with balance := i.balance + amount }, σ)
  | none => some ({ Info.default with balance := amount }, zeroStorage)

def applyInc (s : St) : List (Addr × Nat) → St
  | [] => s
  | (a, amount) :: rest =>
    if amount = 0 then applyInc s rest
    else applyInc ((s.load a).set a (incAcct (s.ref a) amount)) rest

def drainAcct (ra : Option (Info × (Slot → Word))) : Option (Info × (Slot → Word)) :=
  match ra with
  | some (i, σ) => some ({ i with balance := 0 }, σ)
  | none => some (Info.default, zeroStorage)

def balanceOf (ra : Option (Info × (Slot → Word))) : Nat :=
  match ra with
  | some (i, _) => i.balance
  | none => 0

def applyDrain (s : St) : List Addr → St × List Nat
  | [] => (s, [])
  | a :: rest =>
    let r := applyDrain ((s.load a).set a (drainAcct (s.ref a))) rest
    (r.1, balanceOf (s.ref a) :: r.2)

/-- reads and updates of the reference (code is read from the database's code table: the committed
history never changes what a hash resolves to) -/
def step (dbCode : Nat → Code) (stateClear : Bool) (s : St) : Op → St × Reply
  | .basic a => (s.load a, .info ((s.ref a).map (fun p => p.1.view dbCode)))
  | .storage a k => (s, .word (match s.ref a with | some p => p.2 k | none => 0))
  | .code h => (s, .code (dbCode h))
  | .commit accts => (applyCommit stateClear s accts, .done)
  | .inc l => (applyInc s l, .done)
  | .drain l => let r := applyDrain s l; (r.1, .drained r.2)

def run (dbCode : Nat → Code) (stateClear : Bool) (s : St) : List Op → St × List Reply
  | [] => (s, [])
  | op :: rest =>
    let r := step dbCode stateClear s op
    let r2 := run dbCode stateClear r.1 rest
    (r2.1, r.2 :: r2.2)

/-! ## which histories are considered -/

/-- well-formed info: the code hash is not the zero hash, and an info with the empty-code hash
carries no code bytes -/
def WfInfo (i : Info) : Prop :=
  i.codeHash ≠ 0 ∧ (i.codeHash = KECCAK_EMPTY → i.code = none ∨ i.code = some [])

def isEmptyRef (ra : Option (Info × (Slot → Word))) : Prop :=
  match ra with
  | none => True
  | some p => p.1.isEmpty = true

/-- reachability rules for one committed account (facts about what the EVM can produce):
the account was loaded before; its info is well-formed; an account that is touched, not created, not
self-destructed and empty was absent or empty before (a non-empty account cannot become empty:
nonces never decrease, code is only removed by self-destruct) and carries no storage writes (it has
no code that could write) -/
def ReachAcct (s : St) (a : CommitAcct) : Prop :=
  a.touched = true →
    s.loaded a.addr = true ∧ WfInfo a.info ∧
    (a.selfdestructed = false → a.created = false → a.info.isEmpty = true →
      isEmptyRef (s.ref a.addr) ∧ a.changed = [])

/-- EXCLUDED REGION (finding, pre-EIP-161 only): an account created while state clearing is off
that is empty (nonce 0, no balance, no code) but has non-zero storage -/
def ExclAcct (stateClear : Bool) (a : CommitAcct) : Prop :=
  stateClear = false → a.touched = true → a.selfdestructed = false → a.created = true →
    a.info.isEmpty = true → ∀ k, over a.changed zeroStorage k = 0

def ReachCommit (stateClear : Bool) (s : St) : List CommitAcct → Prop
  | [] => True
  | a :: rest => ReachAcct s a ∧
      ReachCommit stateClear (s.set a.addr (applyAcct stateClear (s.ref a.addr) a)) rest

/-- balance increments do not overflow 256 bits -/
def ReachInc (s : St) : List (Addr × Nat) → Prop
  | [] => True
  | (a, amount) :: rest =>
    if amount = 0 then ReachInc s rest
    else balanceOf (s.ref a) + amount < W ∧ ReachInc ((s.load a).set a (incAcct (s.ref a) amount)) rest

/-- drained balances fit `u128`, and draining does not turn a non-empty account into an empty one
(the DAO accounts are contracts) -/
def ReachDrain (s : St) : List Addr → Prop
  | [] => True
  | a :: rest =>
    balanceOf (s.ref a) < U128 ∧
    (∀ p, s.ref a = some p → p.1.isEmpty = false → ({ p.1 with balance := 0 } : Info).isEmpty = false) ∧
    ReachDrain ((s.load a).set a (drainAcct (s.ref a))) rest

def ReachOp (stateClear : Bool) (s : St) : Op → Prop
  | .basic _ => True
  | .storage a _ => s.loaded a = true
  | .code _ => True
  | .commit accts => ReachCommit stateClear s accts
  | .inc l => ReachInc s l
  | .drain l => ReachDrain s l

/-- the history stays outside the excluded region `ExclAcct` -/
def ExclOp (stateClear : Bool) : Op → Prop
  | .commit accts => ∀ a ∈ accts, ExclAcct stateClear a
  | _ => True
def Excl (stateClear : Bool) (ops : List Op) : Prop := ∀ op ∈ ops, ExclOp stateClear op

/-- histories the EVM / block executor can produce -/
def Reach (dbCode : Nat → Code) (stateClear : Bool) (s : St) : List Op → Prop
  | [] => True
  | op :: rest => ReachOp stateClear s op ∧ Reach dbCode stateClear (step dbCode stateClear s op).1 rest

/-- database well-formedness: infos are well-formed -/
def DbWf (D : Db) : Prop := ∀ a i, D.basic a = some i → WfInfo i

/-- EXCLUDED REGION (finding, DESIGN §9 #11): the database holds an account without code and nonce
(in particular an empty one, possible before EIP-161) that has non-zero storage -/
def CodelessNoStorage (D : Db) : Prop :=
  ∀ a i, D.basic a = some i → i.hasNoCodeAndNonce = true → ∀ k, D.storage a k = 0

end Revm.Spec.StateDb
