import Revm.Model.Evm
/-! The specification side of C01's closed statement: whole-transaction execution with the state discipline of the
execution specification (EELS `begin_transaction` / `commit_transaction` / `rollback_transaction`; Yellow Paper: the
state `σ` a message call starts from is kept and is the result when the call fails): a subroutine SAVES the whole
state when it starts and RESTORES it when it fails — no journal, no undo entries. Accessed addresses / storage keys,
transient storage and logs are part of the saved state (EIP-2929, EIP-1153 roll them back too).

Everything else — instruction semantics (`Interp.step`, proved against the Yellow-Paper rules of `Spec/EvmRules.lean` for
the pure families), the forward effects of the host operations, the message-call and creation rules, the transaction
handler — is shared with the model through `Evm.transactWith`, which is parametric in the discipline (`CpOps`). What
`FullStatement_transact_refines_spec` (Props/C01.lean) says is therefore exactly: undoing with journal entries is
observably the same as restoring snapshots, for every program, transaction and fork — the whole-transaction lift of C06.

The one consensus exception is built in: from Spurious Dragon on a touch of address 0x03 survives a revert (the mainnet
RIPEMD-160 precedent, DESIGN §8). -/
namespace Revm.Spec.Evm
open Revm Revm.Model Revm.Model.Evm

/-- what a subroutine keeps: the state it started from -/
structure Snap where
  js : Journal.JState

/-- the account as the database holds it, not yet accessed (cold unless pre-warmed by the transaction): the placeholder
of an address that was first loaded inside a subroutine that failed. It is observably the same as an address that is
not in the map at all (`Spec.JournalAbs.absAcct` identifies the two). -/
def pristine (w : World) (a : Nat) : Journal.Acct :=
  match w.db.basic a with
  | some i => { Journal.Acct.ofInfo i with cold := !w.js.preloaded a }
  | none => { Journal.Acct.newNotExisting with cold := !w.js.preloaded a }

/-- start of a subroutine: remember the state; `depth` counts the open subroutines -/
def checkpoint (w : World) : World × Snap :=
  ({ w with js := { w.js with depth := Journal.incU64 w.js.depth } }, ⟨w.js⟩)

/-- successful end of a subroutine: the state stays -/
def commit (w : World) : World :=
  { w with js := { w.js with depth := Journal.decU64 w.js.depth } }

/-- an entry of the state map after a failed subroutine: the account as it was saved; an address that the subroutine
loaded for the first time (`w.addrs` lists the addresses of the map) stays in the map as an untouched, unaccessed
placeholder (no observable content) -/
def restoredBase (w : World) (saved : Journal.JState) (a : Nat) : Option Journal.Acct :=
  match saved.state a with
  | some x => some x
  | none => if w.addrs.contains a then some (pristine w a) else none

/-- the entry of address 0x03 after a failed subroutine: as every other address, except that from Spurious Dragon on
its touched mark is not rolled back (the mainnet RIPEMD-160 precedent, DESIGN §8) -/
def restored3 (w : World) (saved : Journal.JState) : Option Journal.Acct :=
  match w.js.state Journal.PRECOMPILE3 with
  | some cur =>
    if decide (w.js.spec ≥ Journal.SPURIOUS_DRAGON) then
      (restoredBase w saved Journal.PRECOMPILE3).map fun x => { x with touched := cur.touched }
    else restoredBase w saved Journal.PRECOMPILE3
  | none => restoredBase w saved Journal.PRECOMPILE3

/-- the state map after a failed subroutine; `acc3` is the entry of address 0x03, computed once per revert -/
def restoredState (w : World) (saved : Journal.JState) (acc3 : Option Journal.Acct) (a : Nat) : Option Journal.Acct :=
  if a = Journal.PRECOMPILE3 then acc3 else restoredBase w saved a

/-- failed subroutine: the saved state comes back -/
def revert (w : World) (c : Snap) : R World :=
  let acc3 := restored3 w c.js
  pure { w with js := { c.js with state := restoredState w c.js acc3 } }

/-- creation: the forward effects of `create_account_checkpoint` (collision test, created / touched marks, endowment,
nonce 1 from Spurious Dragon on); on collision or overflow the state the creation started from -/
def createCheckpoint (w : World) (caller a : Nat) (hasStorage : Bool) (value spec : Nat) :
    R (World × Except Journal.CreateErr Snap) := do
  let saved := w.js
  let (js, r) ← ofOpt "create_account_checkpoint" (Journal.createAccountCheckpoint w.js caller a hasStorage value spec)
  match r with
  | .ok _ => pure ({ w with js := js }, .ok ⟨saved⟩)
  | .error e => pure ({ w with js := saved }, .error e)

def snapshotOps : CpOps Snap where
  checkpoint := checkpoint
  commit := commit
  revert := revert
  createCheckpoint := createCheckpoint
  setCode := journalOps.setCode

/-- the execution specification's transaction: `Evm.transactWith` over snapshots -/
def transact (fuel : Nat) (w : World) (e : Env) (spec : Nat) : R (Outcome × World) :=
  transactWith snapshotOps fuel w e spec

/-! ## what is observable of a result -/

/-- a touched account of the returned state: created / selfdestructed marks, balance, nonce, code hash and the
changed slots (`none` = the slot is not changed) -/
structure AcctObs where
  created : Bool
  selfdestructed : Bool
  balance : Nat
  nonce : Nat
  codeHash : Nat
  changed : Nat → Option Nat

def observe (w : World) (a : Nat) : Option AcctObs :=
  match w.js.state a with
  | some acc =>
    if acc.touched then
      some { created := acc.created, selfdestructed := acc.selfdestructed, balance := acc.info.balance,
             nonce := acc.info.nonce, codeHash := acc.info.codeHash,
             changed := fun k => match acc.storage k with
               | some sl => if sl.present ≠ sl.orig then some sl.present else none
               | none => none }
    else none
  | none => none

def AcctObs.Eqv (x y : AcctObs) : Prop :=
  x.created = y.created ∧ x.selfdestructed = y.selfdestructed ∧ x.balance = y.balance ∧ x.nonce = y.nonce ∧
  x.codeHash = y.codeHash ∧ ∀ k, x.changed k = y.changed k

def TxResult.Eqv (x y : TxResult) : Prop :=
  x.cls = y.cls ∧ x.gasUsed = y.gasUsed ∧ x.gasRefunded = y.gasRefunded ∧ x.output = y.output ∧
  x.created = y.created ∧ x.logs = y.logs

/-- same outcome class, gas used, refund, return data, logs and post-state of the touched accounts -/
def ObsEq : R (Outcome × World) → R (Outcome × World) → Prop
  | .ok (.rejected, _), .ok (.rejected, _) => True
  | .ok (.executed r1, w1), .ok (.executed r2, w2) =>
    TxResult.Eqv r1 r2 ∧ ∀ a, match observe w1 a, observe w2 a with
      | some x, some y => x.Eqv y
      | none, none => True
      | _, _ => False
  | .error .outOfFuel, .error .outOfFuel => True
  | .error (.panic _), .error (.panic _) => True
  | .error (.fatal _), .error (.fatal _) => True
  | .error (.oracleMiss _), .error (.oracleMiss _) => True
  | _, _ => False

/-- the world a transaction starts from on a fresh `Evm`: nothing loaded, nothing warm -/
def freshWorld (spec : Nat) (pre : List PreAcct) (dbHasStorage : Bool) (pcOracle : List PcAnswer) : World :=
  { js := Journal.JState.new (GasCalc.canon spec) (fun _ => false), pre := pre,
    codes := pre.filterMap fun p => if p.code.isEmpty then none else some (p.codeHash, p.code),
    dbHasStorage := dbHasStorage, pcOracle := pcOracle }

end Revm.Spec.Evm
