import Revm.Model.Journal
/-! What is *observable* of a journaled state (C06, C08, C34), histories of operations over the
model, and the admissibility conditions under which the EVM uses the `JournaledState` API.

`abs` identifies "absent from the state map" with "present, cold (unless tx-level pre-warmed),
equal to the database, no flags, no cached slots" — the only identification the code itself relies on.
Whether the bytecode is cached in `info.code` is not observable and is dropped. -/
namespace Revm.Spec.JournalAbs
open Revm Revm.Model.Journal

structure AbsSlot where
  orig : Nat
  present : Nat
  warm : Bool
deriving DecidableEq, Repr

structure AbsAcct where
  balance : Nat
  nonce : Nat
  codeHash : Nat
  created : Bool
  selfdestructed : Bool
  touched : Bool
  notExisting : Bool
  warm : Bool
  slot : Nat → AbsSlot

/-- the database additionally answers `has_storage` (EIP-7610); `DbOk` says it is faithful -/
def DbOk (db : Db) (hasStorage : Addr → Bool) : Prop :=
  ∀ a, hasStorage a = false → ∀ k, db.storage a k = 0

def absSlot (db : Db) (a : Addr) (acc : Option Acct) (k : Nat) : AbsSlot :=
  match acc with
  | some acc =>
    match acc.storage k with
    | some sl => { orig := sl.orig, present := sl.present, warm := !sl.cold }
    | none =>
      let v := if acc.created then 0 else db.storage a k
      { orig := v, present := v, warm := false }
  | none => let v := db.storage a k; { orig := v, present := v, warm := false }

/-- `sd`: SPURIOUS_DRAGON enabled — then the touched mark of address 0x03 is not observable
(its revert is deliberately skipped by the code, the mainnet RIPEMD-160 precedent; DESIGN §8) -/
def absAcct (db : Db) (s : JState) (a : Addr) : AbsAcct :=
  let sd := decide (s.spec ≥ SPURIOUS_DRAGON)
  match s.state a with
  | some acc =>
    { balance := acc.info.balance, nonce := acc.info.nonce, codeHash := acc.info.codeHash,
      created := acc.created, selfdestructed := acc.selfdestructed,
      touched := if sd ∧ a = PRECOMPILE3 then false else acc.touched,
      notExisting := acc.notExisting, warm := !acc.cold,
      slot := absSlot db a (some acc) }
  | none =>
    let i := (db.basic a).getD Info.default
    { balance := i.balance, nonce := i.nonce, codeHash := i.codeHash,
      created := false, selfdestructed := false, touched := false,
      notExisting := (db.basic a).isNone, warm := s.preloaded a,
      slot := absSlot db a none }

def AbsAcct.eqv (x y : AbsAcct) : Prop :=
  x.balance = y.balance ∧ x.nonce = y.nonce ∧ x.codeHash = y.codeHash ∧ x.created = y.created ∧
  x.selfdestructed = y.selfdestructed ∧ x.touched = y.touched ∧ x.notExisting = y.notExisting ∧
  x.warm = y.warm ∧ ∀ k, x.slot k = y.slot k

/-- observable equality of two journaled states over the same database: accounts, storage,
warm/cold status, flags, transient storage (an explicit zero and an absent entry coincide), logs -/
def AbsEq (db : Db) (s t : JState) : Prop :=
  (∀ a, (absAcct db s a).eqv (absAcct db t a)) ∧
  (∀ a k, tload s a k = tload t a k) ∧ s.logs = t.logs

/-- well-formedness of a journaled state over its database: every balance, cached or still in the
database, is a 256-bit word (what `U256` guarantees in the Rust; the model's words are unbounded `Nat`s) -/
def WF (db : Db) (s : JState) : Prop := ∀ a, (absAcct db s a).balance < W

/-- the delegation target designated by the code of `a`, as `load_account_delegated` reads it -/
def delegateOf (db : Db) (s : JState) (a : Addr) : Option Addr :=
  match loadCode db s a with
  | some (s1, _) => (s1.state a).bind fun acc => acc.info.code.bind db.delegate
  | none => none

/-- the accounts / slots the undo of an entry dereferences are present -/
def refsOk (s : JState) : Entry → Prop
  | .accountWarmed a => (s.state a).isSome
  | .accountTouched a => (s.state a).isSome
  | .accountDestroyed a t _ _ => (s.state a).isSome ∧ (s.state t).isSome
  | .balanceTransfer a t _ => (s.state a).isSome ∧ (s.state t).isSome
  | .nonceChange a => (s.state a).isSome
  | .accountCreated a => (s.state a).isSome
  | .codeChange a => (s.state a).isSome
  | .storageWarmed a k => ∃ acc, s.state a = some acc ∧ (acc.storage k).isSome
  | .storageChanged a k _ => ∃ acc, s.state a = some acc ∧ (acc.storage k).isSome
  | .transientChange _ _ _ => True

/-- every entry in the journal refers to accounts / slots that are present in the state map: what makes
`journal_revert`'s `unwrap`s safe. True of `JournaledState::new`, preserved by every operation (Proofs/JournalRefs) -/
def JRefs (s : JState) : Prop := ∀ l, l ∈ s.journal → ∀ e, e ∈ l → refsOk s e

/-! ## histories -/

inductive Op
  | load (a : Addr) | loadCode (a : Addr) | loadDelegated (a : Addr)
  | initLoad (a : Addr) (ks : List Nat) | touch (a : Addr)
  | transfer (src dst : Addr) (v : Nat) | incNonce (a : Addr) | setCode (a : Addr) (h : Nat)
  | sload (a : Addr) (k : Nat) | sstore (a : Addr) (k v : Nat)
  | tload (a : Addr) (k : Nat) | tstore (a : Addr) (k v : Nat) | log (l : Nat)
  | selfdestruct (a t : Addr) | create (caller a : Addr) (hasStorage : Bool) (bal spec : Nat)
  | checkpoint | commit | revert (i : Nat)
deriving DecidableEq, Repr

/-- a run: the journaled state plus the checkpoints handed out so far (oldest first) -/
structure Run where
  js : JState
  cps : List Checkpoint

/-- one operation; `none` is a Rust panic (`unwrap` on a vacant entry, stale checkpoint) -/
def step (db : Db) (r : Run) : Op → Option Run
  | .load a => (loadAccount db r.js a).map fun x => { r with js := x.1 }
  | .loadCode a => (loadCode db r.js a).map fun x => { r with js := x.1 }
  | .loadDelegated a => (loadAccountDelegated db r.js a).map fun x => { r with js := x.1 }
  | .initLoad a ks => some { r with js := initialAccountLoad db r.js a ks }
  | .touch a => (touch r.js a).map fun js => { r with js := js }
  | .transfer f t v => (transfer db r.js f t v).map fun x => { r with js := x.1 }
  | .incNonce a => (incNonce r.js a).map fun x => { r with js := x.1 }
  | .setCode a h => (setCode r.js a h).map fun js => { r with js := js }
  | .sload a k => (sload db r.js a k).map fun x => { r with js := x.1 }
  | .sstore a k v => (sstore db r.js a k v).map fun x => { r with js := x.1 }
  | .tload _ _ => some r
  | .tstore a k v => (tstore r.js a k v).map fun js => { r with js := js }
  | .log l => some { r with js := log r.js l }
  | .selfdestruct a t => (selfdestruct db r.js a t).map fun x => { r with js := x.1 }
  | .create c a hs bal spec =>
    match createAccountCheckpoint r.js c a hs bal spec with
    | some (js, .ok cp) => some { js := js, cps := r.cps ++ [cp] }
    | some (js, .error _) => some { r with js := js }
    | none => none
  | .checkpoint => let (js, cp) := checkpoint r.js; some { js := js, cps := r.cps ++ [cp] }
  | .commit => some { r with js := commit r.js }
  | .revert i =>
    match r.cps[i]? with
    | some cp => (revert r.js cp).map fun js => { r with js := js }
    | none => none

def run (db : Db) (r : Run) : List Op → Option Run
  | [] => some r
  | op :: ops => match step db r op with
    | some r' => run db r' ops
    | none => none

/-- conditions on the *use* of the API that the EVM's frame machine guarantees and under which C06 is
stated (each is decidable on the current state; the driver evaluates them and prints the Spec
column only while they hold):
* `set_code` only on an account whose code is empty (a contract being created) — the `CodeChange`
  entry does not record the previous code;
* `create_account_checkpoint` only on a target that is not already marked created, with a faithful
  `has_storage` answer and a caller balance that covers the endowment (checked in `make_create_frame`);
* `initial_account_load` (transaction-level pre-warming, deliberately not journaled) only before the
  first checkpoint;
* a reverted checkpoint is one handed out earlier and not older than `base` (the checkpoint the
  theorem is about). -/
def admissible (_db : Db) (hasStorage : Addr → Bool) (base : Nat) (r : Run) : Op → Bool
  | .setCode a _ => match r.js.state a with
    | some acc => acc.info.codeHash = KECCAK_EMPTY
    | none => true
  | .create c a hs bal _ =>
    (match r.js.state a with | some acc => !acc.created | none => true) &&
    (hs || !hasStorage a) &&
    (match r.js.state c with | some acc => decide (bal ≤ acc.info.balance) | none => true)
  | .revert i => decide (base ≤ i)
  | .initLoad _ _ => false
  | _ => true

def admissibleRun (db : Db) (hasStorage : Addr → Bool) (base : Nat) (r : Run) : List Op → Bool
  | [] => true
  | op :: ops => admissible db hasStorage base r op &&
    match step db r op with
    | some r' => admissibleRun db hasStorage base r' ops
    | none => true

end Revm.Spec.JournalAbs
