import Revm.Model.Precompile
/-! What C23 *means* for the precompiles whose definition is fully arithmetical: the Yellow-Paper
linear prices of identity / SHA-256 / RIPEMD-160, and EIP-198 / EIP-2565 (modexp) written over unbounded
`Nat`, reading the input as an infinitely zero-extended byte string. (The result and error types and
the hash functions are shared with the model; the hash functions are definitions.) -/
namespace Revm.Spec.Precompile
open Revm.Model.Precompile Revm.Model.PrecompileHash

/-- ⌈a / b⌉ -/
def ceilDiv (a b : Nat) : Nat := (a + b - 1) / b

/-- Yellow Paper: `base + word * ⌈len / 32⌉` -/
def linearCost (len base word : Nat) : Nat := base + word * ceilDiv len 32

def identity (input : Bytes) (gas : Nat) : Res :=
  if linearCost input.length 15 3 > gas then .err .OutOfGas else .ok (linearCost input.length 15 3) input
def sha256 (input : Bytes) (gas : Nat) : Res :=
  if linearCost input.length 60 12 > gas then .err .OutOfGas
  else .ok (linearCost input.length 60 12) (Revm.Model.PrecompileHash.sha256 input)
def ripemd160 (input : Bytes) (gas : Nat) : Res :=
  if linearCost input.length 600 120 > gas then .err .OutOfGas
  else .ok (linearCost input.length 600 120) (List.replicate 12 0 ++ Revm.Model.PrecompileHash.ripemd160 input)

/-! ## modexp (EIP-198, repriced by EIP-2565) -/

/-- byte `i` of the input extended with infinitely many zero bytes -/
def byteAt (input : Bytes) (i : Nat) : Nat := (input[i]?).getD 0
/-- `len` bytes from offset `off` of the zero-extended input -/
def slice (input : Bytes) (off len : Nat) : Bytes := (List.range len).map (fun i => byteAt input (off + i))
/-- the big-endian number in those bytes -/
def num (input : Bytes) (off len : Nat) : Nat := beNat (slice input off len)

/-- index of the highest set bit, 0 for 0 -/
def highBit (x : Nat) : Nat := if x = 0 then 0 else x.log2

/-- EIP-198 ADJUSTED_EXPONENT_LENGTH; `head` is the number in the first `min expLen 32` bytes of the exponent -/
def adjExpLen (expLen head : Nat) : Nat :=
  if expLen ≤ 32 then highBit head else 8 * (expLen - 32) + highBit head

/-- EIP-198 `mult_complexity` -/
def multComplexity198 (x : Nat) : Nat :=
  if x ≤ 64 then x ^ 2 else if x ≤ 1024 then x ^ 2 / 4 + 96 * x - 3072 else x ^ 2 / 16 + 480 * x - 199680

/-- EIP-198 gas: `⌊mult_complexity(max(mod_len, base_len)) * max(adj_exp_len, 1) / 20⌋` -/
def eip198Gas (baseLen expLen modLen head : Nat) : Nat :=
  multComplexity198 (max modLen baseLen) * max (adjExpLen expLen head) 1 / 20

/-- EIP-2565 gas: `max(200, ⌊⌈max(base_len, mod_len) / 8⌉² * max(adj_exp_len, 1) / 3⌋)` -/
def eip2565Gas (baseLen expLen modLen head : Nat) : Nat :=
  max 200 (ceilDiv (max baseLen modLen) 8 ^ 2 * max (adjExpLen expLen head) 1 / 3)

/-- `base^exp mod m`, and 0 for the modulus 0 -/
def modexpValue (b e m : Nat) : Nat := if m = 0 then 0 else b ^ e % m

structure ModexpFields where
  baseLen : Nat
  expLen : Nat
  modLen : Nat
  head : Nat
  cost : Nat

def modexpFields (berlin : Bool) (input : Bytes) : ModexpFields :=
  let bl := num input 0 32
  let el := num input 32 32
  let ml := num input 64 32
  let head := num input (96 + bl) (min el 32)
  { baseLen := bl, expLen := el, modLen := ml, head := head,
    cost := if berlin then eip2565Gas bl el ml head else eip198Gas bl el ml head }

/-- what the EIP demands of a call: out of gas iff the cost exceeds the limit; otherwise the cost is
charged and the output is the `mod_len`-byte big-endian encoding of `base^exp mod m` -/
def ModexpPost (berlin : Bool) (input : Bytes) (gas : Nat) (r : Res) : Prop :=
  let f := modexpFields berlin input
  if f.cost > gas then r = .err .OutOfGas
  else ∃ out, r = .ok f.cost out ∧ out.length = f.modLen ∧
    beNat out = modexpValue (num input 96 f.baseLen) (num input (96 + f.baseLen) f.expLen)
      (num input (96 + f.baseLen + f.expLen) f.modLen)

/-- executable form of `ModexpPost` for the driver's Spec column; `none` outside the region where the
code is claimed to follow the EIP (`Props/C23.lean`) or where the value is too big to evaluate.
For exponents ≥ 4096 the power is evaluated with the proved-equal `modPow`. -/
def modexp (berlin : Bool) (input : Bytes) (gas : Nat) : Option Res :=
  let f := modexpFields berlin input
  if f.baseLen + f.expLen + f.modLen ≥ 2 ^ 63 ∨ gas ≥ 2 ^ 64 - 1 then none else
  if f.cost > gas then some (.err .OutOfGas) else
  if f.baseLen + f.expLen + f.modLen > 8192 then none else
  let b := num input 96 f.baseLen
  let e := num input (96 + f.baseLen) f.expLen
  let m := num input (96 + f.baseLen + f.expLen) f.modLen
  let v := if e < 4096 then modexpValue b e m else (if m = 0 then 0 else modPow b e m)
  some (.ok f.cost (toBE f.modLen v))

end Revm.Spec.Precompile
