import Revm.Model.EofValidate
/-! What "a valid container" means for the interpreter's EOF instructions (C26, last sentence):
the facts that `callf`, `jumpf`, `rjump*`, `eofcreate`, `return_contract` and `load_eof_code` in
`instructions/control.rs`, `instructions/contract.rs`, `interpreter.rs` rely on *without checking*
(`panic!("Invalid EOF in execution …")`, `.expect("EOF is checked")`, unchecked pointer offsets).
Stated independently of the validator: a linear decoding of the section (`Reach`) and a local
predicate per instruction (`InstrOk`). -/
namespace Revm.Spec.Eof
open Revm.Model.Eof Revm.Model.EofValidate

/-- big-endian `u16` at offset `k`, if both bytes exist -/
def u16At (code : Array Nat) (k : Nat) : Option Nat :=
  match code[k]?, code[k + 1]? with
  | some a, some b => some (a * 256 + b)
  | _, _ => none

/-- number of immediate bytes of the instruction starting at `i`
(table value; RJUMPV: 1 + 2·(max_index + 1)) -/
def immLen (code : Array Nat) (i : Nat) : Nat :=
  match code[i]? with
  | none => 0
  | some op =>
    match opInfo op with
    | none => 0
    | some inf =>
      inf.imm + (if op = RJUMPV then
                   match code[i + 1]? with
                   | some m => 2 * (m + 1)
                   | none => 0
                 else 0)

/-- `Reach code i j`: decoding instructions linearly from offset `i` arrives at offset `j` -/
inductive Reach (code : Array Nat) : Nat → Nat → Prop
  | refl (i : Nat) : Reach code i i
  | step {i j : Nat} : i < code.size → Reach code (i + 1 + immLen code i) j → Reach code i j

/-- `j` is the first byte of an instruction of the section -/
def IsInstrStart (code : Array Nat) (j : Nat) : Prop := Reach code 0 j ∧ j < code.size

/-- the relative-jump target `pc_after_immediates + offset` is a byte of this section -/
def TargetIn (code : Array Nat) (base : Nat) (v : Nat) : Prop :=
  0 ≤ (base : Int) + toI16 v ∧ (base : Int) + toI16 v < code.size

/-- what the interpreter assumes about the instruction starting at `i` in a container with
`nTypes` code sections and `nContainers` sub-containers -/
structure InstrOk (code : Array Nat) (nTypes nContainers i : Nat) : Prop where
  /-- the opcode is defined and allowed in EOF -/
  known : ∃ op inf, code[i]? = some op ∧ opInfo op = some inf ∧ inf.notEof = false
  /-- no truncated immediate, and the section does not end inside / right after the immediates -/
  imm_in : i + immLen code i < code.size
  /-- CALLF / JUMPF: the section index exists (`types_section.get(idx)`, `load_eof_code`) -/
  section_idx : code[i]? = some CALLF ∨ code[i]? = some JUMPF →
    ∃ k, u16At code (i + 1) = some k ∧ k < nTypes
  /-- EOFCREATE / RETURNCONTRACT: the sub-container exists (`container_section.get(idx)`) -/
  container_idx : code[i]? = some EOFCREATE ∨ code[i]? = some RETURNCONTRACT →
    ∃ k, code[i + 1]? = some k ∧ k < nContainers
  /-- RJUMP / RJUMPI: the target is inside the section -/
  rjump : code[i]? = some RJUMP ∨ code[i]? = some RJUMPI →
    ∃ v, u16At code (i + 1) = some v ∧ TargetIn code (i + 3) v
  /-- RJUMPV: every table entry targets a byte of the section -/
  rjumpv : code[i]? = some RJUMPV →
    ∃ m, code[i + 1]? = some m ∧
      ∀ k, k ≤ m → ∃ v, u16At code (i + 2 + 2 * k) = some v ∧ TargetIn code (i + 2 + 2 * (m + 1)) v

/-- every instruction of the section is `InstrOk` -/
def SectionOk (code : Array Nat) (nTypes nContainers : Nat) : Prop :=
  ∀ j, IsInstrStart code j → InstrOk code nTypes nContainers j

/-- additionally: relative jumps land on instruction starts (not inside immediates) -/
def JumpsOnStarts (code : Array Nat) : Prop :=
  ∀ j, IsInstrStart code j →
    (code[j]? = some RJUMP ∨ code[j]? = some RJUMPI →
      ∀ v, u16At code (j + 1) = some v → IsInstrStart code ((j + 3 : Int) + toI16 v).toNat) ∧
    (code[j]? = some RJUMPV → ∀ m, code[j + 1]? = some m → ∀ k, k ≤ m →
      ∀ v, u16At code (j + 2 + 2 * k) = some v →
        IsInstrStart code ((j + 2 + 2 * (m + 1) : Int) + toI16 v).toNat)

/-- one container: as many type entries as code sections, at least one, and every code section
is `SectionOk` relative to this container's section / sub-container counts -/
structure ContainerOk (e : Eof) : Prop where
  types_len : e.body.typesSection.length = e.body.codeSection.length
  nonempty : 0 < e.body.codeSection.length
  sections : ∀ (k : Nat) (code : List Nat), e.body.codeSection[k]? = some code →
    SectionOk code.toArray e.body.typesSection.length e.body.containerSection.length

/-- a container and, recursively, all its sub-containers: each decodes (`Eof::decode(..).expect(..)`
in EOFCREATE, `EofHeader::decode(..).expect(..)` in RETURNCONTRACT) and is `ContainerOk` -/
inductive DeepOk : Eof → Prop
  | mk (e : Eof) : ContainerOk e →
      (∀ c, c ∈ e.body.containerSection → ∃ e', Eof.decode c = .ok e') →
      (∀ c e', c ∈ e.body.containerSection → Eof.decode c = .ok e' → DeepOk e') → DeepOk e

/-- every code section of the container has all its relative jumps on instruction starts -/
def ContainerJumpsOk (e : Eof) : Prop :=
  ∀ code, code ∈ e.body.codeSection → JumpsOnStarts code.toArray

/-- `ContainerJumpsOk` for a container and, recursively, all its sub-containers -/
inductive DeepJumpsOk : Eof → Prop
  | mk (e : Eof) : ContainerJumpsOk e →
      (∀ c e', c ∈ e.body.containerSection → Eof.decode c = .ok e' → DeepJumpsOk e') → DeepJumpsOk e

/-- `e'` is `e` or a (transitive) sub-container of `e` -/
inductive SubOf : Eof → Eof → Prop
  | refl (e : Eof) : SubOf e e
  | sub {e e1 e2 : Eof} {c : List Nat} : c ∈ e.body.containerSection → Eof.decode c = .ok e1 →
      SubOf e1 e2 → SubOf e e2

end Revm.Spec.Eof
