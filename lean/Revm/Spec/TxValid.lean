import Revm.Model.TxValidate
import Revm.Spec.GasCalc
/-! What "the transaction is valid in its hardfork" *means* (C02): the conjunction of the validity
rules of the Yellow Paper / EIP-155, 2681, 2930, 1559, 3607, 3860, 4399, 4844, 7623, 7691, 7702,
over unbounded `Nat`, per *named hardfork*. Written from the EIPs, not from the code: nothing here
mentions 256-bit or 64-bit arithmetic, a check order, or an error name (the ordered list `rules`
at the end only *names* the rules by the revm error variant that reports them).

Only the record types of the environment (`Cfg`, `Block`, `Tx`, `Sender`) are shared with the model. -/
namespace Revm.Spec.TxValid
open Revm
open Revm.Spec.GasCalc (Fork intrinsicGas floorGas)
open Revm.Model.TxValidate (Cfg Block Tx Sender CodeKind Err)

/-! ### activation of the EIPs -/

/-- EIP-2930 (access-list transactions), Berlin -/
def hasEIP2930 : Fork → Bool
  | .berlin | .london | .arrowGlacier | .grayGlacier | .merge | .shanghai | .cancun | .prague | .osaka
  | .latest => true
  | _ => false
/-- EIP-1559 (fee market, base fee), London -/
def hasEIP1559 : Fork → Bool
  | .london | .arrowGlacier | .grayGlacier | .merge | .shanghai | .cancun | .prague | .osaka | .latest => true
  | _ => false
/-- EIP-3675 / EIP-4399 (the Merge: PREVRANDAO in the header) -/
def hasMerge : Fork → Bool
  | .merge | .shanghai | .cancun | .prague | .osaka | .latest => true
  | _ => false
/-- EIP-3860 (init-code size limit), Shanghai -/
def hasEIP3860 : Fork → Bool
  | .shanghai | .cancun | .prague | .osaka | .latest => true
  | _ => false
/-- EIP-4844 (blob transactions, excess blob gas in the header), Cancun -/
def hasEIP4844 : Fork → Bool
  | .cancun | .prague | .osaka | .latest => true
  | _ => false
/-- EIP-7702 (set-code transactions, delegation designators) and EIP-7623 (calldata floor), Prague -/
def hasEIP7702 : Fork → Bool
  | .prague | .osaka | .latest => true
  | _ => false

/-! ### the rules -/

/-- the block header carries what the fork requires: PREVRANDAO from the Merge, excess blob gas from Cancun -/
def HeaderOk (f : Fork) (blk : Block) : Prop :=
  (hasMerge f → blk.prevrandaoSet = true) ∧ (hasEIP4844 f → blk.blobGasPrice.isSome = true)

/-- EIP-155: a transaction that names a chain must name this chain -/
def ChainIdOk (cfg : Cfg) (tx : Tx) : Prop :=
  match tx.chainId with
  | some c => c = cfg.chainId
  | none => True

/-- the transaction fits into the block -/
def BlockGasOk (blk : Block) (tx : Tx) : Prop := tx.gasLimit ≤ blk.gasLimit

/-- a transaction type exists only from the fork that introduced it (EIP-2930, 1559, 4844, 7702) -/
def TypeOk (f : Fork) (tx : Tx) : Prop :=
  (tx.accessList ≠ [] → hasEIP2930 f = true) ∧
  (tx.priorityFee.isSome = true → hasEIP1559 f = true) ∧
  ((tx.maxFeePerBlobGas.isSome = true ∨ tx.blobHashes ≠ []) → hasEIP4844 f = true) ∧
  (tx.authList.isSome = true → hasEIP7702 f = true)

/-- EIP-1559: `max_priority_fee_per_gas ≤ max_fee_per_gas` and `max_fee_per_gas ≥ base_fee_per_gas`
(for a legacy transaction `gas_price` is both caps) -/
def FeeOk (f : Fork) (blk : Block) (tx : Tx) : Prop :=
  hasEIP1559 f = true →
    (match tx.priorityFee with
     | some p => p ≤ tx.gasPrice
     | none => True) ∧ blk.basefee ≤ tx.gasPrice

/-- EIP-170 code size limit (24576 unless configured) -/
def maxCodeSize (cfg : Cfg) : Nat := cfg.limitContractCodeSize.getD 24576

/-- EIP-3860: init code of a creation transaction is at most `2 * MAX_CODE_SIZE` bytes -/
def InitcodeOk (f : Fork) (cfg : Cfg) (tx : Tx) : Prop :=
  hasEIP3860 f = true → tx.isCreate = true → tx.data.length ≤ 2 * maxCodeSize cfg

/-- EIP-7840 blob schedule: the entry in force is the last one activated at or before the fork
(6 = the Cancun value when the schedule has none) -/
def maxBlobs (cfg : Cfg) (f : Fork) : Nat :=
  cfg.blobSchedule.foldl (fun cur e => if e.1 ≤ f.id then e.2 else cur) 6

/-- EIP-4844: a blob transaction (one that carries `max_fee_per_blob_gas`) pays at least the blob
base fee, has at least one and at most the per-block maximum of blobs, every versioned hash has
version 0x01, and `to` is not nil; any other transaction carries no blob hashes -/
def BlobOk (f : Fork) (cfg : Cfg) (blk : Block) (tx : Tx) : Prop :=
  match tx.maxFeePerBlobGas with
  | some m =>
    (match blk.blobGasPrice with
     | some price => price ≤ m
     | none => True) ∧
    tx.blobHashes ≠ [] ∧ tx.isCreate = false ∧ (∀ v ∈ tx.blobHashes, v = 1) ∧
    tx.blobHashes.length ≤ maxBlobs cfg f
  | none => tx.blobHashes = []

/-- EIP-7702: the authorization list is not empty, `to` is not nil, and the transaction is not
also a blob transaction -/
def AuthOk (tx : Tx) : Prop :=
  match tx.authList with
  | some n => n ≠ 0 ∧ tx.maxFeePerBlobGas = none ∧ tx.blobHashes = [] ∧ tx.isCreate = false
  | none => True

/-- the gas limit covers the intrinsic gas and (EIP-7623) the calldata floor -/
def GasOk (f : Fork) (tx : Tx) : Prop :=
  intrinsicGas f tx.data tx.isCreate tx.accessList (tx.authList.getD 0) ≤ tx.gasLimit ∧
  floorGas f tx.data ≤ tx.gasLimit

/-- EIP-3607: the sender has no code — except, from Prague (EIP-7702), a delegation designator -/
def SenderOk (f : Fork) (snd : Sender) : Prop :=
  snd.code = .empty ∨ (hasEIP7702 f = true ∧ snd.code = .eip7702)

/-- the transaction's nonce is the sender's nonce, and (EIP-2681) it is below 2^64 − 1.
A transaction environment without nonce asks for the nonce check to be skipped. -/
def NonceOk (tx : Tx) (snd : Sender) : Prop :=
  match tx.nonce with
  | some n => n = snd.nonce ∧ n < 2^64 - 1
  | none => True

/-- blob gas of the transaction: 2^17 per blob -/
def blobGas (tx : Tx) : Nat := 131072 * tx.blobHashes.length

/-- the most the sender can be charged: `gas_limit · max_fee_per_gas + value`
(+ `blob_gas · max_fee_per_blob_gas`, EIP-4844) -/
def maxCost (tx : Tx) : Nat :=
  tx.gasLimit * tx.gasPrice + tx.value + (tx.maxFeePerBlobGas.getD 0) * blobGas tx

/-- the sender can pay the maximum cost -/
def FundsOk (tx : Tx) (snd : Sender) : Prop := maxCost tx ≤ snd.balance

/-- **the transaction is valid in hardfork `f`** -/
def ValidTx (f : Fork) (cfg : Cfg) (blk : Block) (tx : Tx) (snd : Sender) : Prop :=
  HeaderOk f blk ∧ ChainIdOk cfg tx ∧ BlockGasOk blk tx ∧ TypeOk f tx ∧ FeeOk f blk tx ∧
  InitcodeOk f cfg tx ∧ BlobOk f cfg blk tx ∧ AuthOk tx ∧ GasOk f tx ∧ SenderOk f snd ∧
  NonceOk tx snd ∧ FundsOk tx snd

/-! ### decidability (the driver evaluates the Spec next to the model) -/

instance (f : Fork) (blk : Block) : Decidable (HeaderOk f blk) := by unfold HeaderOk; infer_instance
instance (cfg : Cfg) (tx : Tx) : Decidable (ChainIdOk cfg tx) := by
  unfold ChainIdOk; split <;> infer_instance
instance (blk : Block) (tx : Tx) : Decidable (BlockGasOk blk tx) := by unfold BlockGasOk; infer_instance
instance (f : Fork) (tx : Tx) : Decidable (TypeOk f tx) := by unfold TypeOk; infer_instance
instance (f : Fork) (blk : Block) (tx : Tx) : Decidable (FeeOk f blk tx) := by
  unfold FeeOk
  cases tx.priorityFee <;> infer_instance
instance (f : Fork) (cfg : Cfg) (tx : Tx) : Decidable (InitcodeOk f cfg tx) := by
  unfold InitcodeOk; infer_instance
instance (f : Fork) (cfg : Cfg) (blk : Block) (tx : Tx) : Decidable (BlobOk f cfg blk tx) := by
  unfold BlobOk
  cases tx.maxFeePerBlobGas with
  | none => infer_instance
  | some m => cases blk.blobGasPrice <;> infer_instance
instance (tx : Tx) : Decidable (AuthOk tx) := by unfold AuthOk; split <;> infer_instance
instance (f : Fork) (tx : Tx) : Decidable (GasOk f tx) := by unfold GasOk; infer_instance
instance (f : Fork) (snd : Sender) : Decidable (SenderOk f snd) := by unfold SenderOk; infer_instance
instance (tx : Tx) (snd : Sender) : Decidable (NonceOk tx snd) := by
  unfold NonceOk; split <;> infer_instance
instance (tx : Tx) (snd : Sender) : Decidable (FundsOk tx snd) := by unfold FundsOk; infer_instance
instance (f : Fork) (cfg : Cfg) (blk : Block) (tx : Tx) (snd : Sender) :
    Decidable (ValidTx f cfg blk tx snd) := by unfold ValidTx; infer_instance

/-! ### the rules one by one, named by the revm error variant that reports a violation

The ORDER of this list is the order in which revm checks (it is not part of the meaning of
validity; it only decides which violated rule is *reported*). Two rules of `ValidTx` have no
variant in revm and therefore do not occur: "a priority fee only from London" and "a delegation
designator as sender code only from Prague" (see `Props/C02.lean`). -/

/-- a rule: the variant that reports it, and whether it holds -/
abbrev Rule := Err × Bool

/-- `max_priority_fee_per_gas ≤ max_fee_per_gas` -/
def PriorityOk (tx : Tx) : Prop :=
  match tx.priorityFee with
  | some p => p ≤ tx.gasPrice
  | none => True
/-- `max_fee_per_blob_gas ≥ blob base fee` -/
def BlobPriceOk (blk : Block) (tx : Tx) : Prop :=
  match tx.maxFeePerBlobGas, blk.blobGasPrice with
  | some m, some price => price ≤ m
  | _, _ => True
def NonceNotHigh (tx : Tx) (snd : Sender) : Prop :=
  match tx.nonce with
  | some n => n ≤ snd.nonce
  | none => True
def NonceNotLow (tx : Tx) (snd : Sender) : Prop :=
  match tx.nonce with
  | some n => snd.nonce ≤ n
  | none => True
def NonceNotMax (tx : Tx) : Prop :=
  match tx.nonce with
  | some n => n < 2^64 - 1
  | none => True
instance (tx : Tx) : Decidable (PriorityOk tx) := by unfold PriorityOk; split <;> infer_instance
instance (blk : Block) (tx : Tx) : Decidable (BlobPriceOk blk tx) := by
  unfold BlobPriceOk; split <;> infer_instance
instance (tx : Tx) (snd : Sender) : Decidable (NonceNotHigh tx snd) := by
  unfold NonceNotHigh; split <;> infer_instance
instance (tx : Tx) (snd : Sender) : Decidable (NonceNotLow tx snd) := by
  unfold NonceNotLow; split <;> infer_instance
instance (tx : Tx) : Decidable (NonceNotMax tx) := by unfold NonceNotMax; split <;> infer_instance

def rulesHeader (f : Fork) (blk : Block) : List Rule :=
  [(.PrevrandaoNotSet, decide (hasMerge f = true → blk.prevrandaoSet = true)),
   (.ExcessBlobGasNotSet, decide (hasEIP4844 f = true → blk.blobGasPrice.isSome = true))]

def rulesTx (f : Fork) (cfg : Cfg) (blk : Block) (tx : Tx) : List Rule :=
  [(.InvalidChainId, decide (ChainIdOk cfg tx)),
   (.CallerGasLimitMoreThanBlock, decide (BlockGasOk blk tx)),
   (.AccessListNotSupported, decide (tx.accessList ≠ [] → hasEIP2930 f = true)),
   (.PriorityFeeGreaterThanMaxFee, decide (hasEIP1559 f = true → PriorityOk tx)),
   (.GasPriceLessThanBasefee, decide (hasEIP1559 f = true → blk.basefee ≤ tx.gasPrice)),
   (.CreateInitCodeSizeLimit, decide (InitcodeOk f cfg tx)),
   (.BlobVersionedHashesNotSupported,
      decide ((tx.maxFeePerBlobGas.isSome = true ∨ tx.blobHashes ≠ []) → hasEIP4844 f = true)),
   (.BlobGasPriceGreaterThanMax, decide (BlobPriceOk blk tx)),
   (.EmptyBlobs, decide (tx.maxFeePerBlobGas.isSome = true → tx.blobHashes ≠ [])),
   (.BlobCreateTransaction, decide (tx.maxFeePerBlobGas.isSome = true → tx.isCreate = false)),
   (.BlobVersionNotSupported, decide (tx.maxFeePerBlobGas.isSome = true → ∀ v ∈ tx.blobHashes, v = 1)),
   (.TooManyBlobs, decide (tx.maxFeePerBlobGas.isSome = true → tx.blobHashes.length ≤ maxBlobs cfg f)),
   (.BlobVersionedHashesNotSupported, decide (tx.maxFeePerBlobGas = none → tx.blobHashes = [])),
   (.AuthorizationListNotSupported, decide (tx.authList.isSome = true → hasEIP7702 f = true)),
   (.EmptyAuthorizationList, decide (tx.authList ≠ some 0)),
   (.AuthorizationListInvalidFields,
      decide (tx.authList.isSome = true → tx.maxFeePerBlobGas = none ∧ tx.blobHashes = [])),
   (.AuthorizationListInvalidFields, decide (tx.authList.isSome = true → tx.isCreate = false))]

def rulesGas (f : Fork) (tx : Tx) : List Rule :=
  [(.CallGasCostMoreThanGasLimit,
      decide (intrinsicGas f tx.data tx.isCreate tx.accessList (tx.authList.getD 0) ≤ tx.gasLimit)),
   (.GasFloorMoreThanGasLimit, decide (floorGas f tx.data ≤ tx.gasLimit))]

def rulesState (tx : Tx) (snd : Sender) : List Rule :=
  [(.RejectCallerWithCode, decide (snd.code ≠ .other)),
   (.NonceTooHigh, decide (NonceNotHigh tx snd)),
   (.NonceTooLow, decide (NonceNotLow tx snd)),
   (.NonceOverflowInTransaction, decide (NonceNotMax tx)),
   (.OverflowPaymentInTransaction, decide (maxCost tx < 2^256)),
   (.LackOfFundForMaxFee, decide (maxCost tx ≤ snd.balance))]

/-- all rules, in revm's order of checking -/
def rules (f : Fork) (cfg : Cfg) (blk : Block) (tx : Tx) (snd : Sender) : List Rule :=
  rulesHeader f blk ++ rulesTx f cfg blk tx ++ rulesGas f tx ++ rulesState tx snd

/-- the variant of the first rule of the list that is violated -/
def firstViolated : List Rule → Option Err
  | [] => none
  | (e, holds) :: rest => if holds then firstViolated rest else some e

end Revm.Spec.TxValid
