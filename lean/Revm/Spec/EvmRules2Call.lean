import Revm.Spec.EvmRules2
import Revm.Spec.Gas
/-! Yellow-Paper-style rules of the instructions that start a CHILD frame, and of the re-entry of its result (C01,
family (f) of `Spec/EvmRules2.lean`): CALL, CALLCODE, DELEGATECALL (EIP-7), STATICCALL (EIP-214), CREATE, CREATE2
(EIP-1014).

Sources: Yellow Paper section 9.4 and appendix H.2 (`0xf0` … `0xfa`: δ, the memory ranges `μ_s[3..6]`, `C_CALL`,
`C_GASCAP`, `C_EXTRA`, `C_XFER`, `C_NEW`, the stipend `G_callstipend`), EIP-150 ("all but one 64th"), EIP-161 (new
account only with value), EIP-2929 (cold / warm), EIP-7702 (the delegate's access), EIP-3860 (init code limit and word
cost), EIP-211 (return-data buffer), EIP-7069 (the status word of EOF calls).

Shape. A call instruction asks the host ONE question (`loadAccountDelegated to`), prices the call from the answer
and hands `Action.call inputs` to the frame machine; a create instruction asks nothing and hands `Action.create`.
When the child is finished the frame machine re-enters the frame with its `ChildResult`
(`insertCallOutcomeRule` / `insertCreateOutcomeRule`).

The instructions take their operands in groups (gas, address, value one at a time; then the four memory operands at
once; the salt of CREATE2 last): a stack underflow leaves the groups already taken removed. The gas arithmetic is that
of `Spec/GasCalc.lean` and `Spec/Gas.lean` (unbounded numbers). -/
namespace Revm.Spec.EvmRules2
open Revm Revm.Model Revm.Model.Interp
open Revm.Spec.EvmRules
open Revm.Model.GasCalc (enabled)
open Revm.Spec.GasCalc (Fork ceil32 memCost)

/-! ## forks of activation -/

/-- EIP-214 (STATICCALL) and EIP-211 / EIP-140: Byzantium -/
def hasEIP214 : Fork → Bool
  | .frontier | .frontierThawing | .homestead | .daoFork | .tangerine | .spuriousDragon => false
  | _ => true

/-- CREATE2 (EIP-1014). On main net it came with Constantinople; the implementation executes Constantinople as
Petersburg (`spec_to_generic!`, `GasCalc.canon`) and its instruction table asks for `PETERSBURG`, so does this table:
the fork `constantinople` itself never reaches the interpreter. -/
def hasCreate2 : Fork → Bool
  | .frontier | .frontierThawing | .homestead | .daoFork | .tangerine | .spuriousDragon | .byzantium
  | .constantinople => false
  | _ => true

/-! ## the memory ranges of a call -/

/-- one `(offset, length)` operand pair of a call: a zero length touches nothing and ignores the offset; a length or
a (needed) offset that does not fit 64 bits is `InvalidOperandOOG` (no gas could pay for it); else the expansion -/
def rangeAccess (s : IState) (off len : Nat) (k : IState → Outcome) : Outcome :=
  if U64 ≤ len then .halt .InvalidOperandOOG [] s
  else if len = 0 then k s
  else if U64 ≤ off then .halt .InvalidOperandOOG [] s
  else memAccessO s off len k

/-- the window `[start, end)` handed to the frame machine for the output; the empty window is `usize::MAX..usize::MAX` -/
def retWindow (off len : Nat) : Nat × Nat := if len = 0 then (U64 - 1, U64 - 1) else (off, off + len)

/-- in-range first, then out-range; the call input `μ[inOff .. inOff + inLen)` is read between the two expansions -/
def callMem (s : IState) (inOff inLen outOff outLen : Nat) (k : IState → List Nat → Nat × Nat → Outcome) : Outcome :=
  rangeAccess s inOff inLen fun s1 =>
    rangeAccess s1 outOff outLen fun s2 =>
      k s2 (if inLen = 0 then [] else load (memOf s1) inOff inLen) (retWindow outOff outLen)

/-! ## the price of a call and the gas of the child -/

/-- the gas word saturated to 64 bits -/
def gasWord (g : Nat) : Nat := min g (U64 - 1)

/-- `C_GASCAP`: from EIP-150 at most all but one 64th of what is left after the access cost, before it the request -/
def forwardedGas (f : Fork) (g : Gas.Gas) (requested : Nat) : Nat :=
  if f.hasEIP150 then min (Spec.Gas.remaining63of64 (Spec.Gas.abs g)) requested else requested

/-- what a CALL-family instruction does with the host's answer `r` about the callee, on the state `s` left after the
memory ranges: a host failure is `FatalExternalError`; the access cost `C_EXTRA` (`Spec.GasCalc.callCost`: account
access per EIP-150 / 2929 / 7702, `G_callvalue` with value, `G_newaccount` per EIP-161) is charged; then the gas
forwarded to the child is charged (before EIP-150 the request itself, which the frame may be unable to pay). With
value the child additionally receives the stipend `G_callstipend = 2300`, which the caller does not pay.
`countsEmpty`: only CALL can create the callee account. `mk limit` are the inputs of the child. -/
def callAfter (f : Fork) (s : IState) (requested : Nat) (transfers countsEmpty : Bool) (mk : Nat → CallInputs)
    (r : HostResp) : Done :=
  if !r.ok then .halt .FatalExternalError [] s
  else needGas s (Spec.GasCalc.callCost f transfers r.isCold r.delegCold (countsEmpty && r.isEmpty)) fun s1 =>
    needGas s1 (forwardedGas f s1.gas requested) fun s2 =>
      .action (.call (mk (if transfers then forwardedGas f s1.gas requested + 2300
                          else forwardedGas f s1.gas requested))) s2

/-- the part common to the four calls, on the state `s1` left after gas, address (and value) were taken and with the
words `ops` below them: the four memory operands (taken at once), the two ranges, the question, the answer -/
def callBody (f : Fork) (s1 : IState) (ops : List Nat) (to requested : Nat) (transfers countsEmpty : Bool)
    (mk : List Nat → Nat × Nat → Nat → CallInputs) : Outcome :=
  match ops with
  | inOff :: inLen :: outOff :: outLen :: rest =>
    callMem { s1 with stack := rest.reverse } inOff inLen outOff outLen fun s3 input win =>
      .host (.loadAccountDelegated to) (callAfter f s3 requested transfers countsEmpty (mk input win))
  | _ => .halt .StackUnderflow [] s1

/-! ## CALL, CALLCODE, DELEGATECALL, STATICCALL -/

/-- CALL: δ = 7, α = 1 (pushed on re-entry). A call with value in a static context is
`CallNotAllowedInsideStatic` (EIP-214; checked as soon as the value is known). The callee runs its own code in its own
account, the caller is the executing account, the value is transferred, the static flag is inherited. -/
def callRule (f : Fork) (s : IState) : Outcome :=
  match s.stack.reverse with
  | g :: to :: value :: ops =>
    let s1 := { adv s with stack := ops.reverse }
    if s.isStatic ∧ value ≠ 0 then .halt .CallNotAllowedInsideStatic [] s1
    else callBody f s1 ops (addrOf to) (gasWord g) (decide (value ≠ 0)) true fun input win limit =>
      { input := input, retStart := win.1, retEnd := win.2, gasLimit := limit, bytecodeAddress := addrOf to,
        targetAddress := addrOf to, caller := s.target, valueTransfer := true, value := value, scheme := .call,
        isStatic := s.isStatic, isEof := false }
  | _ => .halt .StackUnderflow [] { adv s with stack := [] }

/-- CALLCODE: δ = 7; the callee's code runs in the executing account (target and caller are the executing account);
the value is "transferred" to oneself, so it is allowed in a static context; never a new account -/
def callcodeRule (f : Fork) (s : IState) : Outcome :=
  match s.stack.reverse with
  | g :: to :: value :: ops =>
    callBody f { adv s with stack := ops.reverse } ops (addrOf to) (gasWord g) (decide (value ≠ 0)) false
      fun input win limit =>
        { input := input, retStart := win.1, retEnd := win.2, gasLimit := limit, bytecodeAddress := addrOf to,
          targetAddress := s.target, caller := s.target, valueTransfer := true, value := value, scheme := .callCode,
          isStatic := s.isStatic, isEof := false }
  | _ => .halt .StackUnderflow [] { adv s with stack := [] }

/-- DELEGATECALL (EIP-7, Homestead): δ = 6; the callee's code runs in the executing account with the caller and the
(apparent, not transferred) value of the executing frame -/
def delegatecallRule (f : Fork) (s : IState) : Outcome :=
  if !f.hasEIP2 then .halt .NotActivated [] (adv s)
  else match s.stack.reverse with
    | g :: to :: ops =>
      callBody f { adv s with stack := ops.reverse } ops (addrOf to) (gasWord g) false false
        fun input win limit =>
          { input := input, retStart := win.1, retEnd := win.2, gasLimit := limit, bytecodeAddress := addrOf to,
            targetAddress := s.target, caller := s.caller, valueTransfer := false, value := s.callValue,
            scheme := .delegateCall, isStatic := s.isStatic, isEof := false }
    | _ => .halt .StackUnderflow [] { adv s with stack := [] }

/-- STATICCALL (EIP-214, Byzantium): δ = 6; a CALL with value 0 whose child (and everything below it) is static -/
def staticcallRule (f : Fork) (s : IState) : Outcome :=
  if !hasEIP214 f then .halt .NotActivated [] (adv s)
  else match s.stack.reverse with
    | g :: to :: ops =>
      callBody f { adv s with stack := ops.reverse } ops (addrOf to) (gasWord g) false false
        fun input win limit =>
          { input := input, retStart := win.1, retEnd := win.2, gasLimit := limit, bytecodeAddress := addrOf to,
            targetAddress := addrOf to, caller := s.target, valueTransfer := true, value := 0,
            scheme := .staticCall, isStatic := true, isEof := false }
    | _ => .halt .StackUnderflow [] { adv s with stack := [] }

/-! ## CREATE, CREATE2 -/

/-- the init code `μ[off .. off + len)`: nothing is checked, paid or touched for `len = 0`; from Shanghai (EIP-3860)
more than `maxInitcodeSize` bytes (twice the code size limit: 49152) is `CreateInitCodeSizeLimit` and every word costs
`2`; then the offset must fit 64 bits and the range is made addressable -/
def initCodeAccess (f : Fork) (s : IState) (off len : Nat) (k : IState → List Nat → Done) : Done :=
  if len = 0 then k s []
  else
    let read := fun (s1 : IState) =>
      if U64 ≤ off then .halt .InvalidOperandOOG [] s1
      else memAccess s1 off len fun s2 => k s2 (load (memOf s2) off len)
    if f.hasEIP3860 then
      if maxInitcodeSize s.env < len then .halt .CreateInitCodeSizeLimit [] s
      else needGas s (Spec.GasCalc.initcodeCost len) read
    else read s

/-- the gas of the child of a create: all but one 64th of what is left from EIP-150, before it everything -/
def createGas (f : Fork) (g : Gas.Gas) : Nat :=
  if f.hasEIP150 then Spec.Gas.remaining63of64 (Spec.Gas.abs g) else g.remaining

/-- the end of CREATE / CREATE2 once the scheme's charge is paid: the child's gas leaves the meter, the action -/
def createEmit (f : Fork) (s0 s : IState) (salt : Option Nat) (value : Nat) (code : List Nat) : Done :=
  .action (.create { caller := s0.target, salt := salt, value := value, initCode := code,
                     gasLimit := createGas f s.gas }) (charge s (createGas f s.gas))

/-- CREATE (δ = 3) and CREATE2 (EIP-1014, δ = 4), α = 1 (pushed on re-entry): forbidden in a static context (checked
first); value, offset and length are taken at once, the salt of CREATE2 after the init code was read; CREATE pays
`G_create = 32000`, CREATE2 `G_create + G_keccak256word · ⌈len / 32⌉`; the creator is the executing account -/
def createRule (f : Fork) (isCreate2 : Bool) (s : IState) : Done :=
  if s.isStatic then .halt .StateChangeDuringStaticCall [] (adv s)
  else if isCreate2 && !hasCreate2 f then .halt .NotActivated [] (adv s)
  else match s.stack.reverse with
    | value :: off :: len :: rest =>
      let s1 := { adv s with stack := rest.reverse }
      if U64 ≤ len then .halt .InvalidOperandOOG [] s1
      else initCodeAccess f s1 off len fun s2 code =>
        if isCreate2 then
          match rest with
          | salt :: rest' =>
            needGas { s2 with stack := rest'.reverse } (Spec.GasCalc.create2Cost len) fun s3 =>
              createEmit f s s3 (some salt) value code
          | [] => .halt .StackUnderflow [] s2
        else needGas s2 GasCalc.CREATE fun s3 => createEmit f s s3 none value code
    | _ => .halt .StackUnderflow [] (adv s)

/-! ## re-entry of the child's result

`Done.next s'`: the frame continues in `s'`; `Done.fault .panic`: the child reported `FatalExternalError` (a database
error), which the frame machine never hands back to a frame. -/

/-- the gas meter as an unbounded `Spec.Gas.Meter` and back -/
def setMeter (s : IState) (m : Spec.Gas.Meter) : IState :=
  { s with gas := { limit := m.limit, remaining := m.remaining, refunded := m.refunded } }

/-- gas on re-entry (Yellow Paper (130) … (133), EIP-140): a child that ended normally or reverted gives its unused
gas back, every other end keeps it; only a child that ended normally adds its refund counter -/
def settle (m : Spec.Gas.Meter) (o : ChildResult) : Spec.Gas.Meter :=
  if o.result.isOk then Spec.Gas.refund (Spec.Gas.giveBack m o.gasRemaining) o.gasRefunded
  else if o.result.isRevert then Spec.Gas.giveBack m o.gasRemaining
  else m

/-- the status word of a call: 1 success, 0 otherwise; in EOF code (EXT*CALL, EIP-7069) 0 success, 1 revert,
2 failure -/
def callStatus (isEof : Bool) (r : IResult) : Nat :=
  if r.isOk then (if isEof then 0 else 1)
  else if r.isRevert then (if isEof then 1 else 0)
  else (if isEof then 2 else 0)

/-- re-entry after a call with return window `[retStart, retEnd)`: the return-data buffer is the child's output
(EIP-211); for a normal end and for a revert the first `min(window, |output|)` bytes of the output are written at
`retStart` (nothing for an empty write); gas per `settle`; the status word is pushed -/
def insertCallOutcomeRule (retStart retEnd : Nat) (o : ChildResult) (s : IState) : Done :=
  if o.result = .FatalExternalError then .fault .panic
  else
    let n := min (retEnd - retStart) o.output.length
    let s1 := setMeter { s with returnData := o.output } (settle (Spec.Gas.abs s.gas) o)
    let s2 := if (o.result.isOk ∨ o.result.isRevert) ∧ n ≠ 0
              then setMem s1 (store (memOf s1) retStart (o.output.take n)) else s1
    .next { s2 with stack := s.stack ++ [callStatus s.isEof o.result] }

/-- re-entry after a create: the return-data buffer is the child's output only when it reverted, else empty
(EIP-211); the address of the new contract is pushed for a normal end, 0 otherwise; gas per `settle` -/
def insertCreateOutcomeRule (o : ChildResult) (s : IState) : Done :=
  if o.result = .FatalExternalError then .fault .panic
  else
    let s1 := setMeter { s with returnData := if o.result.isRevert then o.output else [] }
                (settle (Spec.Gas.abs s.gas) o)
    .next { s1 with stack := s.stack ++ [if o.result.isOk then o.address.getD 0 else 0] }

end Revm.Spec.EvmRules2
