import Revm.Spec.AccessSets
import Revm.Spec.JournalAbs
/-! C34 — the access-set machine of `Spec/AccessSets.lean` run in lockstep with a history of
`JournaledState` operations: which accesses an operation makes, which `is_cold` bits it reports, how the
checkpoint discipline of the frame machine looks, and the transaction-level pre-warming of
`handler/mainnet/pre_execution.rs` + `set_precompiles` + the first frame as a list of operations. -/
namespace Revm.Spec.AccessHistory
open Revm Revm.Model.Journal Revm.Spec.JournalAbs
open Revm.Spec.AccessSets (Access Sets State)

/-- the accesses an operation makes, in order (EIP-2929: account accesses of the `load_*` family, of
`transfer` and of the SELFDESTRUCT target; slot accesses of `sload` / `sstore`) -/
def accessesOf (db : Db) (s : JState) : Op → List Access
  | .load a => [.addr a]
  | .loadCode a => [.addr a]
  | .loadDelegated a => .addr a :: ((delegateOf db s a).map Access.addr).toList
  | .transfer f t _ => [.addr f, .addr t]
  | .sload a k => [.slot a k]
  | .sstore a k _ => [.slot a k]
  | .selfdestruct _ t => [.addr t]
  | _ => []

/-- the operations whose result carries `is_cold` -/
def exposes : Op → Bool
  | .load _ | .loadCode _ | .loadDelegated _ | .sload _ _ | .sstore _ _ _ | .selfdestruct _ _ => true
  | _ => false

/-- the `is_cold` bits the model operation reports (`load_account_delegated`: the account, then the
delegation target if there is one) -/
def coldBits (db : Db) (s : JState) : Op → Option (List Bool)
  | .load a => (loadAccount db s a).map fun x => [x.2]
  | .loadCode a => (loadCode db s a).map fun x => [x.2]
  | .loadDelegated a => (loadAccountDelegated db s a).map fun x => x.2.2.1 :: x.2.2.2.toList
  | .sload a k => (sload db s a k).map fun x => [x.2.2]
  | .sstore a k v => (sstore db s a k v).map fun x => [x.2.2.2.2]
  | .selfdestruct a t => (selfdestruct db s a t).map fun x => [x.2.2.2.2]
  | _ => some []

def prewarmAll (st : State) (xs : List Access) : State := xs.foldl AccessSets.prewarm st

/-- one step of the set machine along the model step `r → r'`: `checkpoint` (and a creation that handed
out a checkpoint) saves a copy, `revert i` restores copy `i` (plus the pre-warmed set), `initial_account_load`
pre-warms, every other operation performs its accesses; the reply is the predicted `is_cold` bits -/
def specStep (db : Db) (r r' : Run) (st : State) : Op → Option (State × List Bool)
  | .checkpoint => some (AccessSets.checkpoint st, [])
  | .create _ _ _ _ _ => some (if r.cps.length < r'.cps.length then AccessSets.checkpoint st else st, [])
  | .commit => some (AccessSets.commit st, [])
  | .revert i => (AccessSets.revert st i).map (·, [])
  | .initLoad a ks => some (prewarmAll st (Access.addr a :: ks.map (Access.slot a)), [])
  | op => some (AccessSets.accessAll st (accessesOf db r.js op))

/-- transaction-level pre-warming happens before the first checkpoint, on an account that is absent, or present
but neither cold nor created in this transaction and whose named slots are absent or warm (`load_access_list`
runs first, on an empty journaled state) -/
def initLoadOk (r : Run) (a : Addr) (ks : List Nat) : Bool :=
  r.cps.isEmpty &&
    (match r.js.state a with
     | some acc => !acc.cold && !acc.created &&
         ks.all (fun k => match acc.storage k with | some sl => !sl.cold | none => true)
     | none => true)

/-- the discipline of the frame machine (`open_`: indices of the open checkpoints, outermost first): a frame
commits or reverts its own checkpoint; a revert may name an outer open checkpoint and closes everything
inside it; transaction-level pre-warming happens before the first checkpoint, on an account that is neither
cold nor created in this transaction and whose named slots are not cold -/
def wnStep (open_ : List Nat) (r r' : Run) : Op → Option (List Nat)
  | .checkpoint => some (open_ ++ [r.cps.length])
  | .create _ _ _ _ _ => some (if r.cps.length < r'.cps.length then open_ ++ [r.cps.length] else open_)
  | .commit => if open_ = [] then none else some open_.dropLast
  | .revert i => if i ∈ open_ then some (open_.filter (· < i)) else none
  | .initLoad a ks => if initLoadOk r a ks then some open_ else none
  | _ => some open_

/-- the admissibility conditions of C06 that do not concern the checkpoint discipline -/
def admOp (db : Db) (hasStorage : Addr → Bool) (r : Run) : Op → Bool
  | .revert _ => true
  | .initLoad _ _ => true
  | op => admissible db hasStorage 0 r op

/-- model, set machine and open-checkpoint stack in lockstep -/
structure Lock where
  r : Run
  st : State
  open_ : List Nat

def lockStep (db : Db) (hasStorage : Addr → Bool) (l : Lock) (op : Op) : Option Lock :=
  if admOp db hasStorage l.r op then
    match step db l.r op with
    | none => none
    | some r' =>
      match wnStep l.open_ l.r r' op, specStep db l.r r' l.st op with
      | some o', some (st', _) => some { r := r', st := st', open_ := o' }
      | _, _ => none
  else none

def lockRun (db : Db) (hasStorage : Addr → Bool) (l : Lock) : List Op → Option Lock
  | [] => some l
  | op :: ops => match lockStep db hasStorage l op with
    | some l' => lockRun db hasStorage l' ops
    | none => none

/-- the start of a transaction: `JournaledState::new(spec, warm_preloaded_addresses)` -/
def Lock.init (spec : Nat) (pre : Addr → Bool) : Lock :=
  { r := { js := JState.new spec pre, cps := [] },
    st := State.init { addrs := pre, slots := fun _ _ => false }, open_ := [] }

/-! ## the transaction-level pre-warming the code performs -/

/-- `BLOCKHASH_STORAGE_ADDRESS` of `primitives/src/constants.rs` (on no EIP access list; kept for the regression theorem) -/
def BLOCKHASH_STORAGE_ADDRESS : Addr := 0x25a219378dad9b3503c8268c9ca836a52427a4fb

/-- `warm_preloaded_addresses` after `load_accounts` (coinbase from Shanghai) and `set_precompiles`. (Until the
repair eeb6165b in /repo, `load_accounts` also inserted `BLOCKHASH_STORAGE_ADDRESS` from Prague.) -/
def codePreloaded (e : AccessSets.TxEnv) : List Addr :=
  (if e.spec ≥ AccessSets.SHANGHAI then [e.coinbase] else []) ++ e.precompiles

/-- the journal operations of the pre-execution phase and of the first frame, in the order of
`transact_preverified_inner`: `load_access_list` (`initial_account_load` per item), `deduct_caller`
(`load_account(caller)`), `apply_eip7702_auth_list` (`load_code(authority)` per valid tuple, Prague),
then `make_call_frame` (`load_account_delegated(recipient)`) or `make_create_frame`
(`load_account(created)`) -/
def codePrewarmOps (e : AccessSets.TxEnv) (isCreate : Bool) : List Op :=
  e.accessList.map (fun x => Op.initLoad x.1 x.2) ++ [Op.load e.sender] ++
  (if e.spec ≥ AccessSets.PRAGUE then e.authorities.map Op.loadCode else []) ++
  [if isCreate then Op.load e.target else Op.loadDelegated e.target]

end Revm.Spec.AccessHistory
