/-! EIP-4844 helpers over unbounded integers.

```python
def fake_exponential(factor: int, numerator: int, denominator: int) -> int:
    i = 1
    output = 0
    numerator_accum = factor * denominator
    while numerator_accum > 0:
        output += numerator_accum
        numerator_accum = (numerator_accum * numerator) // (denominator * i)
        i += 1
    return output // denominator

def calc_excess_blob_gas(parent): max(0, parent.excess_blob_gas + parent.blob_gas_used - TARGET)
```
The Python loop is written with a `fuel` (iterations allowed); `FakeExp f n d r` says the loop
terminates with value `r` (Proofs: the value is unique, and the loop always terminates). -/
namespace Revm.Spec.Blob

/-- the EIP loop; `none` = not finished within `fuel` iterations -/
def fakeExpLoop : (fuel i output accum numerator denominator : Nat) → Option Nat
  | 0, _, _, _, _, _ => none
  | fuel+1, i, output, accum, numerator, denominator =>
    if accum > 0 then
      fakeExpLoop fuel (i + 1) (output + accum) (accum * numerator / (denominator * i)) numerator denominator
    else some (output / denominator)

def fakeExpFuel (fuel factor numerator denominator : Nat) : Option Nat :=
  fakeExpLoop fuel 1 0 (factor * denominator) numerator denominator

/-- the EIP-4844 `fake_exponential` over unbounded integers returns `r` -/
def FakeExp (factor numerator denominator r : Nat) : Prop :=
  ∃ fuel, fakeExpFuel fuel factor numerator denominator = some r

/-- every intermediate value computed by the EIP loop on the way (the running `output`, the product
`accum * numerator`, the product `denominator * i`, the counter) is below `bound`.
`true` when the loop does not finish within the fuel only if all values seen so far fit. -/
def loopFits (bound : Nat) : (fuel i output accum numerator denominator : Nat) → Bool
  | 0, _, _, _, _, _ => true
  | fuel+1, i, output, accum, numerator, denominator =>
    if accum > 0 then
      decide (output + accum < bound) && decide (accum * numerator < bound)
        && decide (denominator * i < bound) && decide (i + 1 < bound)
        && loopFits bound fuel (i + 1) (output + accum) (accum * numerator / (denominator * i)) numerator denominator
    else true

/-- `NoIntermediateOverflow`: the unbounded computation terminates within `fuel` iterations and none
of its intermediate values reaches 2^128. (Exact: the debug build panics iff this fails, see
`Proofs.Blob.debug_ok_iff`.) -/
def fitsFuel (fuel factor numerator denominator : Nat) : Bool :=
  decide (factor * denominator < 2^128) && loopFits (2^128) fuel 1 0 (factor * denominator) numerator denominator

def NoIntermediateOverflow (factor numerator denominator : Nat) : Prop :=
  ∃ fuel, (fakeExpFuel fuel factor numerator denominator).isSome ∧ fitsFuel fuel factor numerator denominator = true

/-- `max(0, excess + used − target)` over the integers -/
def excessBlobGas (parentExcess parentUsed target : Nat) : Int :=
  max 0 ((parentExcess : Int) + (parentUsed : Int) - (target : Int))

def blobGaspriceFuel (fuel excess : Nat) (isPrague : Bool) : Option Nat :=
  fakeExpFuel fuel 1 excess (if isPrague then 5007716 else 3338477)

end Revm.Spec.Blob
