/-! EIP-4844 helpers over unbounded integers.

```python
def fake_exponential(factor: int, numerator: int, denominator: int) -> int:
    i = 1
    output = 0
    numerator_accum = factor * denominator
    while numerator_accum > 0:
        output += numerator_accum
        numerator_accum = (numerator_accum * numerator) // (denominator * i)
        i += 1
    return output // denominator

def calc_excess_blob_gas(parent): max(0, parent.excess_blob_gas + parent.blob_gas_used - TARGET)
```
The Python loop is written with a `fuel` (iterations allowed); `FakeExp f n d r` says the loop
terminates with value `r` (Proofs: the value is unique, and the loop always terminates).

The implementation returns fixed-width integers, so the property compares it with the EIP value
*clamped* to the return type: `min r (2^128 − 1)` and `min (max 0 (a+b−t)) (2^64 − 1)`. -/
namespace Revm.Spec.Blob

/-- the EIP loop; `none` = not finished within `fuel` iterations -/
def fakeExpLoop : (fuel i output accum numerator denominator : Nat) → Option Nat
  | 0, _, _, _, _, _ => none
  | fuel+1, i, output, accum, numerator, denominator =>
    if accum > 0 then
      fakeExpLoop fuel (i + 1) (output + accum) (accum * numerator / (denominator * i)) numerator denominator
    else some (output / denominator)

def fakeExpFuel (fuel factor numerator denominator : Nat) : Option Nat :=
  fakeExpLoop fuel 1 0 (factor * denominator) numerator denominator

/-- the EIP-4844 `fake_exponential` over unbounded integers returns `r` -/
def FakeExp (factor numerator denominator r : Nat) : Prop :=
  ∃ fuel, fakeExpFuel fuel factor numerator denominator = some r

/-- the EIP value clamped to `u128` -/
def clamp128 (r : Nat) : Nat := min r (2^128 - 1)

/-- An executable way to obtain `clamp128` of the EIP value without running the unbounded loop to
its end (which takes about `e · numerator / denominator` iterations): `output` only grows, so as soon
as `output ≥ 2^128 · denominator` the final quotient is at least 2^128. Still unbounded integers, no
machine arithmetic. `Proofs.Blob.sat_eq_clamp` proves it equal to `clamp128 r`. This is the Spec
column of the correspondence stream. -/
def fakeExpSatLoop : (fuel i output accum numerator denominator : Nat) → Option Nat
  | 0, _, _, _, _, _ => none
  | fuel+1, i, output, accum, numerator, denominator =>
    if output ≥ 2^128 * denominator then some (2^128 - 1)
    else if accum > 0 then
      fakeExpSatLoop fuel (i + 1) (output + accum) (accum * numerator / (denominator * i)) numerator denominator
    else some (output / denominator)

def fakeExpSat (fuel factor numerator denominator : Nat) : Option Nat :=
  fakeExpSatLoop fuel 1 0 (factor * denominator) numerator denominator

/-- `max(0, excess + used − target)` over the integers -/
def excessBlobGas (parentExcess parentUsed target : Nat) : Int :=
  max 0 ((parentExcess : Int) + (parentUsed : Int) - (target : Int))

/-- the same clamped to `u64` -/
def excessBlobGasClamped (parentExcess parentUsed target : Nat) : Int :=
  min (excessBlobGas parentExcess parentUsed target) (2^64 - 1)

def fraction (isPrague : Bool) : Nat := if isPrague then 5007716 else 3338477

def blobGaspriceFuel (fuel excess : Nat) (isPrague : Bool) : Option Nat :=
  fakeExpFuel fuel 1 excess (fraction isPrague)

end Revm.Spec.Blob
