#!/bin/sh
# Build the framework offline from files on disk: Lean project (all property theorems + model driver)
# and the Rust correspondence harness against /repo's working tree.
set -e
cd "$(dirname "$0")"
export CARGO_NET_OFFLINE=true
mkdir -p work evidence/replays
(cd harness && cargo build --release --offline --target-dir target-default) || echo "setup: harness build failed (checks will report it)"
if [ -x harness/target-default/release/tables ]; then
  harness/target-default/release/tables | python3 tools/tables2lean.py > work/Tables.lean.new && \
    (cmp -s work/Tables.lean.new lean/Revm/Gen/Tables.lean || cp work/Tables.lean.new lean/Revm/Gen/Tables.lean)
fi
(cd lean && lake build Revm revm_model) || echo "setup: lake build failed (checks will report it)"
