#!/bin/sh
# Build the framework offline from files on disk: Lean project (all property theorems + model driver)
# and the Rust correspondence harness (both crypto variants) against /repo's working tree.
# Every ./check rebuilds what it needs anyway (incrementally); this only warms the caches (cold: ~5 min).
cd "$(dirname "$0")" || exit 1
export CARGO_NET_OFFLINE=true
mkdir -p work evidence/replays
python3 -c "import importlib.util,sys; s=importlib.util.spec_from_file_location('p','propscfg.py'); m=importlib.util.module_from_spec(s); s.loader.exec_module(m); print('setup: propscfg.py ok,', len(m.PROPS), 'properties configured')" || { echo "setup: propscfg.py does not load"; exit 1; }
rc=0
(cd harness && cargo build --release --offline --target-dir target-default) || { echo "setup: harness build (default) failed"; rc=1; }
(cd harness && cargo build --release --offline --target-dir target-altcrypto --no-default-features --features altcrypto) || { echo "setup: harness build (altcrypto) failed"; rc=1; }
(cd harness && cargo build --release --offline --target-dir target-optimism --features optimism) || { echo "setup: harness build (optimism) failed"; rc=1; }
if [ -x harness/target-default/release/tables ]; then
  harness/target-default/release/tables | python3 tools/tables2lean.py > work/Tables.lean.new && \
    (cmp -s work/Tables.lean.new lean/Revm/Gen/Tables.lean || cp work/Tables.lean.new lean/Revm/Gen/Tables.lean)
fi
(cd lean && lake build Revm revm_model) || { echo "setup: lake build failed"; rc=1; }
exit $rc
