#!/usr/bin/env python3
"""stdin: output of harness `tables`; stdout: Lean source of Revm/Gen/Tables.lean (regenerated every run)."""
import sys, collections
specs = []; enabled = []; opinfo = {}; opstatus = collections.defaultdict(dict); txstatus = collections.defaultdict(dict)
pre = collections.defaultdict(list); consts = []; ires = []
statictab = collections.defaultdict(dict); staticchild = []   # C10, written to Revm/Gen/StaticTable.lean
for line in sys.stdin:
    t = line.split()
    if not t: continue
    k = t[0]
    if k == "specid": specs.append((" ".join(t[1:-1]), int(t[-1])))
    elif k == "enabled": enabled.append((int(t[1]), int(t[2]), t[3] == "1"))
    elif k == "opinfo": opinfo[int(t[1])] = tuple(int(x) for x in t[2:8])
    elif k == "opstatus": opstatus[int(t[1])][int(t[2])] = int(t[3])
    elif k == "txstatus": txstatus[int(t[1])][int(t[2])] = (int(t[3]), int(t[4]))
    elif k == "precompile": pre[int(t[1])].append((int(t[2]), t[3] == "1", t[4] == "1", t[5] == "1"))
    elif k == "const": consts.append((t[1], int(t[2])))
    elif k == "iresult": ires.append((t[1], t[2] == "1", t[3] == "1", t[4] == "1"))
    elif k == "statictab": statictab[(int(t[1]), int(t[2]), int(t[3]))][int(t[4])] = int(t[5])
    elif k == "staticchild": staticchild.append(tuple(int(x) for x in t[1:6]))
def b(x): return "true" if x else "false"
o = []
o.append("/-! GENERATED on every run by tools/tables2lean.py from the output of harness/src/bin/tables.rs,")
o.append("which *executes the compiled implementation* exhaustively. Do not edit. -/")
o.append("namespace Revm.Gen")
o.append("def specIds : List Nat := [" + ", ".join(str(n) for _, n in specs) + "]")
o.append("def specNames : List (String × Nat) := [" + ", ".join(f'("{n}", {v})' for n, v in specs) + "]")
o.append("/-- `SpecId::enabled(a, b)` for every pair -/")
o.append("def enabledTable : List (Nat × Nat × Bool) := [" + ", ".join(f"({a}, {c}, {b(e)})" for a, c, e in enabled) + "]")
o.append("/-- OPCODE_INFO_JUMPTABLE: (opcode, present, inputs, outputs, immediate, not_eof, terminating) -/")
o.append("def opInfo : List (Nat × Nat × Nat × Nat × Nat × Nat × Nat) := [" + ",\n  ".join(f"({op}, {', '.join(str(x) for x in opinfo[op])})" for op in sorted(opinfo)) + "]")
o.append("/-- executing the single opcode (legacy, 17 stack items, dummy host) per spec:")
o.append("0 other, 1 NotActivated, 2 OpcodeNotFound, 3 EOFOpcodeDisabledInLegacy, 4 InvalidFEOpcode, 5 ReturnContractInNotInitEOF -/")
o.append("def opStatus : List (Nat × List Nat) := [")
o.append(",\n".join(f"  ({s}, [" + ", ".join(str(opstatus[s][op]) for op in range(256)) + "])" for _, s in specs))
o.append("]")
o.append("/-- the same opcode through `Evm::transact` (code = 17×PUSH1 1, op): (halt code, gas_used == gas_limit);")
o.append("halt code 0 not halted by a gate, 1 NotActivated, 2 OpcodeNotFound, 4 InvalidFEOpcode -/")
o.append("def txStatus : List (Nat × List (Nat × Nat)) := [")
o.append(",\n".join(f"  ({s}, [" + ", ".join(f"({txstatus[s][op][0]}, {txstatus[s][op][1]})" for op in range(256)) + "])" for _, s in specs))
o.append("]")
o.append("/-- per spec: (address, in Precompiles::new(from_spec_id), in handler.load_precompiles(), a call tx behaves exactly like a call to an empty account) -/")
o.append("def precompiles : List (Nat × List (Nat × Bool × Bool × Bool)) := [")
o.append(",\n".join(f"  ({s}, [" + ", ".join(f"({a}, {b(d)}, {b(h)}, {b(e)})" for a, d, h, e in pre[s]) + "])" for _, s in specs))
o.append("]")
for n, v in consts: o.append(f"def const_{n} : Nat := {v}")
o.append("/-- InstructionResult classification: (name, is_ok, is_revert, is_error) -/")
o.append("def iresult : List (String × Bool × Bool × Bool) := [" + ", ".join(f'("{n}", {b(x)}, {b(y)}, {b(z)})' for n, x, y, z in ires) + "]")
o.append("end Revm.Gen")
print("\n".join(o))
# C10: the static-mode table goes to its own generated file (rewritten only when its content changes)
if statictab:
    import os
    q = []
    q.append("/-! GENERATED on every run by tools/tables2lean.py from the `statictab` / `staticchild` lines of")
    q.append("harness/src/bin/tables.rs (harness/src/c10.rs::dump_static_table), which *executes the compiled")
    q.append("implementation* in static mode for every opcode x SpecId x {legacy, EOF} x {zero, one} stack fill. Do not edit. -/")
    q.append("namespace Revm.Gen")
    q.append("/-- rows (spec, eof, fill, codes for opcode 0..255); code = res*100 + mut*10 + act, 999 = not executed")
    q.append("(opcode rejected by EOF validation); see harness/src/c10.rs for res / mut / act -/")
    q.append("def staticTable : List (Nat × Nat × Nat × List Nat) := [")
    q.append(",\n".join(f"  ({s_}, {e}, {f}, [" + ", ".join(str(statictab[(s_, e, f)][op]) for op in range(256)) + "])" for (s_, e, f) in sorted(statictab, key=lambda x: ([n for _, n in specs].index(x[0]), x[1], x[2]))))
    q.append("]")
    q.append("/-- (spec, eof, parent is_static, call opcode, child): child = CallInputs.is_static of the emitted Call action, 2 = no Call action -/")
    q.append("def staticChild : List (Nat × Nat × Nat × Nat × Nat) := [" + ", ".join("(" + ", ".join(str(x) for x in r) + ")" for r in staticchild) + "]")
    q.append("end Revm.Gen")
    src = "\n".join(q) + "\n"
    dst = os.path.join(os.path.dirname(os.path.abspath(__file__)), "..", "lean", "Revm", "Gen", "StaticTable.lean")
    old = open(dst).read() if os.path.exists(dst) else None
    if old != src:
        with open(dst, "w") as f: f.write(src)
