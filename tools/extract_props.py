#!/usr/bin/env python3
"""tools/extract_props.py <builder-copy> <Cid>: write the lines the builder appended to its propscfg.py
(relative to /verif's base propscfg.py at commit BASE) into props/<Cid>.py"""
import sys, subprocess, difflib, os
ROOT = os.path.dirname(os.path.dirname(os.path.abspath(__file__)))
bdir, cid = sys.argv[1], sys.argv[2]
base = subprocess.run(["git", "-C", ROOT, "show", "9e6aa7f:propscfg.py"], capture_output=True, text=True).stdout.splitlines()
new = open(os.path.join(bdir, "propscfg.py")).read().splitlines()
added = [l[2:] for l in difflib.ndiff(base, new) if l.startswith("+ ")]
open(os.path.join(ROOT, "props", cid + ".py"), "w").write("\n".join(added) + "\n")
print(cid, len(added), "lines")
