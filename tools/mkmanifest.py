#!/usr/bin/env python3
"""Regenerate MANIFEST.json from propscfg.py (claimed checks) and the fixed property list."""
import json, os, importlib.util
ROOT = os.path.dirname(os.path.dirname(os.path.abspath(__file__)))
spec = importlib.util.spec_from_file_location("propscfg", os.path.join(ROOT, "propscfg.py"))
m = importlib.util.module_from_spec(spec); spec.loader.exec_module(m)
ids = [json.loads(l)["id"] for l in open(os.path.join(ROOT, "properties.jsonl"))]
checks, na = [], []
for cid in ids:
    cfg = m.PROPS.get(cid)
    if cid in getattr(m, 'PENDING', {}):
        na.append({'property_id': cid, 'reason': m.PENDING[cid]}); continue
    if not cfg or not os.path.exists(os.path.join(ROOT, f"lean/Revm/Props/{cid}.lean")):
        na.append({"property_id": cid, "reason": m.NOT_YET.get(cid, "check not built yet (work in progress; the technique applies, see DESIGN.md section 6)")})
        continue
    checks.append({
        "property_id": cid,
        "quick_cmd": f"./check {cid} --tier quick",
        "thorough_cmd": f"./check {cid} --tier thorough",
        "evidence_file": f"/verif/evidence/{cid}.json",
        "replay_cmd_template": f"./check {cid} --replay {{path}}",
        "engine": "lean4-proof+correspondence",
        "level_claimed": {"category": cfg.get("category", "proof"), "text": cfg["level_text"], "design_ref": cfg.get("design_ref", f"DESIGN.md section 6, {cid}")},
        "level_note": cfg["level_note"],
        "technique": cfg.get("technique", "Lean 4 theorems about an executable model of the code; model tied to the Rust code by a differential correspondence check on every run"),
    })
man = {
    "version": 1,
    "setup_cmd": "./setup.sh",
    "hooks": {"guard": "risechain_revm_verif", "enable": "RUSTFLAGS='--cfg risechain_revm_verif' (set in /verif/harness/.cargo/config.toml)",
              "baseline_off_cmd": "cd /repo && cargo test --workspace --no-fail-fast --offline",
              "source_commits": m.HOOK_COMMITS, "add_only": True},
    "engines": [{"name": "lean4-proof+correspondence", "path": "/verif/check",
                 "serves_properties": [c["property_id"] for c in checks],
                 "kind_free_text": "Lean 4.33 kernel-checked theorems over Spec/Model (lean/Revm), exhaustive behavioural tables regenerated from the compiled code (lean/Revm/Gen), line-protocol correspondence between the real Rust code (harness/) and the compiled Lean model driver (lean/Driver)"}],
    "checks": checks,
    "notes": m.NOTES,
    "not_applicable": na,
}
json.dump(man, open(os.path.join(ROOT, "MANIFEST.json"), "w"), indent=1)
print(f"{len(checks)} checks, {len(na)} not claimed")
