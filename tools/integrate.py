#!/usr/bin/env python3
"""integrate.py <agent_verif_dir> <base_commit>: copy the component files a builder created and union-merge
the shared registry files (Main.lean, Revm.lean, lib.rs, corr.rs, propscfg.py) against the base commit."""
import sys, os, subprocess, shutil
agent, base = sys.argv[1], sys.argv[2]
ROOT = "/verif"
SHARED = ["lean/Driver/Main.lean", "lean/Revm.lean", "harness/src/lib.rs", "harness/src/bin/corr.rs", "propscfg.py"]
DIRS = ["lean/Revm/Model", "lean/Revm/Spec", "lean/Revm/Proofs", "lean/Revm/Props", "lean/Revm/Util", "lean/Driver", "harness/src", "harness/src/bin", "corpus", "tools"]
skip = set(sys.argv[3:])
for d in DIRS:
    ad = os.path.join(agent, d)
    if not os.path.isdir(ad): continue
    for dp, dn, fn in os.walk(ad):
        if d == "harness/src" and dp != ad and not dp.startswith(os.path.join(ad, "bin")): pass
        for f in fn:
            src = os.path.join(dp, f); rel = os.path.relpath(src, agent)
            if rel in SHARED or rel in skip: continue
            dst = os.path.join(ROOT, rel)
            if os.path.exists(dst):
                if open(src, "rb").read() != open(dst, "rb").read():
                    # changed existing file: only report
                    basev = subprocess.run(["git", "-C", ROOT, "show", f"{base}:{rel}"], capture_output=True)
                    if basev.returncode == 0 and basev.stdout == open(src, "rb").read(): continue  # agent did not touch it
                    print("CHANGED-EXISTING (not copied):", rel)
                continue
            os.makedirs(os.path.dirname(dst), exist_ok=True)
            shutil.copy(src, dst); print("copied", rel)
        if d != "corpus" and d != "harness/src": break
for rel in SHARED:
    basev = subprocess.run(["git", "-C", ROOT, "show", f"{base}:{rel}"], capture_output=True).stdout
    open("/tmp/_base", "wb").write(basev)
    a = os.path.join(agent, rel)
    if open(a, "rb").read() == basev: continue
    r = subprocess.run(["git", "merge-file", "--union", os.path.join(ROOT, rel), "/tmp/_base", a])
    print("merged", rel, "rc", r.returncode)
