#!/usr/bin/env python3
"""print the markdown table of DESIGN.md section 13 from seeded/*/meta.json and seeded/RESULTS.json"""
import json, os
ROOT = os.path.dirname(os.path.dirname(os.path.abspath(__file__)))
res = json.load(open(os.path.join(ROOT, "seeded", "RESULTS.json")))
print("| seed | breaks | what it changes (file) | needs to manifest | caught by | missed by → what was strengthened |")
print("|---|---|---|---|---|---|")
for d in sorted(os.listdir(os.path.join(ROOT, "seeded"))):
    mp = os.path.join(ROOT, "seeded", d, "meta.json")
    if not os.path.exists(mp): continue
    m = json.load(open(mp)); r = res.get(d, {})
    patch = open(os.path.join(ROOT, "seeded", d, "patch.diff")).read()
    files = sorted({l.split(" b/")[1].strip() for l in patch.splitlines() if l.startswith("diff --git")})
    short = lambda s, n: (s[:n].rsplit(" ", 1)[0] + " …") if len(s) > n else s
    cell = lambda s: s.replace("|", "\\|").replace("\n", " ")
    missed = ", ".join(r.get("missed", []))
    after = r.get("after") or r.get("note") or ""
    print(f"| `{d}` | {m['property']} | {cell(short(m['summary'], 230))} ({', '.join(os.path.basename(f) for f in files)}) | {cell(short(m['needs'], 200))} | {', '.join(r.get('caught', [])) or '—'} | {cell((missed + ' → ' + after) if missed else after)} |")
