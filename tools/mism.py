#!/usr/bin/env python3
"""debug helper: tools/mism.py <comp> <seed> <n> [variant]  -> list every impl/model/spec disagreement of one generated stream"""
import sys, os, subprocess, collections
ROOT = os.path.dirname(os.path.dirname(os.path.abspath(__file__)))
comp, seed, n = sys.argv[1], sys.argv[2], sys.argv[3]
var = sys.argv[4] if len(sys.argv) > 4 else "default"
wd = os.path.join(ROOT, "work", "mism-" + comp); os.makedirs(wd, exist_ok=True)
subprocess.run([os.path.join(ROOT, "harness/target-%s/release/corr" % var), comp, seed, n, wd], check=True)
with open(os.path.join(wd, "req.txt")) as fi, open(os.path.join(wd, "model.txt"), "w") as fo:
    subprocess.run([os.path.join(ROOT, "lean/.lake/build/bin/revm_model")], stdin=fi, stdout=fo)
rd = lambda f: open(os.path.join(wd, f)).read().split("\n")[:-1]
req, impl, model = rd("req.txt"), rd("impl.txt"), rd("model.txt")
print(len(req), len(impl), len(model))
by = collections.Counter()
for q, a, b in zip(req, impl, model):
    parts = b.split(" | ")
    m = parts[0].rstrip(); s = parts[1].strip()[5:] if len(parts) > 1 else None
    if a.rstrip() != m or (s is not None and s != m.split(" || ")[0]):
        k = " ".join(q.split()[:2]); by[k] += 1
        if by[k] <= int(os.environ.get("SHOW", "3")): print("REQ", q[:200], "\n  impl ", a[:200], "\n  model", b[:300])
print(by)
