#!/bin/bash
# tools/merge_builder.sh <Cid> [props-file-name]: merge /root/build/<Cid> branch b-<Cid> into /verif
id=$1; name=${2:-$1}
cd /verif || exit 1
git -c user.email=b@x -c user.name=builder pull -q --no-rebase --no-edit /root/build/$id b-$id 2>&1 | grep -v "^Auto-merging\|^hint" | tail -5
for f in propscfg.py MANIFEST.json; do git checkout --ours $f 2>/dev/null; done
git checkout --ours evidence 2>/dev/null
git checkout --ours known_findings.json 2>/dev/null
python3 - "$id" <<'PY'
import json,sys
ours=json.load(open('/verif/known_findings.json')); theirs=json.load(open('/root/build/%s/known_findings.json'%sys.argv[1]))
keys={(f['property'],f['id']) for f in ours['findings']}
for f in theirs['findings']:
    if (f['property'],f['id']) not in keys: ours['findings'].append(f); print('finding added',f['property'],f['id'])
json.dump(ours,open('/verif/known_findings.json','w'),indent=1)
PY
if ! grep -q "PROPS\[\"$id\"\]" props/*.py 2>/dev/null; then python3 tools/extract_props.py /root/build/$id $name; fi
git add -A
git diff --name-only --diff-filter=U
git -c user.email=b@x -c user.name=builder commit -qm "Merge b-$id" 2>&1 | tail -1
python3 tools/mkmanifest.py; git add -A; git -c user.email=b@x -c user.name=builder commit -qm "manifest" 2>/dev/null
