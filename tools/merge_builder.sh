#!/bin/bash
# tools/merge_builder.sh <Cid> [props-file-name]: merge /root/build/<Cid> branch b-<Cid> into /verif
id=$1; name=${2:-$1}
cd /verif || exit 1
git -c user.email=b@x -c user.name=builder pull -q --no-rebase --no-edit /root/build/$id b-$id 2>&1 | grep -v "^Auto-merging\|^hint" | tail -5
for f in propscfg.py MANIFEST.json; do git checkout --ours $f 2>/dev/null; done
git checkout --ours evidence 2>/dev/null
if ! grep -q "PROPS\[\"$id\"\]" props/*.py 2>/dev/null; then python3 tools/extract_props.py /root/build/$id $name; fi
git add -A
git diff --name-only --diff-filter=U
git -c user.email=b@x -c user.name=builder commit -qm "Merge b-$id" 2>&1 | tail -1
python3 tools/mkmanifest.py; git add -A; git -c user.email=b@x -c user.name=builder commit -qm "manifest" 2>/dev/null
