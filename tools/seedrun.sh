#!/bin/bash
# tools/seedrun.sh confirm <seeddir>          : confirm a seeded change (suite passes with it; demo fails with it, passes without)
# tools/seedrun.sh check <seeddir> <Cid>...   : run ./check <Cid> against the seeded change
#     default: in a scratch copy of /verif whose harness path-depends on a patched scratch worktree (does not disturb /repo);
#     SEED_IN_REPO=1: apply the patch to /repo itself, run the registered checks in /verif, and undo it straight afterwards.
# <seeddir> holds patch.diff, demo.rs, meta.json {crate, demo_path, cargo_args}
set -u
mode=$1; sd=$(realpath "$2"); shift 2
WT=${SEED_WT:-/tmp/seedconfirm}
export CARGO_NET_OFFLINE=true RUST_BACKTRACE=0
j() { python3 -c "import json,sys; print(json.load(open('$sd/meta.json')).get('$1',''))"; }
prep() {
  if [ ! -d $WT ]; then git -C /repo worktree add -q --detach $WT HEAD || exit 2; fi
  git -C $WT checkout -q --detach "$(git -C /repo rev-parse HEAD)" 2>/dev/null
  git -C $WT checkout -q -- . ; git -C $WT clean -qfd -e target crates bins 2>/dev/null
}
if [ "$mode" = confirm ]; then
  prep
  crate=$(j crate); dp=$(j demo_path); ca=$(j cargo_args)
  git -C $WT apply "$sd/patch.diff" || { echo "CONFIRM: patch does not apply"; exit 1; }
  (cd $WT && cargo test --workspace --no-fail-fast --offline > $sd/confirm_suite.log 2>&1); rc_suite=$?
  mkdir -p "$(dirname $WT/$dp)"; cp "$sd/demo.rs" "$WT/$dp"
  (cd $WT && cargo test -p $crate --test "$(basename $dp .rs)" --offline $ca > $sd/confirm_demo_with.log 2>&1); rc_with=$?
  git -C $WT apply -R "$sd/patch.diff"
  (cd $WT && cargo test -p $crate --test "$(basename $dp .rs)" --offline $ca > $sd/confirm_demo_without.log 2>&1); rc_without=$?
  rm -f "$WT/$dp"
  echo "CONFIRM suite_with_patch_rc=$rc_suite demo_with_patch_rc=$rc_with demo_without_patch_rc=$rc_without"
  [ $rc_suite = 0 ] && [ $rc_with != 0 ] && [ $rc_without = 0 ] && { echo "CONFIRMED"; exit 0; }
  echo "NOT CONFIRMED"; exit 1
fi
if [ "$mode" = check ]; then
  if [ "${SEED_IN_REPO:-0}" = 1 ]; then
    git -C /repo apply "$sd/patch.diff" || exit 2
    for c in "$@"; do (cd /verif && ./check $c 2>&1 | tail -4 | sed "s/^/[$c] /"); done
    git -C /repo checkout -- crates bins 2>/dev/null; git -C /repo status --short | grep -v '^ M tests/' | head
  else
    prep; git -C $WT apply "$sd/patch.diff" || exit 2
    SV=${SEED_SV:-/root/seedverif}
    mkdir -p $SV; rsync -a --delete --exclude .git --exclude 'evidence/*.json' /verif/ $SV/
    sed -i "s#/repo/crates#$WT/crates#g" $SV/harness/Cargo.toml
    for c in "$@"; do (cd $SV && ./check $c 2>&1 | tail -4 | sed "s/^/[$c] /"); done
    git -C $WT checkout -q -- .
  fi
fi
