"""Per-property configuration of ./check (streams, budgets, trusted base, explanations)."""

def nt_default(q, a):
    return not a.startswith("bad-op")

PROPS = {}
HOOK_COMMITS = []
NOT_YET = {}
NOTES = "All checks: ./check <Cid> [--tier quick|thorough] [--replay file]. Each run rebuilds the harness against /repo's working tree, regenerates the behavioural tables, re-checks the Lean theorems of the property and runs the correspondence streams. See DESIGN.md."

PROPS["C03"] = {
    "streams": [{"comp": "C03", "quick_n": 20000, "thorough_n": 2000000,
                 "nontrivial": lambda q, a: not a.startswith("bad-op") and not a.startswith("0 ")}],
    "rule": "every one of the 25 opcodes executed by the real interpreter (Interpreter::run on [op], all specs where it exists) on: the complete cross product of 67 boundary words for unary/binary ops, biased-random words, and relation-driven pairs (a,a), (a,-a), (a,a+1), (a,b,a); non-trivial = result word is not 0; distinct by request line",
    "explanation": "Theorems (Props/C03.lean): for each of the 25 opcodes Model.op = Spec.op for all words < 2^256 (Spec = unbounded Nat/Int arithmetic mod 2^256; Int.tdiv/Int.tmod for SDIV/SMOD, a^b mod 2^256 for EXP, floor division of the signed reading for SAR, any 256-bit shift amount / byte index), every result is again < 2^256, and exp_cost = 10 + (10|50)*byteLen(exponent) never fails (log2floor's limb scan = Nat.log2). The model follows the Rust control flow over ruint primitives; the correspondence stream ties it to the compiled opcode handlers, including gas charged (3/5/8 and exp_cost per fork) and stack items consumed.",
    "level_text": "Kernel-checked theorems Model.op = Spec.op for all 256-bit operands for all 25 opcodes (Spec = unbounded Nat/Int arithmetic mod 2^256, two's complement for signed ops, 0 on zero divisor/modulus), range preservation of every result, and the EXP gas formula; the model follows the Rust control flow; static gas 3/5/8 and the number of consumed stack items are established by the three-way correspondence impl = model = spec column on every fork where the opcode exists.",
    "level_note": "Trusted: Lean kernel; ruint primitives as defined in Util/Word.lean and u64::leading_zeros as defined in Model/Arith.lean (lz64); the model is tied to the compiled opcode handlers by differential correspondence (boundary cross product + random), not by proof.",
    "trusted_base": ["ruint primitive operations (+,-,*,/,%,pow loop body, shifts, bit, add_mod, mul_mod) as defined in Revm/Util/Word.lean", "u64::leading_zeros as defined by Model.Arith.lz64"],
}

PROPS["C05"] = {
    "tables": True, "exhaustive": True,
    "streams": [{"comp": "C05", "quick_n": 0, "thorough_n": 0,
                 "nontrivial": lambda q, a: True}],
    "rule": "EXHAUSTIVE: all 256 opcode bytes x every SpecId (21), each executed at interpreter level (single instruction, 17 stack items) and through Evm::transact (17 PUSH1 + op), and 37 addresses (0..=0x20, 0xff, 0x100, 0x101, 0xdead) x every SpecId (direct precompile set, handler-loaded set, behaviour of a call transaction compared with a call to an empty account). Every probe is distinct and counted; the same enumeration is regenerated into lean/Revm/Gen/Tables.lean and decided by the kernel.",
    "explanation": "Finite property, enumerated completely: the tables are dumped from the compiled implementation on every run and the theorems (decide +kernel over the whole table, lifted to membership form) compare them with hand-written EIP activation tables. The correspondence stream repeats the same probes as request lines so that a failing obligation comes with a concrete (spec, opcode/address) witness.",
    "level_text": "Kernel-checked theorems over exhaustive behavioural tables regenerated from the compiled code on every run: for all 256 opcodes x all SpecIds the instruction behaves as undefined (NotActivated/OpcodeNotFound/EOF-only; transaction halts with the whole gas limit used) iff the EIP activation table says so; for every address x SpecId precompile membership (direct and via handler) and empty-account behaviour match the EIP table. The quantifier is finite and covered completely.",
    "level_note": "Trusted: Lean kernel (decide +kernel); the dumper harness/src/bin/tables.rs + tools/tables2lean.py (observes behaviour of the compiled code through spec_to_generic! and Evm::transact); the hand-written EIP tables in Spec/Activation.lean. Optimism SpecIds are not in the default build's table.",
    "technique": "Lean 4 decide +kernel over exhaustive tables regenerated from the compiled implementation, against hand-written EIP activation tables",
    "trusted_base": ["table dumper harness/src/bin/tables.rs and tools/tables2lean.py", "hand-written EIP activation tables (Spec/Activation.lean)"],
}
