"""Per-property configuration of ./check (streams, budgets, trusted base, explanations)."""

def nt_default(q, a):
    return not a.startswith("bad-op")

PROPS = {}
HOOK_COMMITS = []
NOT_YET = {}
NOTES = "All checks: ./check <Cid> [--tier quick|thorough] [--replay file]. Each run rebuilds the harness against /repo's working tree, regenerates the behavioural tables, re-checks the Lean theorems of the property and runs the correspondence streams. See DESIGN.md."

PROPS["C03"] = {
    "streams": [{"comp": "C03", "quick_n": 20000, "thorough_n": 2000000,
                 "nontrivial": lambda q, a: not a.startswith("bad-op") and not a.startswith("0 ")}],
    "rule": "every one of the 25 opcodes executed by the real interpreter (Interpreter::run on [op], all specs where it exists) on: the complete cross product of 67 boundary words for unary/binary ops, biased-random words, and relation-driven pairs (a,a), (a,-a), (a,a+1), (a,b,a); non-trivial = result word is not 0; distinct by request line",
    "explanation": "Theorems: Model.op = Spec.op for all words < 2^256 (Spec = unbounded Nat/Int arithmetic mod 2^256). The model follows the Rust control flow over ruint primitives; the correspondence stream ties it to the compiled opcode handlers, including gas charged and stack items consumed.",
    "level_text": "Kernel-checked theorems Model.op = Spec.op for all 256-bit operands (Spec = unbounded Nat/Int arithmetic mod 2^256, two's complement for signed ops); the model follows the Rust control flow; opcodes without a closed theorem yet are carried by the three-way correspondence impl = model = spec column.",
    "level_note": "Trusted: Lean kernel; ruint primitives as defined in Util/Word.lean; the model is tied to the compiled opcode handlers by differential correspondence (boundary cross product + random), not by proof.",
    "trusted_base": ["ruint primitive operations (+,-,*,/,%,pow loop body, shifts, bit, add_mod, mul_mod) as defined in Revm/Util/Word.lean"],
}
